#!/usr/bin/env python3
"""Re-run the checks on mutants that survived the unit tests (status SURVIVED-UNCAUGHT / caught) from a mutate.py output.
usage: tools/mut_recheck.py /tmp/mut.jsonl [--jobs 8] [--only-uncaught]"""
import concurrent.futures, json, os, shutil, subprocess, sys, tempfile
VERIF = os.path.dirname(os.path.dirname(os.path.abspath(__file__)))
PROPS = ['C01', 'C02', 'C03', 'C05', 'C06', 'C07', 'C08', 'C09', 'C10', 'C12', 'C13', 'C15', 'C16', 'C17', 'C18', 'C19']
src = sys.argv[1]
jobs = int(sys.argv[sys.argv.index('--jobs') + 1]) if '--jobs' in sys.argv else 8
rows = [json.loads(l) for l in open(src)]
seen = set()
todo = []
for r in rows:
    k = (r['file'], r['line'], r['new'])
    if r['status'] in ('SURVIVED-UNCAUGHT',) and k not in seen and not r['old'].strip().startswith(('# ', '///', '//!')):
        seen.add(k)
        todo.append(r)


def run(args):
    i, r = args
    d = tempfile.mkdtemp(prefix='kvmutr-')
    try:
        for item in ('crates', 'Cargo.toml', 'Cargo.lock'):
            s = os.path.join('/repo', item)
            t = os.path.join(d, item)
            if os.path.isdir(s):
                shutil.copytree(s, t, ignore=shutil.ignore_patterns('target'))
            else:
                shutil.copy(s, t)
        f = os.path.join(d, 'crates/kira/src', r['file'])
        lines = open(f).read().split('\n')
        if lines[r['line']] != r['old']:
            return r, {'STALE': ['source line changed']}
        lines[r['line']] = r['new']
        for k in range(r['line'] + 1, r.get('end', r['line']) + 1):
            lines[k] = '// (deleted)'
        open(f, 'w').write('\n'.join(lines))
        env = dict(os.environ, KV_REPO=d, KV_EVIDENCE=os.path.join(d, 'ev'), KV_NO_SELFTEST='1', KV_KEEP_FACTS='1',
                   KV_TARGET=os.path.join(VERIF, '.cache', 'target-scratch-%d' % (i % jobs)))
        caught = {}
        for p in PROPS:
            x = subprocess.run([os.path.join(VERIF, 'kv'), 'check', p], env=env, stdout=subprocess.PIPE, stderr=subprocess.STDOUT, text=True)
            if x.returncode == 1:
                caught[p] = [l.split('key=')[1].strip() for l in x.stdout.splitlines() if l.strip().startswith('rule=')][:2]
            elif x.returncode != 0:
                caught[p] = ['CRASH ' + x.stdout[-150:]]
        return r, caught
    finally:
        shutil.rmtree(d, ignore_errors=True)


# one scratch target dir per job slot: run in `jobs` lanes
import queue
lanes = queue.Queue()
for j in range(jobs):
    lanes.put(j)


def lane_run(r):
    j = lanes.get()
    try:
        return run((j, r))
    finally:
        lanes.put(j)


with concurrent.futures.ThreadPoolExecutor(max_workers=jobs) as ex:
    for r, caught in ex.map(lane_run, todo):
        tag = 'caught ' if caught else 'UNCAUGHT'
        print('%s %s:%d [%s] %s  %s' % (tag, r['file'], r['line'] + 1, r['op'], r['old'].strip()[:80], json.dumps(caught)[:160] if caught else ''), flush=True)
