#!/usr/bin/env python3
"""Run checks against a scratch copy of /repo with one patch applied.
usage: tools_mutant.py <patch.diff> <prop> [<prop>...]   (prints violation keys; cleans up)
Used by the selftest (Engine D) and by hand while developing rules."""
import json, os, shutil, subprocess, sys, tempfile

VERIF = os.path.dirname(os.path.abspath(__file__))


def run_mutant(patch, props, keep=False, tier='quick', slot='0'):
    scratch = tempfile.mkdtemp(prefix='kvscratch-')
    try:
        for item in ('crates', 'Cargo.toml', 'Cargo.lock'):
            src = os.path.join('/repo', item)
            dst = os.path.join(scratch, item)
            if os.path.isdir(src):
                shutil.copytree(src, dst, ignore=shutil.ignore_patterns('target'))
            else:
                shutil.copy(src, dst)
        subprocess.run(['git', 'init', '-q'], cwd=scratch)
        if patch:
            r = subprocess.run(['git', 'apply', '--whitespace=nowarn', os.path.abspath(patch)], cwd=scratch,
                               stdout=subprocess.PIPE, stderr=subprocess.STDOUT, text=True)
            if r.returncode != 0:
                return {'error': 'patch does not apply: ' + r.stdout}
        ev = os.path.join(scratch, 'evidence')
        env = dict(os.environ, KV_REPO=scratch, KV_EVIDENCE=ev, KV_KEEP_FACTS='1',
                   KV_TARGET=os.path.join(VERIF, '.cache', 'target-scratch-' + slot))
        out = {}
        for p in props:
            r = subprocess.run([os.path.join(VERIF, 'kv'), 'check', p, '--tier', tier], env=env,
                               stdout=subprocess.PIPE, stderr=subprocess.STDOUT, text=True)
            keys = []
            vdir = os.path.join(ev, 'violations')
            if os.path.isdir(vdir):
                for f in sorted(os.listdir(vdir)):
                    if f.startswith(p + '-'):
                        keys.append(json.load(open(os.path.join(vdir, f)))['key'])
            out[p] = {'exit': r.returncode, 'keys': keys, 'tail': r.stdout[-1500:] if r.returncode not in (0, 1) else ''}
        # facts of the scratch tree are of no further use
        cache = os.path.join(VERIF, '.cache')
        return out
    finally:
        if not keep:
            shutil.rmtree(scratch, ignore_errors=True)


if __name__ == '__main__':
    res = run_mutant(sys.argv[1], sys.argv[2:])
    print(json.dumps(res, indent=1))
