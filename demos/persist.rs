//! C12: a track built to persist until its sounds finish keeps playing until they do - also when the sound was played and
//! the handle dropped between the same two callbacks (the sound is then still in the track's new-resource queue when the
//! removal predicate runs).  Likewise a track is not unloaded while a child track that is alive is still queued.
use std::{
	sync::{mpsc, Arc},
	time::Duration,
};

use kira::{
	track::TrackBuilder,
	backend::{Backend, Renderer},
	sound::static_sound::{StaticSoundData, StaticSoundSettings},
	AudioManager, AudioManagerSettings, Frame,
};

const SAMPLE_RATE: u32 = 100;

/// A backend that just keeps the renderer so the test can drive it.
struct TestBackend {
	renderer: Option<Renderer>,
}

impl Backend for TestBackend {
	type Settings = u32;
	type Error = ();

	fn setup(sample_rate: u32, _internal_buffer_size: usize) -> Result<(Self, u32), ()> {
		Ok((Self { renderer: None }, sample_rate))
	}

	fn start(&mut self, renderer: Renderer) -> Result<(), ()> {
		self.renderer = Some(renderer);
		Ok(())
	}
}

fn manager() -> AudioManager<TestBackend> {
	AudioManager::<TestBackend>::new(AudioManagerSettings {
		capacities: Default::default(),
		main_track_builder: Default::default(),
		internal_buffer_size: 128,
		backend_settings: SAMPLE_RATE,
	})
	.unwrap()
}

/// Runs one audio callback of `num_frames` stereo frames on another thread and
/// fails if it does not come back within ten seconds.
fn callback_with_timeout(mut renderer: Renderer, num_frames: usize) -> (Renderer, Vec<f32>) {
	let (sender, receiver) = mpsc::channel();
	std::thread::spawn(move || {
		let mut out = vec![0.0f32; num_frames * 2];
		renderer.on_start_processing();
		renderer.process(&mut out, 2);
		sender.send((renderer, out)).ok();
	});
	receiver
		.recv_timeout(Duration::from_secs(10))
		.expect("the audio callback did not return within 10 seconds (or panicked)")
}

#[test]
fn a_persisting_track_plays_a_sound_queued_just_before_its_handle_was_dropped() {
	let mut manager = manager();
	let mut track = manager
		.add_sub_track(TrackBuilder::new().persist_until_sounds_finish(true))
		.unwrap();
	let renderer = manager.backend_mut().renderer.take().unwrap();
	// the audio thread picks the track up
	let (renderer, _) = callback_with_timeout(renderer, 4);
	let frames: Arc<[Frame]> = (0..50).map(|_| Frame::from_mono(0.25)).collect();
	track
		.play(StaticSoundData {
			sample_rate: SAMPLE_RATE,
			frames,
			settings: StaticSoundSettings::new(),
			slice: None,
		})
		.unwrap();
	drop(track);
	let (_renderer, out) = callback_with_timeout(renderer, 16);
	assert!(out.iter().any(|s| *s != 0.0), "the sound played just before the drop is never heard");
}

#[test]
fn a_track_is_not_unloaded_while_a_living_child_is_still_queued() {
	let mut manager = manager();
	let mut parent = manager.add_sub_track(TrackBuilder::new()).unwrap();
	let renderer = manager.backend_mut().renderer.take().unwrap();
	let (renderer, _) = callback_with_timeout(renderer, 4);
	let mut child = parent.add_sub_track(TrackBuilder::new()).unwrap();
	drop(parent);
	let frames: Arc<[Frame]> = (0..50).map(|_| Frame::from_mono(0.25)).collect();
	child
		.play(StaticSoundData {
			sample_rate: SAMPLE_RATE,
			frames,
			settings: StaticSoundSettings::new(),
			slice: None,
		})
		.unwrap();
	let (_renderer, out) = callback_with_timeout(renderer, 16);
	assert!(out.iter().any(|s| *s != 0.0), "the living child track (and its sound) was discarded with its parent");
}
