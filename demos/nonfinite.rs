//! Demonstrations for the findings of the `A.singular` rule (float operations on the audio path that turn finite
//! arguments into NaN / infinity). Not part of any check. Copy to crates/kira/tests/ in a scratch copy of the repository.
//! `mapping_with_empty_input_range` failed before fix 2a46990 and passes now; the other four are RECORDED findings
//! (status "known" in /verif/known_findings.jsonl) and still fail.
use kira::{
	backend::{Backend, Renderer},
	clock::ClockSpeed,
	effect::compressor::CompressorBuilder,
	modulator::tweener::TweenerBuilder,
	sound::static_sound::{StaticSoundData, StaticSoundSettings},
	track::{SpatialTrackBuilder, TrackBuilder},
	AudioManager, AudioManagerSettings, Decibels, Easing, Frame, Mapping, Tween, Value,
};
use std::sync::Arc;
use std::time::Duration;

/// a backend that hands the renderer to the test, so that the test drives the callbacks and reads the samples
struct OwnedBackend;
thread_local! { static RENDERER: std::cell::RefCell<Option<Renderer>> = std::cell::RefCell::new(None); }
impl Backend for OwnedBackend {
	type Settings = ();
	type Error = ();
	fn setup(_: (), _: usize) -> Result<(Self, u32), ()> { Ok((OwnedBackend, 48000)) }
	fn start(&mut self, renderer: Renderer) -> Result<(), ()> { RENDERER.with(|r| *r.borrow_mut() = Some(renderer)); Ok(()) }
}
fn mgr() -> (AudioManager<OwnedBackend>, Renderer) {
	let m = AudioManager::<OwnedBackend>::new(AudioManagerSettings::default()).unwrap();
	let r = RENDERER.with(|r| r.borrow_mut().take().unwrap());
	(m, r)
}
fn render(r: &mut Renderer, n: usize) -> Vec<f32> {
	let mut out = vec![];
	for _ in 0..n {
		let mut buf = vec![0.0f32; 256];
		r.on_start_processing();
		r.process(&mut buf, 2);
		out.extend(buf);
	}
	out
}
fn sound(settings: StaticSoundSettings) -> StaticSoundData {
	StaticSoundData { sample_rate: 48000, frames: Arc::new([Frame::from_mono(0.5); 48000]), settings, slice: None }
}
fn all_finite(v: &[f32]) -> bool { v.iter().all(|x| x.is_finite()) }

/// fixed by 2a46990
#[test]
fn mapping_with_empty_input_range() {
	let (mut m, mut r) = mgr();
	let tw = m.add_modulator(TweenerBuilder { initial_value: 1.0 }).unwrap();
	let volume: Value<Decibels> = Value::FromModulator {
		id: tw.id(),
		mapping: Mapping { input_range: (1.0, 1.0), output_range: (Decibels(-6.0), Decibels(0.0)), easing: Easing::Linear },
	};
	m.play(sound(StaticSoundSettings::new().volume(volume))).unwrap();
	let out = render(&mut r, 4);
	assert!(all_finite(&out), "NaN in output: {:?}", &out[..8]);
	assert!(out.iter().any(|x| *x != 0.0));
}

/// known finding (C01, C13): silence in, NaN out
#[test]
fn compressor_ratio_zero_gives_nan() {
	let (mut m, mut r) = mgr();
	let _t = m.add_sub_track({ let mut b = TrackBuilder::new(); b.add_effect(CompressorBuilder::new().ratio(0.0)); b }).unwrap();
	let out = render(&mut r, 4);
	assert!(all_finite(&out), "NaN in output: {:?}", &out[..8]);
}

/// known finding (C01, C05)
#[test]
fn clock_speed_tween_across_units_from_zero() {
	let (mut m, mut r) = mgr();
	let mut c = m.add_clock(ClockSpeed::TicksPerSecond(0.0)).unwrap();
	c.start();
	render(&mut r, 2);
	c.set_speed(ClockSpeed::SecondsPerTick(0.001), Tween { duration: Duration::from_millis(50), ..Default::default() });
	render(&mut r, 40);
	let t = c.time();
	assert!(t.fraction.is_finite(), "clock fraction {:?}", t);
	assert!(t.ticks > 0, "clock never ticked after the tween: {:?}", t);
}

/// known finding (C01)
#[test]
fn negative_easing_power_in_mapping() {
	let (mut m, mut r) = mgr();
	let tw = m.add_modulator(TweenerBuilder { initial_value: 0.0 }).unwrap();
	let volume: Value<Decibels> = Value::FromModulator {
		id: tw.id(),
		mapping: Mapping { input_range: (0.0, 1.0), output_range: (Decibels(-6.0), Decibels(0.0)), easing: Easing::InPowf(-1.0) },
	};
	m.play(sound(StaticSoundSettings::new().volume(volume))).unwrap();
	let out = render(&mut r, 4);
	assert!(all_finite(&out), "NaN in output");
}

/// known finding (C01, C15)
#[test]
fn zero_quaternion_listener() {
	let (mut m, mut r) = mgr();
	let l = m.add_listener(glam::Vec3::ZERO, glam::Quat::from_xyzw(0.0, 0.0, 0.0, 0.0)).unwrap();
	let mut t = m.add_spatial_sub_track(l.id(), glam::Vec3::new(3.0, 0.0, 0.0), SpatialTrackBuilder::new()).unwrap();
	t.play(sound(StaticSoundSettings::new())).unwrap();
	let out = render(&mut r, 4);
	assert!(all_finite(&out), "NaN in output: {:?}", &out[..8]);
}
