#!/bin/bash
# dev helper: run driver on /repo into /tmp/kvprobe
cd /repo && rm -rf /tmp/kvprobe/target/debug/.fingerprint/kira-* && env LD_LIBRARY_PATH=$(rustc +nightly --print sysroot)/lib RUSTFLAGS="-Zmir-opt-level=0 -Awarnings -Zalways-encode-mir -Coverflow-checks=off -Cdebug-assertions=off" RUSTC_WORKSPACE_WRAPPER=/verif/engine/kira-mir/target/release/kira-mir KIRA_FACTS_OUT=/tmp/kvprobe/facts.json KIRA_ROOTS=/verif/tables/roots.txt KIRA_NONCE=abc CARGO_TARGET_DIR=/tmp/kvprobe/target cargo +nightly check --offline -p kira "$@" 2>&1 | tail -15; ls -la /tmp/kvprobe/
