#!/usr/bin/env python3
"""Systematic behaviour-preserving single-line edits (controls): commute `+`, `*`, `==`, `!=` between two simple operands,
mirror a comparison (`a < b` -> `b > a`), `if c {A} else {B}` is not attempted.  Every alarm on such an edit is a false
alarm (or a mis-parse of this tool: triage by hand).  usage: tools/equiv.py [--max N] [--workers 8] [--out /tmp/equiv.jsonl]"""
import concurrent.futures, glob, json, os, random, re, shutil, subprocess, sys, tempfile
VERIF = os.path.dirname(os.path.dirname(os.path.abspath(__file__)))
SRC = 'crates/kira/src'
PROPS = ['C01', 'C02', 'C03', 'C05', 'C06', 'C07', 'C08', 'C09', 'C10', 'C12', 'C13', 'C15', 'C16', 'C17', 'C18', 'C19']
OPND = r'(?:[A-Za-z_][\w]*(?:\.[A-Za-z_0-9]\w*)*|\d+(?:\.\d+)?(?:_?[a-z]\w*)?)'
PAT = re.compile(r'(?P<pre>(?:^|[\(=,\{]|return|&&|\|\|)\s*)(?P<a>%s) (?P<op>==|!=|\+|\*|<=|>=|<|>) (?P<b>%s)(?P<post>\s*(?:[\);,\{]|&&|\|\||$))' % (OPND, OPND))
MIRROR = {'<': '>', '>': '<', '<=': '>=', '>=': '<=', '==': '==', '!=': '!=', '+': '+', '*': '*'}


def candidates(text):
    out = []
    lines = text.split('\n')
    for i, l in enumerate(lines):
        st = l.strip()
        if re.match(r'^(pub )?mod tests? \{', st):
            break
        if not st or st.startswith(('//', '#', '/*', '*', 'use ', 'pub use', 'fn ', 'pub fn', 'impl', 'where', 'type ', 'pub type')) or '->' in st or '=>' in st or '<' in st and '>' in st:
            continue
        if not l.startswith('\t\t'):
            continue
        m = PAT.search(l)
        if not m or m.group('a') == m.group('b'):
            continue
        if m.group('op') in ('<', '>') and ('::' in l or 'impl' in l):
            continue
        new = l[:m.start()] + m.group('pre') + m.group('b') + ' ' + MIRROR[m.group('op')] + ' ' + m.group('a') + m.group('post') + l[m.end():]
        if new != l:
            out.append((i, new, 'commute' + m.group('op')))
    return out


def syntax_candidates(text):
    """Further behaviour-preserving rewrites: `x += y` -> `x = x + y` (and -=, *=), `for p in &mut c` -> `for p in c.iter_mut()`,
    `for p in &c` -> `for p in c.iter()`, and `if c { A } else { B }` -> `if !(c) { B } else { A }` (blocks exchanged)."""
    out = []
    lines = text.split('\n')
    n = len(lines)
    for i, l in enumerate(lines):
        st = l.strip()
        if re.match(r'^(pub )?mod tests? \{', st):
            break
        if not l.startswith('\t\t') or st.startswith(('//', '#', '*', '/*')):
            continue
        m = re.match(r'^(\s*)([\w\.\*\[\]\(\)]+) (\+|-|\*)= (.+);$', l)
        if m and '==' not in l and not m.group(2).startswith('*'):
            out.append(((i, i), ['%s%s = %s %s (%s);' % (m.group(1), m.group(2), m.group(2), m.group(3), m.group(4))], 'compound-assign'))
        m = re.match(r'^(\s*for .* in )&mut ([\w\.]+) \{$', l)
        if m:
            out.append(((i, i), ['%s%s.iter_mut() {' % (m.group(1), m.group(2))], 'for-iter_mut'))
        m = re.match(r'^(\s*for .* in )&([\w\.]+) \{$', l)
        if m and not m.group(2).startswith('mut'):
            out.append(((i, i), ['%s%s.iter() {' % (m.group(1), m.group(2))], 'for-iter'))
        m = re.match(r'^(\s*)if (?!let )(.+) \{$', l)
        if m and '&&' not in m.group(2) and '||' not in m.group(2):
            ind = m.group(1)
            # find `<ind>} else {` and the closing `<ind>}`
            j = i + 1
            while j < n and not lines[j].startswith(ind + '}'):
                j += 1
            if j < n and lines[j] == ind + '} else {':
                k = j + 1
                while k < n and not lines[k].startswith(ind + '}'):
                    k += 1
                if k < n and lines[k] in (ind + '}', ind + '};'):
                    prev = lines[i - 1].strip() if i > 0 else ''
                    if not prev.endswith('else') and not lines[i].strip().startswith('} else'):
                        new = ['%sif !(%s) {' % (ind, m.group(2))] + lines[j + 1:k] + [ind + '} else {'] + lines[i + 1:j] + [lines[k]]
                        out.append(((i, k), new, 'if-else-swap'))
    return out


def rename_candidates(text):
    """[( (start_line, end_line), new_lines, op )]: one parameter or `let` local of a function renamed throughout the function."""
    out = []
    lines = text.split('\n')
    i = 0
    while i < len(lines):
        l = lines[i]
        if re.match(r'^(pub )?mod tests? \{', l.strip()):
            break
        m = re.match(r'^(\s*)(?:pub(?:\([a-z]+\))? )?(?:const )?fn (\w+)', l)
        if not m:
            i += 1
            continue
        # find the body: first line at or after i that ends with '{' at the fn's indentation, then the closing '}' at that indentation
        ind = m.group(1)
        j = i
        while j < len(lines) and not lines[j].rstrip().endswith('{'):
            if lines[j].rstrip().endswith(';'):
                break
            j += 1
        if j >= len(lines) or not lines[j].rstrip().endswith('{'):
            i += 1
            continue
        k = j + 1
        while k < len(lines) and lines[k] != ind + '}':
            k += 1
        if k >= len(lines):
            i += 1
            continue
        sig = ' '.join(x.strip() for x in lines[i:j + 1])
        body = lines[i:k + 1]
        names = []
        pm = re.search(r'fn \w+(?:<[^(]*>)?\((.*)\)', sig)
        if pm:
            for part in re.split(r',(?![^<(\[]*[>)\]])', pm.group(1)):
                mm = re.match(r'\s*(?:mut )?([a-z_][a-z0-9_]*)\s*:', part)
                if mm and mm.group(1) not in ('self', '_'):
                    names.append(('param', mm.group(1)))
        for x in body:
            mm = re.match(r'^\s*let (?:mut )?([a-z_][a-z0-9_]*)\b\s*(?::|=)', x)
            if mm and mm.group(1) != '_' and ('local', mm.group(1)) not in names and ('param', mm.group(1)) not in names:
                names.append(('local', mm.group(1)))
        for kind, nm in names:
            new = [re.sub(r'(?<![\w.])%s(?![\w(!])' % re.escape(nm), nm + '_r', x) if not x.strip().startswith('//') else x for x in body]
            # do not touch field accesses (`.name`), struct-literal shorthand is left to the compiler to reject
            if new != body:
                out.append(((i, k), new, 'rename-%s:%s' % (kind, nm)))
        i = k + 1
    return out


def run(args):
    slot, mu = args
    d = tempfile.mkdtemp(prefix='kvequiv-')
    try:
        for item in ('crates', 'Cargo.toml', 'Cargo.lock'):
            s = os.path.join('/repo', item)
            t = os.path.join(d, item)
            if os.path.isdir(s):
                shutil.copytree(s, t, ignore=shutil.ignore_patterns('target'))
            else:
                shutil.copy(s, t)
        f = os.path.join(d, SRC, mu['file'])
        lines = open(f).read().split('\n')
        if 'block' in mu:
            lines[mu['line']:mu['end'] + 1] = mu['block']
        else:
            lines[mu['line']] = mu['new']
        open(f, 'w').write('\n'.join(lines))
        env = dict(os.environ, KV_REPO=d, KV_EVIDENCE=os.path.join(d, 'ev'), KV_NO_SELFTEST='1', KV_KEEP_FACTS='1',
                   KV_TARGET=os.path.join(VERIF, '.cache', 'target-scratch-%d' % slot))
        alarms = {}
        for p in PROPS:
            x = subprocess.run([os.path.join(VERIF, 'kv'), 'check', p], env=env, stdout=subprocess.PIPE, stderr=subprocess.STDOUT, text=True)
            if x.returncode == 2 and 'building facts failed' in x.stdout:
                return dict(mu, status='no-compile')
            if x.returncode == 1:
                alarms[p] = [l.split('key=')[1].strip() for l in x.stdout.splitlines() if l.strip().startswith('rule=')][:3]
            elif x.returncode != 0:
                alarms[p] = ['CRASH ' + x.stdout[-200:]]
        return dict(mu, status='ALARM' if alarms else 'silent', alarms=alarms)
    finally:
        shutil.rmtree(d, ignore_errors=True)


def main():
    a = sys.argv[1:]
    def opt(n, dflt=None):
        return a[a.index(n) + 1] if n in a else dflt
    mx = int(opt('--max', '100000'))
    nw = int(opt('--workers', '8'))
    out = opt('--out', '/tmp/equiv.jsonl')
    random.seed(1)
    mode = opt('--mode', 'commute')
    only = opt('--only').split(',') if opt('--only') else None
    mus = []
    for f in sorted(glob.glob('/repo/%s/**/*.rs' % SRC, recursive=True)):
        fn = f[len('/repo/%s/' % SRC):]
        if fn.endswith('test.rs') or '/test' in fn or fn in ('test_helpers.rs', 'lib.rs') or 'wasm' in fn:
            continue
        text = open(f).read()
        if mode == 'syntax':
            for (i, k), new, op in syntax_candidates(text):
                mus.append({'file': fn, 'line': i, 'end': k, 'block': new, 'old': text.split('\n')[i], 'new': op, 'op': op})
            continue
        if mode == 'rename':
            if only and not any(fn.startswith(o) for o in only):
                continue
            for (i, k), new, op in rename_candidates(text):
                mus.append({'file': fn, 'line': i, 'end': k, 'block': new, 'old': text.split('\n')[i], 'new': op, 'op': op})
            continue
        for i, new, op in candidates(text):
            mus.append({'file': fn, 'line': i, 'old': text.split('\n')[i], 'new': new, 'op': op})
    if opt('--replay'):
        want = set((r['file'], r['line'], r['op']) for r in map(json.loads, open(opt('--replay'))) if r.get('status') == 'ALARM')
        mus = [m for m in mus if (m['file'], m['line'], m['op']) in want]
    random.shuffle(mus)
    mus = mus[:mx]
    print('%d equivalent edits' % len(mus), flush=True)
    import queue
    q = queue.Queue()
    for i in range(nw):
        q.put(i)

    def work(mu):
        s = q.get()
        try:
            return run((s, mu))
        finally:
            q.put(s)
    stats = {}
    with open(out, 'a') as fo, concurrent.futures.ThreadPoolExecutor(max_workers=nw) as ex:
        for r in ex.map(work, mus):
            stats[r['status']] = stats.get(r['status'], 0) + 1
            fo.write(json.dumps(r) + '\n')
            fo.flush()
            if r['status'] == 'ALARM':
                print('ALARM %s:%d [%s] %s  ->  %s   %s' % (r['file'], r['line'] + 1, r['op'], r['old'].strip()[:60], str(r['new']).strip()[:60], json.dumps(r['alarms'])[:300]), flush=True)
    print(stats)


if __name__ == '__main__':
    main()
