"""C08 thorough: may-panic analysis of the resource-creation paths ("creation fails with the documented limit
error without panicking").  The generic creation API is instantiated by /verif/harness; the driver walks from
its functions; obligations inside the accounting core (ResourceController) must be discharged."""
import fcntl
import os
import shutil
import subprocess
import time
from .core import VERIF, REPO, CACHE, DRIVER, ensure_driver, sysroot, tree_hash
from .facts import Facts
from .rt import RtAnalysis
from .enginea import load_table, run_check

HDIR = os.path.join(VERIF, 'harness')
ALLOC_FAILURE = ('std::alloc::handle_alloc_error', 'alloc::raw_vec::handle_error', 'alloc::raw_vec::capacity_overflow',
                 'hashbrown::raw::Fallibility::', 'std::intrinsics::abort')


def build_creation_facts():
    ensure_driver()
    repo = os.environ.get('KV_REPO', REPO)
    work = HDIR
    if repo != '/repo':
        work = os.path.join(repo, '_harness')
        shutil.rmtree(work, ignore_errors=True)
        shutil.copytree(HDIR, work, ignore=shutil.ignore_patterns('target'))
        ct = open(os.path.join(work, 'Cargo.toml')).read().replace('/repo/crates/kira', os.path.join(repo, 'crates', 'kira'))
        open(os.path.join(work, 'Cargo.toml'), 'w').write(ct)
    shutil.copy(os.path.join(repo, 'Cargo.lock'), os.path.join(work, 'Cargo.lock'))
    th = tree_hash('creation', repo)
    facts = os.path.join(CACHE, 'facts-creation-%s.json' % th)
    if os.path.realpath(repo) != '/repo':
        facts = os.path.join(repo, '.kvfacts-creation-%s.json' % th)
    lock = open(os.path.join(CACHE, 'lock-creation'), 'w')
    fcntl.flock(lock, fcntl.LOCK_EX)
    try:
        if os.path.exists(facts):
            return facts
        tdir = os.environ.get('KV_TARGET', os.path.join(CACHE, 'target')) + '-harness'
        fp = os.path.join(tdir, 'debug', '.fingerprint')
        if os.path.isdir(fp):
            for d in os.listdir(fp):
                if d.startswith('kira-harness-'):
                    subprocess.run(['rm', '-rf', os.path.join(fp, d)])
        nonce = 'creation-%s-%d' % (th, os.getpid())
        env = dict(os.environ)
        env.update({
            'LD_LIBRARY_PATH': sysroot() + '/lib',
            'RUSTFLAGS': '-Zmir-opt-level=0 -Awarnings -Zalways-encode-mir -Cdebug-assertions=off -Coverflow-checks=off',
            'RUSTC_WORKSPACE_WRAPPER': DRIVER, 'KIRA_FACTS_CRATE': 'kira_harness', 'KIRA_FACTS_OUT': facts + '.new',
            'KIRA_ROOTS': os.path.join(VERIF, 'tables', 'roots_creation.txt'), 'KIRA_NONCE': nonce,
            'CARGO_TARGET_DIR': tdir, 'CARGO_NET_OFFLINE': 'true',
        })
        r = subprocess.run(['cargo', '+nightly', 'check', '--offline'], cwd=work, env=env, stdout=subprocess.PIPE,
                           stderr=subprocess.STDOUT, text=True)
        if r.returncode != 0 or not os.path.exists(facts + '.new'):
            raise SystemExit('kv: building creation facts failed:\n' + r.stdout[-3000:])
        if nonce not in open(facts + '.new').read(300):
            raise SystemExit('kv: stale creation facts')
        os.rename(facts + '.new', facts)
        return facts
    finally:
        fcntl.flock(lock, fcntl.LOCK_UN)
        lock.close()


def chk_zero_capacity_guard(F):
    """ResourceController::try_reserve returns the limit error for an arena without slots before asking atomic_arena."""
    from .paths import describe
    from .facts import callee_path
    b = None
    for x in F.bodies:
        if x.path == 'backend::resources::ResourceController::<T>::try_reserve':
            b = x
    if b is None:
        return False, 'try_reserve not found'
    cs = [bb for bb, t in b.calls() if (callee_path(t) or '').endswith('atomic_arena::Controller::try_reserve')
          or (callee_path(t) or '').endswith('atomic_arena::controller::Controller::try_reserve')]
    if len(cs) != 1:
        return False, 'call of atomic_arena try_reserve not found'
    for g in range(b.n):
        t = b.blocks[g]['term']
        if t['k'] == 'switch' and b.dominates(g, cs[0]) and g != cs[0]:
            d = describe(b, t['op'], depth=4, at=g)
            from .paths import parse_term
            nm, ar = parse_term(d)
            if nm in ('Eq', 'Ne', 'Gt', 'Lt', 'Le', 'Ge') and ar and len(ar) == 2 and any('capacity(' in a for a in ar) \
                    and any(a.replace('const ', '').replace('_usize', '').replace('_u16', '') in ('0', '1') for a in ar):
                return True, d
    return False, 'no capacity() == 0 test dominates the reservation: with capacity 0 atomic_arena indexes an empty slot list (panic instead of the limit error)'


def chk_mutex_never_locked(F):
    """The controller's mutexes are only reached through get_mut (exclusive borrow): nothing locks them, so nothing can poison them."""
    from .facts import callee_path
    for b in F.bodies:
        if 'kira' not in b.krate:
            continue
        for bb, t in b.calls():
            cp = callee_path(t) or ''
            if cp.endswith(('std::sync::Mutex::<T>::lock', 'std::sync::Mutex::<T>::try_lock')) and 'resources' in b.path:
                return False, '%s locks a mutex' % b.path
    return True, 'only Mutex::get_mut is used'


def run_creation(ctx, R):
    from . import enginea
    enginea.CHECKS.setdefault('zero_capacity_guard', chk_zero_capacity_guard)
    enginea.CHECKS.setdefault('mutex_never_locked', chk_mutex_never_locked)
    t0 = time.time()
    ren, moved = {}, {}
    try:
        ren = dict(ctx.facts('default').renamed_fns)
        moved = dict(ctx.facts('default').moved_adts)
    except Exception:
        ren, moved = {}, {}
    F = Facts(build_creation_facts(), fn_renames=ren, moved_adts=moved)
    sinks, sites, _ = load_table()
    A = RtAnalysis(F, ['create'])
    R.floor('A.creation.roots', len(A.roots), 13)
    R.floor('A.creation.reach', len(A.rt), 800)
    cache = {}
    n = 0
    for o in A.obligations():
        if o['effect'] not in ('panic',):
            continue
        if not o['fn'].startswith('backend::resources::ResourceController'):
            continue
        n += 1
        key = '%s|%s' % (o['fn'], o['boundary'])
        left = [s for s in o['sinks'] if (o['effect'], s) not in sinks and not any(a in s for a in ALLOC_FAILURE)]
        ent = sites.get('creation:' + o['key'])
        where = o['sites'][0] if o['sites'] else None
        if not left:
            R.ok('A.creation.panic', key, detail={'sinks': o['sinks'][:3], 'discharged_by': 'sink table / allocation-failure class'}, where=where)
            continue
        if ent is not None and o['count'] <= ent['count']:
            if ent.get('check'):
                good, msg = run_check(F, ent['check'], cache)
                if not good:
                    R.bad('A.creation.panic', key, 'a resource-creation path can panic instead of returning the limit error: %s -> %s; '
                          'structural precondition `%s` does not hold: %s' % (o['fn'], o['boundary'], ent['check'], msg), where=where, chain=o['chain'])
                    continue
            R.ok('A.creation.panic', key, detail={'sinks': left[:3], 'reason': ent['reason']}, where=where)
            continue
        R.bad('A.creation.panic', key, 'a resource-creation path can panic instead of returning the limit error: %s -> %s reaches %s'
              % (o['fn'], o['boundary'], left[:3]), where=where, chain=o['chain'])
    R.floor('A.creation.panic', n, 4)
    R.extra['creation'] = {'roots': len(A.roots), 'instances': len(A.rt), 'obligations_in_accounting_core': n, 'wall_s': round(time.time() - t0, 1)}
