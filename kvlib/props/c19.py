"""C19 — unit conversions and clock-time arithmetic (branch structure only)."""
from ..paths import explore, describe, describe_rv, pretty_place, bool_label
from ..rules import calls_to, calls_where, blocks_of, order_ok
from ..facts import callee_path
from . import c17

TEXT = ("Decibels::as_amplitude returns literal 1.0 on == 0.0 and literal 0.0 on <= SILENCE, both before powf; Frame::panned returns self untouched at Panning::CENTER and clamps otherwise; no Sub/SubAssign impl of ClockTime subtracts tick counts with a raw unsigned `-` (saturating_sub instead); ClockTime::partial_cmp yields None across clocks and compares ticks before fraction; every fraction stored by ClockTime Add/Sub arithmetic lies in [0, 1) by a rounding-aware interval evaluation; a mapping clamps before easing. Monotonicity, agreement with 10^(dB/20), round trips and easing shapes are exhaustive-value statements and are not decided. The compound-assignment operators of ClockTime use their operand. Tick counts are subtracted with saturating_sub; every known fraction of a constructed ClockTime lies in [0, 1). Outside the two special cases as_amplitude returns 10^(dB/20) itself. Semitones convert as 2^(semitones/12); compound assignments apply their operand once; clock-speed tweens interpolate in the target's unit. Each ClockSpeed::as_* accessor has one outcome per variant, the plain unit conversion. The fraction a clock handle reads is published at full width (f64 bits). ClockTime + f64 hands a negative amount to the subtraction before anything else. A clock publishes nothing while it advances; ticks and fraction are published together by update_shared; the clock handle writes the speed it was given, as it is. Volumes and pannings are converted per frame from the interpolated parameter value: nothing outside Parameter and the listener info reads previous_value() to blend converted chunk-end values. A clock starts from the speed it was configured with, in its own unit; ClockTime::from_ticks_f64 is the whole and fractional part of max(t, 0).")
TECHNIQUE = 'MIR path-predicate / table rules + interval abstract interpretation of stored values'


def run(ctx, R, tier):
    F = ctx.facts('default')
    db(F, R)
    pan(F, R)
    sub(F, R)
    cmp_(F, R)
    frac(F, R)
    assign_ops(F, R)
    c17.mapping(F, R)
    speed_units(F, R)
    speed_conversions(F, R)
    add_negative_first(F, R)
    # 'the three clock-speed units convert consistently': a speed is not adjusted unit by unit on its way to the clock
    from .c07 import payload_verbatim
    payload_verbatim(F, R, rule='B.C19.payload', fn_filter=lambda q: q.startswith('clock::'), floor=3)
    pair_published(F, R)
    no_chunk_end_blend(F, R)
    # 'the three clock-speed units convert consistently': a clock starts from the speed it was configured with, in its own unit
    from .c06 import config_verbatim
    config_verbatim(F, R, rule='B.C19.config', fn_filter=lambda q: q.startswith('clock::'), floor=2)
    from_ticks(F, R)
    # 'clock-time arithmetic keeps the fraction in [0, 1)': so does the fraction a handle reads (published at full width)
    from .c05 import published_width
    published_width(F, R, rule='B.C19.published', fn_filter=lambda q: q.startswith('clock::'), floor=4)
    semitones(F, R)
    # the easings are built from powers: their domain conditions are obligations (A.singular)
    from ..enginea import run_singular_only
    run_singular_only(R, F, lambda fn: fn.startswith('tween::'), floor=2)


def db(F, R):
    b = F.body('decibels::Decibels::as_amplitude')
    if not R.check(b is not None, 'B.C19.db', 'anchor', 'as_amplitude not found'):
        return
    prs = [p for p in explore(b) if p.end == 'return']
    rets = {}
    for p in prs:
        key = []
        for bb, desc, lab in p.decisions:
            key.append((desc, bool_label(lab)))
        rets[tuple(key)] = (str(p.ret), [c for _, c in p.calls])
    ok = True
    why = ''
    seen = set()
    for key, (ret, calls) in rets.items():
        from ..paths import expand_consts
        zero_test = [v for d, v in key if '::eq(' in d and 'Decibels(const 0f32)' in expand_consts(d)]
        sil_test = [v for d, v in key if 'PartialOrd' in d and '::le(' in d and 'Decibels(const -60f32)' in expand_consts(d)]
        if zero_test and zero_test[0] is True:
            seen.add('unity')
            if ret != '1.0' or any('powf' in c for c in calls):
                ok = False
                why = '0 dB yields %s (must be the literal 1.0, without powf)' % ret
        elif sil_test and sil_test[0] is True:
            seen.add('silence')
            if ret != '0.0' or any('powf' in c for c in calls):
                ok = False
                why = '<= SILENCE yields %s (must be the literal 0.0)' % ret
        else:
            seen.add('powf')
            if not any('powf' in c for c in calls) or not zero_test or not sil_test:
                ok = False
                why = 'the general branch does not come after both special-case tests'
            elif ret.replace('(*self)', 'self') not in ('std::f32::<impl f32>::powf(10.0, Div(self.0, 20.0))',
                                                        'std::f32::<impl f32>::powf(10.0, Mul(0.05, self.0))'):
                # "otherwise agrees with 10^(dB/20)": the general branch IS that power, not that power shaped further
                ok = False
                why = 'the general branch returns %s, not 10^(dB/20)' % ret[:120]
    if seen != {'unity', 'silence', 'powf'}:
        ok = False
        why = why or 'branches found: %s' % sorted(seen)
    R.check(ok, 'B.C19.db', 'as_amplitude', why, detail={'branches': sorted(seen)}, where=b.file)


def pan(F, R):
    b = F.body('frame::Frame::panned')
    if not R.check(b is not None, 'B.C19.pan', 'anchor', 'Frame::panned not found'):
        return
    ok = True
    why = ''
    seen = set()
    for p in explore(b):
        if p.end != 'return':
            continue
        center = None
        for bb, desc, lab in p.decisions:
            if '::eq(' in desc and 'Panning::CENTER' in desc:
                center = bool_label(lab)
        calls = [c for _, c in p.calls]
        if center is True:
            seen.add('center')
            if str(p.ret) != 'self' or any('sqrt' in c for c in calls):
                ok = False
                why = 'centre panning returns %s, not self untouched' % p.ret
        elif center is False:
            seen.add('other')
            cl = [c for c in calls if c.endswith('f32>::clamp')]
            if not cl:
                ok = False
                why = 'panning is not clamped to [-1, 1]'
        else:
            ok = False
            why = 'a path does not test for Panning::CENTER'
    cl = calls_to(b, 'core::f32::<impl f32>::clamp', suffix=False)
    if cl:
        d = [describe(b, a) for a in cl[0][1]['args'][1:]]
        if d != ['-1.0', '1.0']:
            ok = False
            why = 'panning clamped to %s' % d
    R.check(ok and seen == {'center', 'other'}, 'B.C19.pan', 'panned', why or 'branches: %s' % sorted(seen), detail={'branches': sorted(seen)}, where=b.file)


def sub(F, R):
    n = 0
    for im in F.impls:
        if im['self_ty'] != 'clock::time::ClockTime' or im['trait'] not in ('std::ops::Sub', 'std::ops::SubAssign'):
            continue
        for it in im['items']:
            b = F.body(it['path'])
            if b is None:
                continue
            n += 1
            raw = []
            for bb, si, s in b.stmts():
                if s['k'] == 'assign' and s['rv']['k'] == 'bin' and s['rv']['op'].startswith('Sub'):
                    a = s['rv']['a']
                    ty = (a.get('pl') or a).get('ty')
                    if ty == 'u64':
                        raw.append(describe_rv(b, s['rv'], at=bb))
            # ... and the tick count it stores comes out of saturating_sub (or out of the sibling operator)
            tick_vals = []
            for bb, si, s in b.stmts():
                if s['k'] == 'assign' and s['rv']['k'] == 'agg' and s['rv'].get('adt') == 'clock::time::ClockTime':
                    tick_vals.append(describe(b, s['rv']['ops'][s['rv']['fields'].index('ticks')], depth=6, at=bb))
                elif s['k'] == 'assign' and s['lhs']['p'] and pretty_place(b, s['lhs']) == '(*self).ticks':
                    tick_vals.append(describe_rv(b, s['rv'], depth=6, at=bb))
            unsat = [d for d in tick_vals if 'saturating_sub(' not in d]
            if unsat and not raw:
                raw = ['ticks = ' + unsat[0][:80]]
            R.check(not raw, 'B.C19.sub', it['path'],
                    '%s subtracts tick counts with a raw unsigned `-` (%s): ClockTime{ticks: 1} - 2 overflows (panic in debug, wraps to '
                    '2^64-1 in release) while the f64 sibling saturates' % (it['path'], raw), detail={'impl': im['trait_ref']}, where=b.file)
    R.floor('B.C19.sub', n, 4)


def assign_ops(F, R):
    """The compound-assignment operators of ClockTime do something with their operand: each AddAssign / SubAssign impl
    stores into `*self` (or its tick count) a value that depends on the right-hand side (through the sibling binary operator
    or directly).  An impl that drops the operand makes `t += n` a no-op while `t + n` works."""
    n = 0
    for im in F.impls:
        if im['self_ty'] != 'clock::time::ClockTime' or im['trait'] not in ('std::ops::AddAssign', 'std::ops::SubAssign'):
            continue
        for it in im['items']:
            b = F.body(it['path'])
            if b is None:
                continue
            n += 1
            rhs = b.names.get(2, '_2')
            dep = []
            for bb, si, s in b.stmts():
                if s['k'] == 'assign' and s['lhs']['p'] and pretty_place(b, s['lhs']).startswith('(*self)'):
                    d = describe_rv(b, s['rv'], depth=6, at=bb)
                    if rhs in d or '_2' in d:
                        dep.append(d[:80])
            # ... and once: the update is not applied a second time on the same path (`t -= n` subtracting 2n)
            sts = [(bb, si, pretty_place(b, s['lhs'])) for bb, si, s in b.stmts()
                   if s['k'] == 'assign' and s['lhs']['p'] and pretty_place(b, s['lhs']).startswith('(*self)')
                   and (rhs in describe_rv(b, s['rv'], depth=6, at=bb) or '_2' in describe_rv(b, s['rv'], depth=6, at=bb))]
            twice = any(p1 == p2 and (b1, i1) != (b2, i2) and (b2 in b.reach_after(b1) or (b1 == b2 and i1 < i2))
                        for b1, i1, p1 in sts for b2, i2, p2 in sts)
            R.check(not twice, 'B.C19.assign', it['path'] + ':once', '%s applies its right-hand side to *self twice on one path' % it['path'],
                    detail={'stores': len(sts)}, where=b.file)
            R.check(bool(dep) , 'B.C19.assign', it['path'],
                    '%s does not store anything that depends on its right-hand side into *self' % it['path'],
                    detail={'stores': dep[:2]}, where=b.file)
    R.floor('B.C19.assign', n, 4)


def frac(F, R):
    """Clock-time arithmetic keeps the fraction in [0, 1): every value an Add/Sub/AddAssign/SubAssign impl of ClockTime
    stores into `fraction` evaluates, in the interval domain of kvlib.intervals (rounding-aware), on every path, to a
    subset of [0, 1) -- assuming the operands' fractions are in [0, 1) (inductive) and the amount is finite."""
    from ..intervals import evaluate, path_env, Iv
    unit = Iv(0.0, 1.0, False, True)
    inv = {'.fraction': unit}
    n = 0
    for im in F.impls:
        if im['self_ty'] != 'clock::time::ClockTime' or im['trait'] not in ('std::ops::Sub', 'std::ops::SubAssign', 'std::ops::Add', 'std::ops::AddAssign'):
            continue
        for it in im['items']:
            b = F.body(it['path'])
            if b is None:
                continue
            stores = []
            for bb, si, s in b.stmts():
                if s['k'] != 'assign':
                    continue
                if s['rv']['k'] == 'agg' and s['rv'].get('adt') == 'clock::time::ClockTime':
                    i = s['rv']['fields'].index('fraction')
                    stores.append((bb, describe(b, s['rv']['ops'][i], depth=10, at=bb)))
                elif s['lhs']['p'] and s['lhs']['p'][-1][0] == 'field' and s['lhs']['p'][-1][2] == 'fraction' \
                        and s['lhs']['p'][-1][3] == 'clock::time::ClockTime':
                    stores.append((bb, describe_rv(b, s['rv'], depth=10, at=bb)))
            if not stores:
                continue
            paths = [p for p in explore(b) if p.end == 'return']
            for bb, d in stores:
                n += 1
                worst = None
                for p in paths:
                    if bb not in p.blocks:
                        continue
                    iv = evaluate(d, path_env(p.decisions), inv)
                    if not iv.within(unit):
                        worst = iv
                R.check(worst is None, 'B.C19.frac', '%s#%d' % (it['path'], n),
                        '%s stores %s into ClockTime.fraction, whose value range is %s: not within [0, 1) (fraction == 1.0 or < 0 '
                        'breaks the ordering against ticks + fraction)' % (it['path'], d[:140], worst),
                        detail={'value': d[:160], 'range': '[0, 1)'}, where=b.where(bb))
    R.floor('B.C19.frac', n, 4)
    # every other construction of a ClockTime in the crate: a fraction that is a known value lies within [0, 1) as well
    # (values read back from the shared atomics or copied from another time evaluate to "unknown" and are not judged)
    for b in F.bodies:
        if b.krate != 'kira' or b.path.startswith('<clock::time::ClockTime as std::ops::'):
            continue
        for bb, si, s in b.stmts():
            if s['k'] == 'assign' and s['rv']['k'] == 'agg' and s['rv'].get('adt') == 'clock::time::ClockTime':
                d = describe(b, s['rv']['ops'][s['rv']['fields'].index('fraction')], depth=6, at=bb)
                iv = evaluate(d, {}, inv)
                known = iv.lo != float('-inf') and iv.hi != float('inf')
                if known:
                    R.check(iv.within(unit), 'B.C19.frac', 'ctor:%s' % b.path,
                            '%s builds a ClockTime whose fraction is %s (%s): not within [0, 1)' % (b.path, d[:60], iv),
                            detail={'value': d[:80]}, where=b.where(bb))


def cmp_(F, R):
    b = F.body('<clock::time::ClockTime as std::cmp::PartialOrd>::partial_cmp')
    if not R.check(b is not None, 'B.C19.cmp', 'anchor', 'partial_cmp not found'):
        return
    # `<`, `<=`, `>`, `>=` are the provided methods derived from partial_cmp: an override of one of them is a second ordering
    # that can disagree with it (`Info::when_to_start` compares with `>=`)
    over = []
    for im in F.impls:
        if im['self_ty'] == 'clock::time::ClockTime' and im['trait'] in ('std::cmp::PartialOrd', 'std::cmp::PartialEq', 'std::cmp::Ord'):
            over += [it['path'].split('::')[-1] for it in im['items'] if it['path'].split('::')[-1] in ('lt', 'le', 'gt', 'ge', 'ne', 'max', 'min', 'clamp')]
    R.check(not over, 'B.C19.cmp', 'no-override', 'ClockTime overrides %s: a comparison operator with an ordering of its own' % over,
            detail='only partial_cmp (and eq) are implemented')
    ok = True
    why = ''
    seen = set()
    for p in explore(b):
        if p.end != 'return':
            continue
        ne = None
        eqb = None
        for bb, desc, lab in p.decisions:
            if '::ne(' in desc and '.clock' in desc:
                ne = bool_label(lab)
            elif '::eq(' in desc and '.clock' in desc and bool_label(lab) is not None:
                ne = not bool_label(lab)
            if desc.startswith('discr(') and lab in ('Equal', 'Less', 'Greater', 'otherwise'):
                eqb = lab
            if ('::ne(' in desc or '::eq(' in desc) and '.ticks' in desc and 'Equal' in desc and bool_label(lab) is not None:
                # `if ticks_ordering != Ordering::Equal { return Some(ticks_ordering) }`
                is_eq = bool_label(lab) if '::eq(' in desc else not bool_label(lab)
                eqb = 'Equal' if is_eq else 'otherwise'
            if ('Ordering::is_eq(' in desc or 'Ordering::is_ne(' in desc) and bool_label(lab) is not None:
                # `if ticks_ordering.is_eq() { return self.fraction.partial_cmp(..) }`
                is_eq = bool_label(lab) if 'is_eq(' in desc else not bool_label(lab)
                eqb = 'Equal' if is_eq else 'otherwise'
        ret = str(p.ret)
        if ne is True:
            seen.add('different-clock')
            if 'None' not in ret:
                ok = False
                why = 'different clocks compare as %s' % ret
        elif ne is False:
            if eqb == 'Equal':
                seen.add('equal-ticks')
                if 'partial_cmp' not in ret or 'fraction' not in ret:
                    ok = False
                    why = 'equal ticks do not fall back to the fraction (%s)' % ret
            else:
                seen.add('ticks')
                if 'Some' not in ret:
                    ok = False
                    why = 'tick ordering is not returned directly (%s)' % ret
        else:
            ok = False
            why = 'a path does not compare the clocks'
    R.check(ok and seen == {'different-clock', 'equal-ticks', 'ticks'}, 'B.C19.cmp', 'partial_cmp', why or 'branches %s' % sorted(seen),
            detail={'branches': sorted(seen)}, where=b.file)


def from_ticks(F, R, rule='B.C19.frac'):
    """`ClockTime::from_ticks_f64` clamps first and splits afterwards: ticks and fraction are the whole and the fractional part
    of `max(ticks, 0.0)` - one number.  (Routing a negative amount through the subtraction operator saturates the ticks and
    keeps a fraction: a time before the clock's start becomes a time inside its first tick.)"""
    b = F.body('clock::time::ClockTime::from_ticks_f64')
    if not R.check(b is not None, rule, 'anchor:from_ticks_f64', 'ClockTime::from_ticks_f64 not found'):
        return
    rets = [str(p.ret) for p in explore(b) if p.end == 'return']
    m = 'core::f64::<impl f64>::max(ticks, 0.0)'
    ok = len(rets) == 1 and rets[0] == 'clock::time::ClockTime::ClockTime(std::convert::Into::into(clock), %s, std::f64::<impl f64>::fract(%s))' % (m, m)
    R.check(ok, rule, 'from_ticks_f64', 'ClockTime::from_ticks_f64 returns %s, not {ticks: max(t, 0) as u64, fraction: fract(max(t, 0))}' % [r[:160] for r in rets],
            detail={'returns': rets[:1]})


def no_chunk_end_blend(F, R, rule='B.C19.db'):
    """'Agrees with 10^(dB/20)', 'panning keeps the total power': inside a chunk a volume or panning is converted per frame from
    the interpolated *parameter* value (`interpolated_value(t).as_amplitude()`, `frame.panned(interpolated_value(t))`).  Nothing
    in the mixing code or the effects takes the two chunk-end values (`previous_value()`, `value()`), converts them and blends
    the results: a straight line between two amplitudes / gain pairs is not the amplitude / gain pair of the value in between.
    (The listener's pose is blended from its chunk ends by design - positions are linear.)"""
    pv = sorted(set(b.path for b in F.bodies if b.krate == 'kira' and not b.path.startswith(('parameter::', 'info::'))
                    for _, t in b.calls() if (callee_path(t) or '') == 'parameter::Parameter::<T>::previous_value'))
    R.check(not pv, rule, 'per-frame-conversion', '%s reads Parameter::previous_value(): it blends converted chunk-end values itself instead of converting '
            'the interpolated value of each frame' % pv, detail='previous_value() is read by Parameter and the listener info only')
    users = [b.path for b in F.bodies if b.krate == 'kira' for _, t in b.calls() if (callee_path(t) or '') == 'parameter::Parameter::<T>::previous_value']
    R.floor(rule + '.prev-users', len(users), 2)


def pair_published(F, R, rule='B.C19.published'):
    """'Ordering agrees with ticks + fraction' for what a handle reads: the tick count and the fraction are two atomics that
    make one time, published together once per callback (`update_shared`, at the end of `on_start_processing`).  Nothing is
    published while the clock is being advanced (`Clock::update`, between two callbacks): a tick count published there, with
    the fraction following at the next callback, pairs the new count with the old fraction - the reported time jumps ahead
    and then goes backwards."""
    v = F.inlined_view('clock::Clock::update', depth=2, pred=lambda hp: hp.startswith('clock::')) or F.body('clock::Clock::update')
    if not R.check(v is not None, rule, 'anchor:update', 'Clock::update not found'):
        return
    pub = []
    for bb, t in v.calls():
        cp = callee_path(t) or ''
        if cp.startswith('std::sync::atomic::Atomic') and cp.split('::')[-1] in ('store', 'swap', 'fetch_add', 'fetch_sub', 'fetch_max', 'compare_exchange'):
            d = describe(v, t['args'][0], depth=5, at=bb)
            if d.rstrip(')').endswith(('.ticks', '.fractional_position')):
                pub.append(d[-40:])
    R.check(not pub, rule, 'not-while-advancing', 'Clock::update publishes %s between two callbacks: half of the clock time, ahead of the other half' % pub[:2],
            detail='ClockShared is written by update_shared (on_start_processing) and by the handle\'s stop only', where=v.file)
    us = F.body('clock::Clock::update_shared')
    if R.check(us is not None, rule, 'anchor:update_shared', 'Clock::update_shared not found'):
        st = {'ticks': 0, 'fractional_position': 0}
        for bb, t in us.calls():
            cp = callee_path(t) or ''
            if cp.startswith('std::sync::atomic::Atomic') and cp.split('::')[-1] == 'store':
                d = describe(us, t['args'][0], depth=5, at=bb)
                for f in st:
                    if d.rstrip(')').endswith('.' + f):
                        st[f] += 1
        R.check(st == {'ticks': 1, 'fractional_position': 1}, rule, 'pair', 'update_shared publishes %s' % st, detail=st, where=us.file)


def add_negative_first(F, R, rule='B.C19.add'):
    """'Adding and then subtracting an amount returns the original time': `ClockTime + f64` hands a negative amount to the
    subtraction before it does anything else with it - the sign test lies on every path to a return (the unsigned
    arithmetic below it, `as u64` included, is only right for amounts that are not negative)."""
    n = 0
    for b in F.bodies:
        if b.krate != 'kira' or b.path != '<clock::time::ClockTime as std::ops::Add<f64>>::add':
            continue
        n += 1
        sg = [x for x, t in b.calls() if (callee_path(t) or '').endswith('::is_sign_negative') or (callee_path(t) or '').endswith('f64>::is_sign_positive')]
        lt = [x for x, _, s in b.stmts() if s['k'] == 'assign' and s['rv']['k'] == 'bin' and s['rv']['op'] in ('Lt', 'Le', 'Gt', 'Ge')
              and 'ticks' in (describe(b, s['rv']['a'], at=x) + describe(b, s['rv']['b'], at=x)) and '0.0' in (describe(b, s['rv']['a'], at=x) + describe(b, s['rv']['b'], at=x))]
        tests = sg + lt
        ok = bool(tests) and all(any(b.dominates(tst, r) for tst in tests) for r in b.return_blocks())
        sub = [x for x, t in b.calls() if 'std::ops::Sub<f64>' in (callee_path(t) or '')]
        R.check(ok and bool(sub), rule, 'negative-first', 'ClockTime + f64 can return without having tested the sign of the amount (or never hands a negative amount to the subtraction)',
                detail='if ticks.is_sign_negative() { return self.sub(-ticks) } before anything else', where=b.file)
    R.floor(rule, n, 1)


def speed_conversions(F, R, rule='B.C19.speed-conv'):
    """"The three clock-speed units convert consistently": each of the three `as_*` accessors of ClockSpeed has exactly one
    outcome per variant, and it is the unit conversion itself - the payload, its reciprocal, or the payload times / divided
    by 60 - with no special case for particular values (a zero that converts to 0 seconds per tick would be an infinitely
    fast clock in one unit and a stopped one in the others)."""
    import re
    P_ = {'SecondsPerTick': 's', 'TicksPerSecond': 'tps', 'TicksPerMinute': 'tpm'}
    WANT = {('as_seconds_per_tick', 's'): 'X', ('as_seconds_per_tick', 'tps'): 'Div(1.0, X)', ('as_seconds_per_tick', 'tpm'): 'Div(60.0, X)',
            ('as_ticks_per_second', 's'): 'Div(1.0, X)', ('as_ticks_per_second', 'tps'): 'X', ('as_ticks_per_second', 'tpm'): 'Div(X, 60.0)',
            ('as_ticks_per_minute', 's'): 'Div(60.0, X)', ('as_ticks_per_minute', 'tps'): 'Mul(X, 60.0)', ('as_ticks_per_minute', 'tpm'): 'X'}
    n = 0
    for fn in ('as_seconds_per_tick', 'as_ticks_per_second', 'as_ticks_per_minute'):
        b = F.body('clock::clock_speed::ClockSpeed::' + fn)
        if not R.check(b is not None, rule, 'anchor:' + fn, 'ClockSpeed::%s not found' % fn):
            continue
        got = {}
        for p in explore(b):
            if p.end != 'return':
                continue
            var = [l for _, d, l in p.decisions if d.startswith('discr(') and l in P_]
            others = [d for _, d, l in p.decisions if not (d.startswith('discr(') and l in P_)]
            r = re.sub(r'\((?:\(\*+self\)|\*+self|self) as \w+\)\.0', 'X', str(p.ret))
            r = r.replace('Mul(60.0, X)', 'Mul(X, 60.0)')
            got.setdefault(P_[var[0]] if len(var) == 1 else '?', []).append((r, others))
        for v in ('s', 'tps', 'tpm'):
            n += 1
            g = got.get(v, [])
            ok = len(g) == 1 and g[0][0] == WANT[(fn, v)] and not g[0][1]
            R.check(ok, rule, '%s|%s' % (fn, v), 'ClockSpeed::%s of a %s speed is %s (expected the plain conversion %s, one outcome, no special cases)'
                    % (fn, v, [(r, o[:1]) for r, o in g][:3], WANT[(fn, v)]), detail={'conversion': WANT[(fn, v)]}, where=b.file)
        R.check('?' not in got, rule, fn + '|unmatched', 'ClockSpeed::%s has an outcome that does not belong to one variant' % fn, nontrivial=False)
    R.floor(rule, n, 9)


def speed_units(F, R, rule='B.C19.speed-units'):
    """"The three clock-speed units convert consistently", where it matters at run time: a tween between two speeds
    interpolates in the TARGET's unit - for each variant V of `b`, `interpolate(a, b, t)` is
    `V(interpolate(a.as_<v>(), b.0, t))`: the start value converted to V, the result labelled V."""
    import re
    b = F.body('<clock::clock_speed::ClockSpeed as tween::tweenable::Tweenable>::interpolate')
    if not R.check(b is not None, rule, 'anchor', 'ClockSpeed::interpolate not found'):
        return
    seen = set()
    bad = None
    for p in explore(b):
        if p.end != 'return':
            continue
        vs = [lab for _, desc, lab in p.decisions if desc.startswith('discr(') and (desc == 'discr(b)' or desc.startswith('discr(b')) and lab in ('SecondsPerTick', 'TicksPerSecond', 'TicksPerMinute')]
        ret = str(p.ret)
        if not vs:
            bad = 'a path does not look at the unit of the target (returns %s)' % ret[:80]
            continue
        v = vs[-1]
        seen.add(v)
        snake = re.sub(r'(?<!^)([A-Z])', r'_\1', v).lower()
        if not ret.startswith('clock::clock_speed::ClockSpeed::%s(' % v):
            bad = 'for a target in %s the result is %s' % (v, ret[:80])
        elif ('ClockSpeed::as_%s(' % snake) not in ret or 'as_' in ret.replace('ClockSpeed::as_%s(' % snake, '').replace('as %s' % v, ''):
            # ... or the conversion was made in front of the match, by a helper that matches on a copy of the target: on this
            # path exactly one conversion was called, the target's, and its result is what is blended
            convs = [cp for _, cp in p.calls if (cp or '').startswith('clock::clock_speed::ClockSpeed::as_')]
            if not (convs == ['clock::clock_speed::ClockSpeed::as_%s' % snake] and 'Tweenable>::interpolate(' in ret and 'as_' not in ret.replace('as %s' % v, '')):
                bad = 'for a target in %s the start value is not converted with as_%s(): %s' % (v, snake, ret[:140])
    R.check(bad is None and seen == {'SecondsPerTick', 'TicksPerSecond', 'TicksPerMinute'}, rule, 'interpolate',
            'ClockSpeed::interpolate: %s' % (bad or 'units seen: %s' % sorted(seen)), detail={'units': sorted(seen)}, where=b.file)


def semitones(F, R):
    """"Twelve semitones double the playback rate": the conversion is 2^(semitones / 12) itself - one power, so that upward and
    downward shifts are each other's inverse."""
    b = None
    for x in F.bodies:
        if x.krate == 'kira' and 'From<semitones::Semitones> for playback_rate::PlaybackRate>' in x.path and x.path.endswith('::from'):
            b = x
    if not R.check(b is not None, 'B.C19.semitones', 'anchor', 'From<Semitones> for PlaybackRate not found'):
        return
    rets = [str(p.ret).replace(' ', '') for p in explore(b) if p.end == 'return']
    ok = len(rets) == 1 and 'PlaybackRate(std::f64::<implf64>::powf(2.0,Div(' in rets[0] and rets[0].endswith(',12.0)))')
    R.check(ok, 'B.C19.semitones', 'from', 'Semitones -> PlaybackRate is %s, not PlaybackRate(2^(semitones / 12))' % [r[:100] for r in rets], detail={'returns': rets})
