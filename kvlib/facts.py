"""Fact base exported by engine/kira-mir, with CFG / def-use helpers.

Everything here is a pure function of the JSON facts; no source text is read.
"""
import json
import struct
from collections import defaultdict


def strip_generics(path):
    """Remove <...> generic argument lists from a path string (balanced)."""
    out = []
    depth = 0
    i = 0
    while i < len(path):
        c = path[i]
        if c == '<':
            # keep a leading "<T as Trait>" qualified-self form
            depth += 1
        elif c == '>':
            depth -= 1
        elif depth == 0:
            out.append(c)
        i += 1
    return ''.join(out).replace('::::', '::')


def norm(path):
    """Normalise a def path so that facts from the kira crate itself (no crate
    prefix) and from a dependent crate (kira:: prefix) agree."""
    if path is None:
        return None
    if path.startswith('kira::'):
        return path[6:]
    return path.replace('<kira::', '<').replace(' kira::', ' ')


class Body:
    def __init__(self, j, idx):
        self.j = j
        self.idx = idx
        self.key = j['key']
        self.path = norm(j['path'])
        self.krate = j['krate']
        self.file = j['file']
        self.line = j['line']
        self.blocks = j['blocks']
        self.locals = j['locals']
        self.arg_count = j['arg_count']
        self.n = len(self.blocks)
        for b in self.blocks:
            if b.get('dead'):
                b['cleanup'] = True   # pruned by a constant switch: ignore like unwind blocks
        self._succ = [[s for s in b['succ'] if not self.blocks[s]['cleanup']] for b in self.blocks]
        self._pred = None
        self._dom = None
        self._loops = None
        self._defs = None
        self.names = {}
        for d in j['debug']:
            v = d['v']
            if 'l' in v and not v['p']:
                self.names[v['l']] = d['name']
        self.debug = j['debug']
        # parameter slots of helpers spliced into this body: bound once, by an assignment of the argument
        self.inl_params = set(j.get('inl_params', []))

    # ------------------------------------------------------------ CFG
    def succ(self, b):
        return self._succ[b]

    def pred(self, b):
        if self._pred is None:
            self._pred = [[] for _ in range(self.n)]
            for i, ss in enumerate(self._succ):
                if self.blocks[i]['cleanup']:
                    continue
                for s in ss:
                    self._pred[s].append(i)
        return self._pred[b]

    def reachable(self, start, removed=(), stop=()):
        """Blocks reachable from `start` (a block or iterable of blocks) along
        non-cleanup edges, never entering a block in `removed`; blocks in
        `stop` are entered but not left."""
        removed = set(removed)
        stop = set(stop)
        if isinstance(start, int):
            start = [start]
        seen = set()
        todo = [s for s in start if s not in removed]
        while todo:
            b = todo.pop()
            if b in seen:
                continue
            seen.add(b)
            if b in stop:
                continue
            for s in self._succ[b]:
                if s not in removed and s not in seen:
                    todo.append(s)
        return seen

    def reach_after(self, b, removed=(), stop=()):
        """Blocks reachable strictly after leaving block b."""
        return self.reachable(self._succ[b], removed, stop)

    def dominators(self):
        if self._dom is None:
            n = self.n
            live = self.reachable(0)
            dom = {b: set(live) for b in live}
            dom[0] = {0}
            changed = True
            order = sorted(live)
            while changed:
                changed = False
                for b in order:
                    if b == 0:
                        continue
                    ps = [p for p in self.pred(b) if p in live]
                    if not ps:
                        continue
                    new = set.intersection(*[dom[p] for p in ps]) | {b}
                    if new != dom[b]:
                        dom[b] = new
                        changed = True
            self._dom = dom
        return self._dom

    def dominates(self, a, b):
        d = self.dominators()
        return b in d and a in d[b]

    def loops(self):
        """Natural loops: list of dicts {header, blocks(set), back_edges}."""
        if self._loops is None:
            dom = self.dominators()
            by_header = {}
            for b in dom:
                for s in self._succ[b]:
                    if s in dom[b]:  # back edge b -> s
                        body = {s, b}
                        todo = [b]
                        while todo:
                            x = todo.pop()
                            if x == s:
                                continue
                            for p in self.pred(x):
                                if p in dom and p not in body:
                                    body.add(p)
                                    todo.append(p)
                        if s in by_header:
                            by_header[s]['blocks'] |= body
                            by_header[s]['back_edges'].append(b)
                        else:
                            by_header[s] = {'header': s, 'blocks': body, 'back_edges': [b]}
            self._loops = [by_header[h] for h in sorted(by_header)]
        return self._loops

    def rpo_index(self):
        """block -> position in a reverse post-order of the non-cleanup CFG (predecessors first,
        back edges aside)."""
        if getattr(self, '_rpo', None) is None:
            seen = set()
            post = []
            stack = [(0, iter(self._succ[0]))]
            seen.add(0)
            while stack:
                b, it = stack[-1]
                adv = False
                for s in it:
                    if s not in seen:
                        seen.add(s)
                        stack.append((s, iter(self._succ[s])))
                        adv = True
                        break
                if not adv:
                    post.append(b)
                    stack.pop()
            post.reverse()
            self._rpo = {b: i for i, b in enumerate(post)}
        return self._rpo

    def in_loop(self, b):
        return [l for l in self.loops() if b in l['blocks']]

    def return_blocks(self):
        return [i for i, b in enumerate(self.blocks)
                if b['term']['k'] == 'return' and not b['cleanup']]

    # ------------------------------------------------------------ statements
    def calls(self):
        """Yield (bb, term) for every non-cleanup call terminator."""
        for i, b in enumerate(self.blocks):
            if b['cleanup']:
                continue
            t = b['term']
            if t['k'] in ('call', 'tailcall'):
                yield i, t

    def stmts(self):
        for i, b in enumerate(self.blocks):
            if b['cleanup']:
                continue
            for si, s in enumerate(b['stmts']):
                yield i, si, s

    def defs(self):
        """local -> list of ('stmt', bb, si, stmt) | ('call', bb, term) that
        assign the *whole* local."""
        if self._defs is None:
            d = defaultdict(list)
            for i, b in enumerate(self.blocks):
                for si, s in enumerate(b['stmts']):
                    if s['k'] == 'assign' and not s['lhs']['p']:
                        d[s['lhs']['l']].append(('stmt', i, si, s))
                t = b['term']
                if t['k'] == 'call' and not t['dest']['p']:
                    d[t['dest']['l']].append(('call', i, t))
            self._defs = d
        return self._defs

    def single_def(self, local):
        ds = self.defs().get(local, [])
        if len(ds) == 1:
            return ds[0]
        return None

    def all_places(self):
        """Yield (bb, place dict, 'def'|'use') for every place mentioned in non-cleanup blocks."""
        def ops_of_rv(rv):
            k = rv['k']
            if k in ('use', 'cast', 'repeat'):
                yield rv['op']
            elif k in ('ref', 'rawptr', 'discr'):
                yield {'k': 'copy', 'pl': rv['pl']}
            elif k == 'bin':
                yield rv['a']
                yield rv['b']
            elif k == 'un':
                yield rv['a']
            elif k == 'agg':
                for o in rv['ops']:
                    yield o
        for i, b in enumerate(self.blocks):
            if b['cleanup']:
                continue
            for s in b['stmts']:
                if s['k'] == 'assign':
                    yield i, s['lhs'], 'def'
                    for o in ops_of_rv(s['rv']):
                        if is_place(o):
                            yield i, o['pl'], 'use'
                elif s['k'] == 'setdiscr':
                    yield i, s['lhs'], 'def'
            t = b['term']
            if t['k'] in ('call', 'tailcall'):
                for a in t['args']:
                    if is_place(a):
                        yield i, a['pl'], 'use'
                if 'dest' in t:
                    yield i, t['dest'], 'def'
                c = t.get('callee') or {}
                if c.get('indirect') and is_place(c.get('op')):
                    yield i, c['op']['pl'], 'use'
            elif t['k'] == 'switch':
                if is_place(t['op']):
                    yield i, t['op']['pl'], 'use'
            elif t['k'] == 'drop':
                yield i, t['pl'], 'use'
            elif t['k'] == 'assert':
                if is_place(t['cond']):
                    yield i, t['cond']['pl'], 'use'

    def fields_touched(self):
        """Set of (base adt path, field name) projections mentioned anywhere in the body."""
        out = set()
        for bb, pl, k in self.all_places():
            for pr in pl['p']:
                if pr[0] == 'field' and len(pr) > 3 and pr[3]:
                    out.add((norm(pr[3]), pr[2]))
        return out

    def local_name(self, l):
        return self.names.get(l)

    def where(self, bb):
        t = self.blocks[bb]['term']
        return '%s:%s' % (t.get('file', self.file), t['line'])


def callee_path(t):
    c = t.get('callee') or {}
    return norm(c.get('resolved') or c.get('path'))


def callee_decl(t):
    c = t.get('callee') or {}
    return norm(c.get('path'))


def is_place(op):
    return isinstance(op, dict) and op.get('k') in ('copy', 'move')


def is_const(op):
    return isinstance(op, dict) and op.get('c') is True


def const_value(op):
    """Decode an evaluated scalar constant: returns int/float/bool or None."""
    if not is_const(op) or 'bits' not in op:
        return None
    bits = int(op['bits'])
    ty = op['ty']
    size = op.get('size')
    if ty == 'f32':
        return struct.unpack('<f', struct.pack('<I', bits))[0]
    if ty == 'f64':
        return struct.unpack('<d', struct.pack('<Q', bits))[0]
    if ty == 'bool':
        return bool(bits)
    if ty.startswith('i') and size:
        if bits >= 1 << (8 * size - 1):
            bits -= 1 << (8 * size)
        return bits
    return bits


def _short(ty):
    """A type string with all module paths removed (only the last segments kept)."""
    import re
    return re.sub(r"(?:[A-Za-z_][A-Za-z0-9_]*::)+", '', ty or '')


def adt_shape(a):
    """Module-independent shape of an ADT: kind, its own name, variant names and (field name, short field type)."""
    return [a['kind'], a['path'].rsplit('::', 1)[-1],
            [[v['name'], [[f['name'], _short(f['ty'])] for f in v['fields']]] for v in a['variants']]]


def relocate_moved_adts(j, base):
    """A type that was moved to another module (its definition cut and pasted into a new file, the old path re-exported)
    keeps its name and shape: it is mapped back to the path it had on the pinned tree, everywhere in the facts (type
    strings, method paths, impl headers), before any rule runs.  Only unambiguous matches (same name, same shape, the
    old path gone, one candidate each way) are applied.  -> (facts, {new path: old path})"""
    import re
    badts = base.get('adts')
    if not badts:
        return j, {}
    cur = {norm(a['path']): a for a in j['adts'] if a.get('krate', 'kira') == 'kira'}
    gone = [p for p in badts if p not in cur]
    came = [p for p in cur if p not in badts]
    moved = {}
    for n in came:
        sh = adt_shape(cur[n])
        c = [o for o in gone if badts[o] == sh]
        if len(c) == 1 and len([m for m in came if adt_shape(cur[m]) == sh]) == 1:
            moved[n] = c[0]
    if not moved:
        return j, {}
    text = json.dumps(j)
    for n in sorted(moved, key=len, reverse=True):
        text = re.sub(r'(?<![A-Za-z0-9_])' + re.escape(n) + r'(?![A-Za-z0-9_])', (lambda o: (lambda m: o))(moved[n]), text)
    return json.loads(text), moved


def canonicalise_params(j):
    """A renamed function parameter is a renamed local: the parameters of every function that exists in the baseline (same
    path, same number of arguments) carry their baseline names, whatever they are called in the current source."""
    import os
    base_path = os.path.join(os.path.dirname(os.path.dirname(os.path.abspath(__file__))), 'tables', 'names_baseline.json')
    if not os.path.exists(base_path) or j.get('crate') != 'kira':
        return {}
    bp = json.load(open(base_path)).get('params') or {}
    ren = {}
    for b in j['bodies']:
        if b['krate'] != 'kira' or not b['key'].startswith('D:') or '{closure' in b['path']:
            continue
        want = bp.get(norm(b['path']))
        n = b.get('arg_count', 0)
        if not want or len(want) != n:
            continue
        for d in b['debug']:
            v = d['v']
            if 'l' in v and not v['p'] and 1 <= v['l'] <= n and want[v['l'] - 1] and d['name'] != want[v['l'] - 1]:
                ren.setdefault(norm(b['path']), {})[d['name']] = want[v['l'] - 1]
                d['name'] = want[v['l'] - 1]
    return ren


def canonicalise_names(j):
    """Behaviour-preserving renames of functions and struct fields must not change a verdict.  The names of the pinned
    tree are kept in tables/names_baseline.json; a function that disappeared and reappears in the same impl (or module)
    with the same signature under a new name, or a field that disappeared while a new field of the same type appeared in
    the same struct, is mapped back to its baseline name before any rule runs.  Only unambiguous matches are applied;
    the applied renames are returned (and printed in the evidence)."""
    import os
    base_path = os.path.join(os.path.dirname(os.path.dirname(os.path.abspath(__file__))), 'tables', 'names_baseline.json')
    if not os.path.exists(base_path) or j.get('crate') != 'kira':
        return {}, {}
    base = json.load(open(base_path))
    cur = {}
    for f in j['fns']:
        cur.setdefault(norm(f['path']), f)
    missing = [p for p in base['fns'] if p not in cur]
    new = [p for p in cur if p not in base['fns']]
    ren_fn = {}
    for old in missing:
        b = base['fns'][old]
        cands = []
        for n in new:
            f = cur[n]
            if f['sig'] != b['sig'] or f['impl_self'] != b['impl_self'] or f['impl_trait'] != b['impl_trait']:
                continue
            if b['impl_self'] is None and n.rsplit('::', 1)[0] != old.rsplit('::', 1)[0] \
                    and n.rsplit('::', 1)[-1] != old.rsplit('::', 1)[-1]:
                continue  # a free function: renamed within its module, or moved to another module under its name
            cands.append(n)
        # the other direction must be unambiguous too
        if len(cands) == 1:
            n = cands[0]
            back = [o for o in missing if base['fns'][o]['sig'] == cur[n]['sig'] and base['fns'][o]['impl_self'] == cur[n]['impl_self']
                    and base['fns'][o]['impl_trait'] == cur[n]['impl_trait']
                    and (cur[n]['impl_self'] is not None or o.rsplit('::', 1)[0] == n.rsplit('::', 1)[0]
                         or o.rsplit('::', 1)[-1] == n.rsplit('::', 1)[-1])]
            if len(back) == 1:
                ren_fn[n] = old
    ren_field = {}
    for a in j['adts']:
        ap = norm(a['path'])
        if a['kind'] != 'Struct' or ap not in base['fields']:
            continue
        bf = base['fields'][ap]
        cf = [(f['name'], f['ty']) for f in a['variants'][0]['fields']]
        bnames = set(n for n, _ in bf)
        cnames = set(n for n, _ in cf)
        gone = [(n, t) for n, t in bf if n not in cnames]
        came = [(n, t) for n, t in cf if n not in bnames]
        for n, t in came:
            m = [g for g in gone if g[1] == t]
            m2 = [c for c in came if c[1] == t]
            if len(m) == 1 and len(m2) == 1:
                ren_field[(ap, n)] = m[0][0]
    if not ren_fn and not ren_field:
        return ren_fn, ren_field

    def fix_path(p):
        if not isinstance(p, str):
            return p
        q = norm(p)
        for n, o in ren_fn.items():
            if q == n:
                return o
            if q.startswith(n + '::'):
                return o + q[len(n):]
        return p

    def walk(x):
        if isinstance(x, dict):
            if 'p' in x and 'l' in x and isinstance(x['p'], list):
                for pr in x['p']:
                    if pr and pr[0] == 'field' and len(pr) > 3 and pr[3] and (norm(pr[3]), pr[2]) in ren_field:
                        pr[2] = ren_field[(norm(pr[3]), pr[2])]
            if x.get('k') == 'agg' and x.get('adt') and 'fields' in x:
                ap = norm(x['adt'])
                x['fields'] = [ren_field.get((ap, f), f) for f in x['fields']]
            c = x.get('callee')
            if isinstance(c, dict):
                for k in ('path', 'resolved'):
                    if k in c:
                        c[k] = fix_path(c[k])
                if 'name' in c and c.get('path'):
                    c['name'] = c['path'].rsplit('::', 1)[-1] if '::' in c['path'] else c['name']
            for v in x.values():
                walk(v)
        elif isinstance(x, list):
            for v in x:
                walk(v)
    for b in j['bodies']:
        b['path'] = fix_path(b['path'])
        walk(b['blocks'])
        walk(b.get('debug'))
    for i in j['instances']:
        i['path'] = fix_path(i['path'])
    for f in j['fns']:
        f['path'] = fix_path(f['path'])
    for im in j['impls']:
        for it in im['items']:
            it['path'] = fix_path(it['path'])
            if '::' in it['path']:
                it['name'] = it['path'].rsplit('::', 1)[-1]
    for a in j['adts']:
        ap = norm(a['path'])
        for v in a['variants']:
            for f in v['fields']:
                f['name'] = ren_field.get((ap, f['name']), f['name'])
    return ren_fn, ren_field


def _remap(x, loff, boff):
    """Deep copy of a fact fragment with locals shifted by loff and block indices by boff."""
    if isinstance(x, dict):
        out = {}
        is_place = 'l' in x and 'p' in x and isinstance(x.get('p'), list)
        for k, v in x.items():
            if is_place and k == 'l':
                out[k] = v + loff
            elif is_place and k == 'p':
                np_ = []
                for pr in v:
                    pr = list(pr)
                    if pr and pr[0] == 'index':
                        pr[1] = pr[1] + loff
                    np_.append(pr)
                out[k] = np_
            elif is_place and k == 's':
                import re
                out[k] = re.sub(r'_(\d+)(?![0-9])', lambda m: '_%d' % (int(m.group(1)) + loff), v)
            elif k in ('t', 'otherwise') and isinstance(v, int) and ('k' in x):
                out[k] = v + boff
            elif k == 'targets' and isinstance(v, list):
                out[k] = [[a, b + boff] for a, b in v]
            elif k == 'succ' and isinstance(v, list):
                out[k] = [b + boff for b in v]
            else:
                out[k] = _remap(v, loff, boff)
        return out
    if isinstance(x, list):
        return [_remap(v, loff, boff) for v in x]
    return x


def _splice_call(c, bi, h, hp, mark=True):
    """Splice the body `h` (path hp) into caller `c` at the call terminating block bi."""
    blk = c['blocks'][bi]
    t = blk['term']
    loff = len(c['locals'])
    boff = len(c['blocks'])
    c['locals'].extend(dict(x) for x in h['locals'])
    for d in h.get('debug', []):
        c['debug'].append(_remap(d, loff, boff))
    newb = _remap(h['blocks'], loff, boff)
    hfile = h['file']
    if mark:
        h['inlined_away'] = True
    for x in newb:
        x['inl'] = hp
        if hfile != c['file'] and 'file' not in x['term']:
            x['term']['file'] = hfile
        if x['term'].get('k') == 'return':
            line = x['term'].get('line', 0)
            x['stmts'].append({'k': 'assign', 'lhs': t['dest'], 'rv': {'k': 'use', 'op': {'k': 'move', 'pl': {'l': loff, 'p': [], 'ty': None, 's': '_%d' % loff}}},
                               'line': line, 'exp': False})
            if t.get('t') is None:
                x['term'] = {'k': 'unreachable', 'line': line, 'exp': False}
                x['succ'] = []
            else:
                x['term'] = {'k': 'goto', 't': t['t'], 'line': line, 'exp': False}
                x['succ'] = [t['t']]
            if hfile != c['file']:
                x['term']['file'] = hfile
    c.setdefault('inl_params', []).extend(loff + 1 + i for i in range(len(t.get('args', []))))
    for i, a in enumerate(t.get('args', [])):
        blk['stmts'].append({'k': 'assign', 'lhs': {'l': loff + 1 + i, 'p': [], 'ty': None, 's': '_%d' % (loff + 1 + i)},
                             'rv': {'k': 'use', 'op': a}, 'line': t.get('line', 0), 'exp': False})
    blk['term'] = {'k': 'goto', 't': boff, 'line': t.get('line', 0), 'exp': False, 'inlined': hp}
    blk['succ'] = [boff]
    c['blocks'].extend(newb)


def inline_new_helpers(j, max_rounds=4):
    """Extracting a few lines into a new private helper must not change a verdict.  Every kira function that is NOT in
    the names baseline (i.e. did not exist on the pinned tree) and is called directly from kira code is spliced into its
    callers at the fact level (blocks and locals renumbered, arguments bound by assignments, returns turned into an
    assignment of the destination plus a goto).  Rules then see the caller as if the helper had never been extracted.
    Returns {caller path: [helper paths]}."""
    import os
    base_path = os.path.join(os.path.dirname(os.path.dirname(os.path.abspath(__file__))), 'tables', 'names_baseline.json')
    if not os.path.exists(base_path) or j.get('crate') != 'kira':
        return {}
    base = json.load(open(base_path))['fns']
    by_path = {}
    for b in j['bodies']:
        if b['krate'] == 'kira' and b['key'].startswith('D:') and '{closure' not in b['path']:
            by_path.setdefault(norm(b['path']), []).append(b)
    helpers = {p: bs[0] for p, bs in by_path.items() if p not in base and len(bs) == 1 and bs[0]['kind'] in ('Fn', 'AssocFn')}
    # trait-impl methods are reached through the trait, never inlined
    helpers = {p: b for p, b in helpers.items() if not p.startswith('<')}
    if not helpers:
        return {}
    done = {}
    for _ in range(max_rounds):
        changed = False
        for c in j['bodies']:
            if c['krate'] != 'kira':
                continue
            cpath = norm(c['path'])
            nb = len(c['blocks'])
            for bi in range(nb):
                blk = c['blocks'][bi]
                t = blk['term']
                if t.get('k') != 'call' or blk.get('cleanup'):
                    continue
                cal = t.get('callee') or {}
                hp = norm(cal.get('resolved') or cal.get('path') or '')
                h = helpers.get(hp)
                if h is None or h is c or hp == cpath or len(h['blocks']) > 400:
                    continue
                _splice_call(c, bi, h, hp)
                done.setdefault(cpath, []).append(hp)
                changed = True
        if not changed:
            break
    j['inlined_helpers'] = done
    return done


class Facts:
    def __init__(self, path_or_json, fn_renames=None, moved_adts=None):
        if isinstance(path_or_json, str):
            with open(path_or_json) as f:
                j = json.load(f)
        else:
            j = path_or_json
        self.moved_adts = {}
        if moved_adts and j.get('crate') != 'kira':
            # a harness crate's facts: the types kira moved to other modules are mapped back as they were on kira's own facts
            import re as _re
            text = json.dumps(j)
            for n_ in sorted(moved_adts, key=len, reverse=True):
                text = _re.sub(r'(?<![A-Za-z0-9_])' + _re.escape(n_) + r'(?![A-Za-z0-9_])', (lambda o: (lambda m: o))(moved_adts[n_]), text)
            j = json.loads(text)
            self.moved_adts = dict(moved_adts)
        if j.get('crate') == 'kira':
            import os
            bp = os.path.join(os.path.dirname(os.path.dirname(os.path.abspath(__file__))), 'tables', 'names_baseline.json')
            if os.path.exists(bp):
                j, self.moved_adts = relocate_moved_adts(j, json.load(open(bp)))
        self.renamed_fns, self.renamed_fields = canonicalise_names(j)
        if fn_renames and j.get('crate') != 'kira':
            # facts of a harness crate that depends on kira: kira's functions appear as a dependency's (no signatures to match
            # here), so the renames found on kira's own facts are applied to the paths of this crate's bodies and instances
            def _fp(p):
                q = norm(p) if isinstance(p, str) else p
                for n_, o_ in fn_renames.items():
                    if q == n_:
                        return o_
                    if isinstance(q, str) and q.startswith(n_ + '::'):
                        return o_ + q[len(n_):]
                return p
            def _walk(x):
                if isinstance(x, dict):
                    c = x.get('callee')
                    if isinstance(c, dict):
                        for k_ in ('path', 'resolved'):
                            if k_ in c:
                                c[k_] = _fp(c[k_])
                    for v_ in x.values():
                        _walk(v_)
                elif isinstance(x, list):
                    for v_ in x:
                        _walk(v_)
            for b_ in j['bodies']:
                b_['path'] = _fp(b_['path'])
                _walk(b_['blocks'])
            for i_ in j['instances']:
                i_['path'] = _fp(i_['path'])
            self.renamed_fns = dict(fn_renames)
        self.renamed_params = canonicalise_params(j)
        self.inlined = inline_new_helpers(j)
        self.j = j
        self.consts = {}
        for c in j.get('consts', []):
            if c.get('simple') and c.get('text', '').startswith('_0 = ') and ';' not in c['text']:
                self.consts[norm(c['path'])] = c['text'][len('_0 = '):]
        if j.get('crate') == 'kira':
            from . import paths as _paths
            _paths.CONSTS = self.consts
        self.nonce = j.get('nonce')
        self.crate = j['crate']
        self.overflow_checks = j['overflow_checks']
        self.all_bodies = [Body(b, i) for i, b in enumerate(j['bodies'])]
        # rules iterate `bodies`: helpers that were spliced into their callers are seen there, not on their own
        self.bodies = [b for b in self.all_bodies if not b.j.get('inlined_away')]
        self.by_path = defaultdict(list)
        self.by_id = {}
        for b in self.all_bodies:
            self.by_path[b.path].append(b)
            if b.key.startswith('D:'):
                self.by_id[b.key[2:]] = b
        self.instances = j['instances']
        for i in self.instances:
            i['path'] = norm(i['path'])
        self.edges = j['edges']
        self.out = defaultdict(list)
        for e in self.edges:
            self.out[e['from']].append(e)
        self.roots = j['roots']
        self.adts = {norm(a['path']): a for a in j['adts']}
        # (enum path, variant name) -> discriminant, for the path explorer (kvlib.paths.explore)
        self.adt_discr = {}
        for a in j['adts']:
            if a.get('kind') == 'Enum':
                for v in a['variants']:
                    try:
                        dv = int(v.get('discr'))
                    except (TypeError, ValueError):
                        continue
                    self.adt_discr[(a['path'], v['name'])] = dv
                    self.adt_discr[(norm(a['path']), v['name'])] = dv
        for b in self.all_bodies:
            b.adt_discr = self.adt_discr
        self.impls = j['impls']
        for im in self.impls:
            im['trait'] = norm(im['trait'])
            for it in im['items']:
                it['path'] = norm(it['path'])
        self.traits = {norm(t['path']): t for t in j['traits']}
        self.fns = {}
        self.fns_by_path = defaultdict(list)
        for f in j['fns']:
            f['path'] = norm(f['path'])
            self.fns[f['id']] = f
            self.fns_by_path[f['path']].append(f)

    # ------------------------------------------------------------ lookup
    def body(self, path):
        """The unique local body with this (normalised) def path, or None."""
        bs = self.by_path.get(path, [])
        if len(bs) == 1:
            return bs[0]
        return None

    def bodies_matching(self, pred):
        return [b for b in self.bodies if pred(b)]

    def inlined_view(self, path, depth=2, pred=None):
        """A copy of the body `path` with its direct calls to kira functions (not trait methods reached through the trait,
        not closures) spliced in, `depth` levels deep: rules written over the view give the same verdict whether a
        piece of logic sits in the function itself or in a private method it calls."""
        import copy
        b0 = self.body(path)
        if b0 is None:
            return None
        key = (path, depth)
        cache = self.__dict__.setdefault('_views', {})
        if key in cache:
            return cache[key]
        c = copy.deepcopy(b0.j)
        for _ in range(depth):
            changed = False
            for bi in range(len(c['blocks'])):
                blk = c['blocks'][bi]
                t = blk['term']
                if t.get('k') != 'call' or blk.get('cleanup') or blk.get('inl_done'):
                    continue
                cal = t.get('callee') or {}
                hp = norm(cal.get('resolved') or cal.get('path') or '')
                hb = self.body(hp)
                if hb is None or hb.krate != 'kira' or hp == path or '{closure' in hp or len(hb.blocks) > 300:
                    continue
                if pred is not None and not pred(hp):
                    continue
                _splice_call(c, bi, copy.deepcopy(hb.j), hp, mark=False)
                changed = True
            if not changed:
                break
        v = Body(c, b0.idx)
        v.adt_discr = self.adt_discr
        cache[key] = v
        return v

    def closures_of(self, path):
        out = [b for b in self.bodies if b.path.startswith(path + '::{closure')]
        # closures of helpers that were spliced into this function belong to it too
        seen = set()
        todo = list(self.inlined.get(path, []))
        while todo:
            h = todo.pop()
            if h in seen:
                continue
            seen.add(h)
            out += [b for b in self.bodies if b.path.startswith(h + '::{closure')]
            todo += self.inlined.get(h, [])
        return out

    def body_of_instance(self, i):
        bi = self.instances[i].get('body')
        if bi is None:
            return None
        return self.all_bodies[bi]

    def root_instances(self, groups):
        return [r['inst'] for r in self.roots if r['group'] in groups and r.get('inst') is not None]

    def reach_instances(self, roots, kinds=('call', 'drop', 'virtual', 'vdrop', 'reify')):
        seen = set()
        parent = {}
        todo = list(roots)
        for r in roots:
            parent[r] = None
        from collections import deque
        dq = deque(todo)
        while dq:
            x = dq.popleft()
            if x in seen:
                continue
            seen.add(x)
            for e in self.out.get(x, []):
                t = e['to']
                if t is None or e['kind'] not in kinds:
                    continue
                if t not in seen and t not in parent:
                    parent[t] = (x, e)
                    dq.append(t)
                elif t not in parent:
                    parent[t] = (x, e)
        return seen, parent

    def chain(self, parent, i, limit=12):
        out = []
        cur = i
        while cur is not None and len(out) < 64:
            out.append(self.instances[cur]['name'])
            p = parent.get(cur)
            cur = p[0] if p else None
        out.reverse()
        if len(out) > limit:
            out = out[:3] + ['…'] + out[-(limit - 4):]
        return out

    def impls_of_trait(self, trait_path):
        return [im for im in self.impls if im['trait'] == trait_path]

    def adt(self, path):
        return self.adts.get(path)

    def struct_fields(self, path):
        a = self.adts.get(path)
        if not a or not a['variants']:
            return []
        return a['variants'][0]['fields']


# ---------------------------------------------------------------- def-use helpers

def op_local(op):
    """If operand is copy/move of a bare local, return the local index."""
    if is_place(op) and not op['pl']['p']:
        return op['pl']['l']
    return None


def trace(body, op, depth=12):
    """Follow an operand back through single-definition temporaries.
    Returns a list of steps (most recent first), each a dict:
      {'kind': 'const', 'op'} | {'kind':'place','pl'} (a place that is not a bare temp)
      | {'kind':'rv', 'rv', 'bb'} | {'kind':'call','term','bb'} | {'kind':'arg','l'} | {'kind':'multi','l'}
    The walk continues through `use`, `ref`, `cast` rvalues of bare temps."""
    steps = []
    cur = op
    for _ in range(depth):
        if is_const(cur):
            steps.append({'kind': 'const', 'op': cur})
            return steps
        if not is_place(cur):
            steps.append({'kind': 'unknown', 'op': cur})
            return steps
        pl = cur['pl']
        l = pl['l']
        if pl['p']:
            steps.append({'kind': 'place', 'pl': pl})
            # continue through the base local if it is a deref of a temp holding a ref
            if pl['p'] and pl['p'][0][0] == 'deref':
                d = body.single_def(l)
                if d and d[0] == 'stmt' and d[3]['rv']['k'] in ('ref', 'use', 'rawptr'):
                    rv = d[3]['rv']
                    steps.append({'kind': 'rv', 'rv': rv, 'bb': d[1], 'of': l})
            return steps
        if 1 <= l <= body.arg_count:
            steps.append({'kind': 'arg', 'l': l})
            return steps
        d = body.single_def(l)
        if d is None:
            steps.append({'kind': 'multi', 'l': l})
            return steps
        if d[0] == 'call':
            steps.append({'kind': 'call', 'term': d[2], 'bb': d[1]})
            return steps
        rv = d[3]['rv']
        steps.append({'kind': 'rv', 'rv': rv, 'bb': d[1], 'of': l})
        if rv['k'] == 'use':
            cur = rv['op']
            continue
        if rv['k'] == 'cast':
            cur = rv['op']
            continue
        if rv['k'] in ('ref', 'rawptr'):
            cur = {'k': 'copy', 'pl': rv['pl']}
            # a ref of a place: report the place and stop unless bare temp
            if rv['pl']['p']:
                steps.append({'kind': 'place', 'pl': rv['pl']})
                return steps
            continue
        return steps
    return steps


def origin_place(body, op):
    """The source place string an operand ultimately refers to (through refs,
    reborrows and copies of temporaries), e.g. '(*_1).temp_buffer'. None if unknown."""
    for st in trace(body, op):
        if st['kind'] == 'place':
            return resolve_place_str(body, st['pl'])
        if st['kind'] == 'arg':
            return '_%d' % st['l']
    return None


def resolve_place_str(body, pl, depth=8):
    return expand_place(body, pl, depth)['s']


def _old_resolve_place_str(body, pl, depth=8):
    """Render a place with its base temp expanded when the base is a single-def
    ref/copy of another place: (*_5).x with _5 = &mut (*_1).mixer -> (*_1).mixer.x"""
    s = pl['s']
    l = pl['l']
    for _ in range(depth):
        if 1 <= l <= body.arg_count:
            break
        d = body.single_def(l)
        if not d or d[0] != 'stmt':
            break
        rv = d[3]['rv']
        if rv['k'] in ('ref', 'rawptr'):
            inner = rv['pl']
            s = s.replace('(*_%d)' % l, inner['s'], 1) if ('(*_%d)' % l) in s else s
            if ('(*_%d)' % l) in pl['s'] or s != pl['s']:
                l = inner['l']
                pl = {'s': s, 'l': l}
                continue
            break
        if rv['k'] == 'use' and is_place(rv['op']):
            inner = rv['op']['pl']
            import re
            s2 = re.sub(r'_%d(?![0-9])' % l, inner['s'], s, count=1)
            if s2 == s:
                break
            s = s2
            l = inner['l']
            pl = {'s': s, 'l': l}
            continue
        break
    return s


def expand_place(body, pl, depth=8):
    """Compose a place through temporaries that hold references or copies:
    (*_4) with _4 = &mut (*_5), _5 = &mut (*_1).a.b  ->  (*_1).a.b   (projection lists are concatenated)."""
    l = pl['l']
    proj = list(pl['p'])
    ty = pl.get('ty')
    for _ in range(depth):
        if 1 <= l <= body.arg_count:
            break
        d = body.single_def(l)
        if not d or d[0] != 'stmt':
            break
        rv = d[3]['rv']
        if rv['k'] in ('ref', 'rawptr') and proj and proj[0][0] == 'deref':
            inner = rv['pl']
            proj = list(inner['p']) + proj[1:]
            l = inner['l']
            continue
        if rv['k'] == 'use' and is_place(rv['op']) and proj and proj[0][0] == 'deref':
            # the local holds a copied reference / pointer: (*_5) with _5 = copy _3  ->  (*_3)
            inner = rv['op']['pl']
            proj = list(inner['p']) + proj
            l = inner['l']
            continue
        if rv['k'] == 'cast' and is_place(rv['op']) and proj and proj[0][0] == 'deref' \
                and 'Unsize' not in rv.get('ck', '') and 'Transmute' not in rv.get('ck', ''):
            inner = rv['op']['pl']
            proj = list(inner['p']) + proj
            l = inner['l']
            continue
        if rv['k'] == 'agg' and rv.get('ak') == 'tuple' and len(proj) >= 2 and proj[0][0] == 'field' and proj[1][0] == 'deref' \
                and proj[0][1] < len(rv['ops']) and is_place(rv['ops'][proj[0][1]]):
            # a tuple of references built to bind several places at once: (*_7.0) with _7 = (move _14, ..) -> (*_14)
            inner = rv['ops'][proj[0][1]]['pl']
            proj = list(inner['p']) + proj[1:]
            l = inner['l']
            continue
        break
    s = '_%d' % l
    for pr in proj:
        if pr[0] == 'deref':
            s = '(*%s)' % s
        elif pr[0] == 'field':
            s = '%s.%s' % (s, pr[2])
        elif pr[0] == 'downcast':
            s = '(%s as %s)' % (s, pr[1])
        elif pr[0] == 'index':
            s = '%s[_%d]' % (s, pr[1])
        elif pr[0] == 'cidx':
            s = '%s[%s%d]' % (s, '-' if pr[2] else 'c', pr[1])
        else:
            s = '%s.<%s>' % (s, pr[0])
    return {'l': l, 'p': proj, 's': s, 'ty': ty}


def operand_place(body, op):
    """The (expanded) place an operand denotes or points to: for `move _4` with
    _4 = &mut X returns X; for `copy X.f` returns X.f.  None for constants."""
    if not is_place(op):
        return None
    pl = op['pl']
    if not pl['p']:
        l = pl['l']
        if 1 <= l <= body.arg_count:
            return {'l': l, 'p': [], 's': '_%d' % l, 'ty': pl.get('ty')}
        d = body.single_def(l)
        if d and d[0] == 'stmt':
            rv = d[3]['rv']
            if rv['k'] in ('ref', 'rawptr'):
                return expand_place(body, rv['pl'])
            if rv['k'] == 'use' and is_place(rv['op']):
                return operand_place(body, rv['op'])
            if rv['k'] == 'cast' and is_place(rv['op']):
                return operand_place(body, rv['op'])
        return {'l': l, 'p': [], 's': '_%d' % l, 'ty': pl.get('ty')}
    return expand_place(body, pl)
