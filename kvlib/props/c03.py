"""C03 — sound playback states follow the documented life cycle; Stopped is final."""
from ..paths import explore, describe, describe_rv, pretty_place, bool_label
from ..rules import (calls_to, calls_where, blocks_of, must_pass, bool_edges, calls_in, stores_in,
                     self_field_of_call, returns)
from ..facts import callee_path, op_local, trace

TEXT = ("The transition relation of PlaybackStateManager is extracted from the MIR of pause/resume/stop/mark_as_stopped/update by path-sensitive exploration over the discriminant of `state` and compared with the documented life cycle (Stopped has no outgoing edge); fade-driven edges are guarded by the fade tween finishing; fade targets are the SILENCE/IDENTITY constants; every state change is mirrored to the handle; the decode tables match the enum; non-advancing states return through zero-fill without touching position; the sweep that unloads finished sounds runs on every path of every callback. Tween timing and gain values are not decided. The static sound feeds its resampler None whenever the transport is not playing (so every finite sound drains and stops). The resampler counts down to empty when fed None. Life-cycle commands are written on every non-error path of the handle methods, also through wrappers; the fade and start-time bookkeeping runs on every path of process() that does not stop the sound. Pause, resume and stop are polled in that order on every path and every command read reaches the state machine; the fade parameter is only retargeted (with the caller's tween), never rebuilt; num_frames is bounded by the audio; a loop region that is cleared is cleared. Sound::process skips its per-frame loop only through the documented silent exits; the tween handed to the fade has had no field overwritten. Elapsed time is accumulated in double precision; the start-time countdown subtracts exactly this update's dt. The track a sound plays on is not unloaded under it; every life-cycle reader is polled on every path; the command handlers build / alter no Tween. resume(tween) is resume_at(StartTime::Immediate, tween) on every handle that has both. A sound is handed the slice of this chunk (its fades and delays advance by the time that slice covers). Every child of a track (sub-track, sound, effect) is processed on every non-frozen path; every finished sound is swept in one callback, however many finish at once.")
TECHNIQUE = 'MIR path-sensitive state-machine extraction + CFG must-pass / table rules'

PSM = 'playback_state_manager::PlaybackStateManager'
STATES = ['Playing', 'Pausing', 'Paused', 'WaitingToResume', 'Resuming', 'Stopping', 'Stopped']
ST = '(*self).state'

NONSTOP = [s for s in STATES if s != 'Stopped']
EXPECT = {
    'pause': {s: {'Pausing'} for s in NONSTOP},
    'stop': {s: {'Stopping'} for s in NONSTOP},
    'resume[Immediate]': {s: {'Resuming'} for s in NONSTOP},
    'resume[other]': {s: {'WaitingToResume'} for s in NONSTOP},
    'mark_as_stopped': {s: {'Stopped'} for s in STATES},
    'update': {
        'Playing': {'Playing'}, 'Paused': {'Paused'}, 'Stopped': {'Stopped'},
        'Pausing': {'Pausing', 'Paused'}, 'Resuming': {'Resuming', 'Playing'},
        'Stopping': {'Stopping', 'Stopped'},
        'WaitingToResume': {'WaitingToResume', 'Resuming', 'Stopped'},
    },
}
for m in ('pause', 'stop', 'resume[Immediate]', 'resume[other]'):
    EXPECT[m]['Stopped'] = {'Stopped'}


def state_names(F):
    a = F.adt('playback_state_manager::State')
    return [v['name'] for v in a['variants']] if a else None


def psm_flags(F):
    """Boolean configuration fields of PlaybackStateManager and, per constructor, their constant values:
    -> (flag names, {constructor path: {flag: 'true'|'false'}})"""
    a = F.adt(PSM)
    flags = [f['name'] for f in a['variants'][0]['fields'] if f['ty'] == 'bool'] if a else []
    ctors = {}
    for b in F.bodies:
        if b.krate != 'kira' or not b.path.startswith(PSM + '::'):
            continue
        if any(nm == 'self' for l, nm in b.names.items() if 1 <= l <= b.arg_count):
            continue
        vals = {}
        for bb, si, s in b.stmts():
            if s['k'] == 'assign' and s['rv']['k'] == 'agg' and s['rv'].get('adt') == PSM:
                for fn, op in zip(s['rv']['fields'], s['rv']['ops']):
                    if fn in flags:
                        d = describe(b, op, at=bb)
                        vals[fn] = {'True': 'true', 'False': 'false'}.get(d, '?')
        if vals or any((callee_path(t) or '').startswith(PSM + '::new') for _, t in b.calls()):
            ctors[b.path] = vals
    return flags, ctors


def owner_bindings(F):
    """Which constructor each owner class uses -> {'sound': {flag: value}, 'track': {...}}"""
    flags, ctors = psm_flags(F)
    out = {}
    problems = []
    for b in F.bodies:
        if b.krate != 'kira' or b.path.startswith(PSM):
            continue
        for bb, t in b.calls():
            cp = callee_path(t) or ''
            if cp in ctors:
                cls = 'track' if b.path.startswith('track::') else ('sound' if b.path.startswith('sound::') else 'other')
                vals = ctors[cp]
                if cls in out and out[cls] != vals:
                    problems.append('%s builds its PlaybackStateManager with %s, other %s code with different flags' % (b.path, cp, cls))
                out[cls] = vals
    return flags, out, problems


def make_summaries(F, names):
    """Summaries for same-impl callees that take &mut self (here: resume called from update)."""
    def summ(method):
        def f(env, term, caller):
            body = F.body('%s::%s' % (PSM, method))
            if body is None:
                return [dict(env, **{ST: frozenset(['?'])})]
            tracked = {ST: ('State', env.get(ST, frozenset(names)), names)}
            for k2, v2 in env.items():
                if isinstance(k2, str) and k2.startswith('(*self).') and k2 != ST:
                    tracked[k2] = ('flag', v2)
            # bind enum-valued arguments that are literal variants at the call site
            for i, a in enumerate(term['args']):
                d = describe(caller, a)
                if '::' in d and '(' not in d:
                    var = d.split('::')[-1]
                    an = body.names.get(i + 1)
                    if an and an != 'self':
                        tracked[an] = ('arg', frozenset([var]))
            outs = []
            for pr in explore(body, tracked, summaries=None):
                if pr.end == 'return':
                    e2 = dict(env)
                    e2[ST] = pr.env[ST]
                    outs.append(e2)
            # dedupe
            uniq = {}
            for e in outs:
                uniq[tuple(sorted((k, tuple(sorted(v))) for k, v in e.items() if isinstance(k, str)))] = e
            return list(uniq.values())
        return f
    return {'%s::%s' % (PSM, m): summ(m) for m in ('resume', 'pause', 'stop', 'mark_as_stopped')}


def extract(F, method, names, arg_binding=None, flags=None):
    """-> {from_state: [(to_states frozenset, ret, decisions)]}
    flags: {flag field name: 'true'|'false'} constructor-time configuration of the manager."""
    body = F.body('%s::%s' % (PSM, method))
    if body is None:
        return None
    rel = {}
    summaries = make_summaries(F, names)
    for s in names:
        tracked = {ST: ('State', frozenset([s]), names)}
        for fl, val in (flags or {}).items():
            tracked['(*self).' + fl] = ('flag', frozenset([val] if val in ('true', 'false') else ['true', 'false']))
        if arg_binding:
            for an, var in arg_binding.items():
                tracked[an] = ('arg', var)
        res = []
        for pr in explore(body, tracked, summaries=summaries):
            if pr.end == 'return':
                res.append((pr.env[ST], pr.ret, pr.decisions, pr.calls))
        rel[s] = res
    return rel


def waiting_cancel(F, R, rule='B.C05.cancel'):
    """'A resume scheduled for a clock time ... is cancelled (a waiting sound becomes Stopped) if the clock no longer exists':
    with the flags a sound's manager is built with, `update` takes WaitingToResume to Resuming, back to WaitingToResume, or
    to Stopped - and to nothing else (the transition relation extracted for B.SM.extract, this one row)."""
    names = state_names(F)
    flag_names, bindings, problems = owner_bindings(F)
    if not R.check(names is not None, rule, 'anchor:resume-cancel', 'state machine not found'):
        return
    rel = extract(F, 'update', names, None, flags=bindings.get('sound', {}))
    tos = set()
    for to, ret, dec, calls in (rel or {}).get('WaitingToResume', []):
        tos |= set(to)
    R.check(tos == {'Resuming', 'Stopped', 'WaitingToResume'}, rule, 'resume:never->stopped',
            'for a sound, update from WaitingToResume leads to %s; a resume waiting for a clock that no longer exists must end in Stopped'
            % sorted(tos), detail={'to': sorted(tos)})


def resume_is_immediate(F, R, rule='B.C03.cmd'):
    """`resume(tween)` is `resume_at(StartTime::Immediate, tween)` on every handle that has both: the tween's own start time
    is honoured once, by the fade parameter - handing it to `resume_at` as well makes the audio side wait for it twice (once
    in WaitingToResume, once inside the fade)."""
    n = 0
    for b in F.bodies:
        if b.krate != 'kira' or not b.path.endswith('::resume') or 'andle' not in b.path:
            continue
        cs = [(bb, t) for bb, t in b.calls() if (callee_path(t) or '').endswith('::resume_at')]
        if cs:
            d = describe(b, cs[0][1]['args'][1], depth=4, at=cs[0][0])
        else:
            # the command written directly (a private helper shared with `resume_at`, spliced in): the start time is the
            # first half of the `(start_time, tween)` payload
            from ..rules import feasible_paths
            from ..paths import parse_term
            ps = feasible_paths(b)
            live = None if ps is None else set().union(*[set(x) for x in ps]) if ps else set()
            cs = [(bb, t) for bb, t in b.calls() if (callee_path(t) or '') == 'command::CommandWriter::<T>::write' and (live is None or bb in live)]
            if not cs:
                continue
            nm, args = parse_term(describe(b, cs[0][1]['args'][1], depth=8, at=cs[0][0]))
            d = args[0] if nm == 'tuple' and args and len(args) == 2 else '%s(%s)' % (nm, args)
        n += 1
        R.check(len(cs) == 1 and d == 'start_time::StartTime::Immediate', rule, 'resume-immediate:' + b.path.split('::')[-2].split('<')[0],
                '%s resumes at %s, not at StartTime::Immediate' % (b.path, d[:60]), detail={'start': d[:60]}, where=b.file, nontrivial=False)
    R.floor(rule + '.resume-immediate', n, 4)


def ret_bool(ret, decisions):
    """The boolean a path returns: a literal, or a value the path itself has branched on (`if finished {..} finished`)."""
    r = str(ret)
    if r in ('True', 'true'):
        return True
    if r in ('False', 'false'):
        return False
    val = None
    for bb, desc, lab in decisions:
        if desc == r and bool_label(lab) is not None:
            val = bool_label(lab)
        elif desc == 'Not(%s)' % r and bool_label(lab) is not None:
            val = not bool_label(lab)
    return val


def run(ctx, R, tier):
    F = ctx.facts('default')
    names = state_names(F)
    if not R.check(names is not None, 'B.SM.extract', 'anchor:State', 'enum playback_state_manager::State not found'):
        return
    R.check(names == STATES, 'B.SM.extract', 'variants',
            'State variants %s differ from the documented seven states %s' % (names, STATES),
            detail={'variants': names})
    pub = F.adt('sound::PlaybackState')
    R.check(pub is not None and [v['name'] for v in pub['variants']] == STATES, 'B.SM.extract', 'public-variants',
            'sound::PlaybackState variants differ from the documented states', detail='PlaybackState has the 7 documented variants')

    # the life-cycle commands are sent whatever the handle believes the state to be (the shared state lags by a callback)
    from .c07 import write_unconditional
    write_unconditional(F, R, rule='B.C03.cmd', floor=8, fn_filter=lambda p: ('sound::static_sound::handle' in p or 'sound::streaming::handle' in p)
                        and p.split('::')[-1] in ('pause', 'resume', 'resume_at', 'stop'))
    lifecycle_readers(F, R)
    resume_is_immediate(F, R)
    finite_length(F, R)
    # fades, start delays and the resume countdown advance by the time of the slice the sound is handed: it is this chunk's slice
    from .c02 import ibs, once as every_child_every_chunk
    ibs(F, R)
    # every live sound (also one on a track nested under an otherwise empty track) is processed in every chunk: its fades advance
    every_child_every_chunk(F, R)
    # every sound that is Stopped is unloaded at the next callback, however many stop at once
    from .c08 import recycle
    recycle(F, R)
    # a clock start time becomes Immediate exactly when the clock says Now (the C05 rule)
    from .c05 import start_time_rule
    start_time_rule(F, R)
    commands_reach_manager(F, R)
    # 'every finite non-looping sound reaches Stopped': what is stored as the loop region is what the command said (None clears it)
    from ..enginea import chk_loop_region_ordered
    good, msg = chk_loop_region_ordered(F)
    R.check(good, 'B.C03.loop-region', 'stores', 'Transport.loop_region: %s' % msg, detail=msg)
    fade_continuity(F, R)
    # 'every finite non-looping sound reaches Stopped': the track it plays on is not unloaded under it (the documented
    # removal predicate: C12's rule)
    from .c12 import remove_rule
    remove_rule(F, R, rule='B.C03.alive')
    from .c06 import accumulators
    accumulators(F, R, rule='B.C03.accumulate')
    # a fade-driven step completes when its tween completes: the fade and start-time bookkeeping runs on every path of process
    from .c06 import ungated
    ungated(F, R, rule='B.C03.ungated')
    stvars = [v['name'] for v in (F.adt('start_time::StartTime') or {'variants': []})['variants']]
    other_start = frozenset(v for v in stvars if v != 'Immediate') or frozenset(['?'])
    methods = [('pause', 'pause', None), ('stop', 'stop', None), ('mark_as_stopped', 'mark_as_stopped', None),
               ('resume[Immediate]', 'resume', {'start_time': frozenset(['Immediate'])}),
               ('resume[other]', 'resume', {'start_time': other_start}),
               ('update', 'update', None)]
    n_edges = 0
    rels = {}
    flag_names, bindings, problems = owner_bindings(F)
    R.check(not problems and 'sound' in bindings, 'B.SM.extract', 'constructor',
            '; '.join(problems) or 'no PlaybackStateManager constructor call found in the sound code',
            detail={'flags': flag_names, 'sound': bindings.get('sound'), 'track': bindings.get('track')})
    sflags = bindings.get('sound', {})
    for label, m, binding in methods:
        rel = extract(F, m, names, binding, flags=sflags)
        if not R.check(rel is not None, 'B.SM.extract', 'anchor:' + m, 'method %s::%s not found' % (PSM, m)):
            continue
        rels[label] = rel
        for s in names:
            got = set()
            for to, ret, dec, calls in rel[s]:
                got |= set(to)
            exp = EXPECT[label][s]
            n_edges += 1
            key = '%s:%s' % (label, s)
            if got == exp:
                R.ok('B.SM.extract', key, detail={'from': s, 'method': label, 'to': sorted(got)})
            else:
                extra = got - exp
                missing = exp - got
                what = 'transition relation of %s from %s is %s, documented life cycle says %s' % (
                    label, s, sorted(got), sorted(exp))
                if s == 'Stopped' and extra:
                    what += ' — Stopped must be final'
                R.bad('B.SM.extract', key, what, where=F.body('%s::%s' % (PSM, m)).file)
    R.floor('B.SM.extract', n_edges, 6 * 7)

    # ---- B.SM.guard: update's state-changing edges are taken only under the right condition
    upd = rels.get('update')
    if upd:
        fade = 'parameter::Parameter::<T>::update'
        guards = {
            ('Pausing', 'Paused'): ('fade', True), ('Resuming', 'Playing'): ('fade', True),
            ('Stopping', 'Stopped'): ('fade', True),
            ('WaitingToResume', 'Stopped'): ('never', True),
            ('WaitingToResume', 'Resuming'): ('immediate', True),
        }
        found = 0
        for (a, b), (kind, val) in guards.items():
            paths = [(to, ret, dec) for to, ret, dec, calls in upd[a] if to == frozenset([b])]
            if not paths:
                continue
            ok = True
            why = ''
            for to, ret, dec in paths:
                sat = False
                for bb, desc, lab in dec:
                    bl = bool_label(lab)
                    if kind == 'fade' and desc.startswith(fade + '(') and 'volume_fade' in desc and bl is True:
                        sat = True
                    if kind == 'never' and desc.startswith('start_time::StartTime::update(') and bl is True:
                        sat = True
                    if kind == 'immediate' and 'PartialEq' in desc and '::eq(' in desc and 'StartTime::Immediate' in desc and bl is True:
                        sat = True
                    if kind == 'immediate' and 'PartialEq' in desc and '::ne(' in desc and 'StartTime::Immediate' in desc and bl is False:
                        sat = True          # `if *start_time != StartTime::Immediate { return false }`, not taken
                    if kind == 'immediate' and desc.startswith('discr(') and desc.endswith('.start_time)') and lab == 'Immediate':
                        sat = True          # `matches!(start_time, StartTime::Immediate)`
                if not sat:
                    ok = False
                    why = 'a path taking %s->%s does not pass the %s test; decisions: %s' % (a, b, kind, [d[1:] for d in dec])
                # the edge must report the change (update returns true)
                if ret_bool(ret, dec) is not True and ret is not None and 'True' not in str(ret):
                    ok = False
                    why = 'the edge %s->%s returns %s (the caller mirrors the state only on true)' % (a, b, ret)
            found += 1
            R.check(ok, 'B.SM.guard', '%s->%s' % (a, b), why, detail={'edge': [a, b], 'guard': kind, 'paths': len(paths)})
        R.floor('B.SM.guard', found, 5)
        # paths that do not change the state return false
        okf = True
        for s in names:
            for to, ret, dec, calls in upd[s]:
                if to == frozenset([s]) and ret_bool(ret, dec) is not False:
                    okf = False
        R.check(okf, 'B.SM.guard', 'unchanged-returns-false', 'update returns true on a path that keeps the state',
                detail='paths keeping the state return false')

    # ---- B.SM.consts: fade targets are the named constants
    consts = {'pause': 'decibels::Decibels::SILENCE', 'stop': 'decibels::Decibels::SILENCE', 'resume': 'decibels::Decibels::IDENTITY'}
    nconst = 0
    for m, cst in consts.items():
        body = F.body('%s::%s' % (PSM, m))
        if body is None:
            continue
        sets = calls_to(body, 'parameter::Parameter::<T>::set')
        for bb, t in sets:
            nconst += 1
            d = describe(body, t['args'][1]) if len(t['args']) > 1 else '?'
            R.check(('const ' + cst) in d and 'value::Value::Fixed' in d, 'B.SM.consts', m,
                    '%s sets the fade to %s, the life cycle requires exactly %s' % (m, d, cst),
                    detail={'method': m, 'target': d}, where=body.where(bb))
    R.floor('B.SM.consts', nconst, 3)
    fade_start(F, R)
    state_change_reported(F, R)

    # ---- B.SM.decode / B.C03.adv
    decode_rules(F, R)
    # ---- mirror, gates, unload
    sound_rules(F, R)
    drain_rule(F, R)


def fade_start(F, R, rule='B.SM.fade-start'):
    from ..paths import describe_rv
    # entering Pausing / Stopping / Resuming must start the fade on every path: the edge out of these states is only
    # taken when the fade tween reports completion, so a state entered without a tween is never left
    for m in ('pause', 'stop', 'resume'):
        body = F.body('%s::%s' % (PSM, m))
        if body is None:
            continue
        sets = blocks_of(calls_to(body, 'parameter::Parameter::<T>::set'))
        for bb, si, st in body.stmts():
            if st['k'] not in ('assign', 'setdiscr') or pretty_place(body, st['lhs']) != ST:
                continue
            var = describe_rv(body, st['rv']).split('::')[-1].split('(')[0] if st['k'] == 'assign' else '?'
            if var not in ('Pausing', 'Stopping', 'Resuming'):
                continue
            ok = bool(sets) and must_pass(body, [bb], returns(body), sets)
            R.check(ok, rule, '%s:%s' % (m, var),
                    '%s enters %s on a path that does not start the volume fade: update() leaves %s only when the fade tween finishes, '
                    'so the sound would stay in %s forever' % (m, var, var, var), detail={'method': m, 'state': var}, where=body.where(bb))



def state_change_reported(F, R, rule='B.SM.reported', only_to=None):
    """PlaybackStateManager::update tells its caller (true) on every path that leaves the manager in another state than it
    found it in: the owner publishes the state to the handle / the decoder thread only on true.  The relation is extracted
    with the flags a sound's constructor gives the manager."""
    names = state_names(F)
    if not R.check(names is not None, rule, 'anchor:State', 'enum playback_state_manager::State not found'):
        return
    flag_names, bindings, problems = owner_bindings(F)
    rel = extract(F, 'update', names, None, flags=bindings.get('sound', {}))
    if not R.check(rel is not None and 'sound' in bindings, rule, 'anchor:update', 'PlaybackStateManager::update / its constructor in the sound code not found'):
        return
    n = 0
    for s_ in names:
        for to, ret, dec, calls in rel[s_]:
            for b_ in sorted(to - frozenset([s_])):
                if only_to and b_ not in only_to:
                    continue
                n += 1
                R.check(ret_bool(ret, dec) is True or 'True' in str(ret), rule, 'reported:%s->%s' % (s_, b_),
                        'update() takes the edge %s->%s and returns %s: the owner mirrors the state to the handle and the decoder thread only when '
                        'update returns true, so the new state is never published' % (s_, b_, ret), detail={'edge': [s_, b_]})
    R.floor(rule, n, 5 if not only_to else 2)


def drain_rule(F, R):
    """"Every finite non-looping sound reaches Stopped": a static sound is marked as stopped when its transport has
    stopped AND the resampler has run empty, and the resampler runs empty only when it is fed `None`.  So whatever is
    pushed into the resampler must be `None` whenever the transport is not playing: the pushed Option is
    `transport.playing.then(..)` (or is built under a test of `transport.playing` whose false side yields None).  A push of
    `frame_at_index(..)` alone keeps feeding `Some(frame 0)` to a reversed sound parked at position 0, for ever."""
    from ..paths import parse_term
    n = 0
    for b in F.bodies:
        if b.krate != 'kira' or not b.path.startswith('sound::static_sound::sound::StaticSound::'):
            continue
        for bb, t in b.calls():
            if (callee_path(t) or '') != 'sound::static_sound::sound::resampler::Resampler::push_frame':
                continue
            n += 1
            d = describe(b, t['args'][1], depth=6, at=bb)
            name, args = parse_term(d)
            ok = name in ('core::bool::<impl bool>::then', 'core::bool::<impl bool>::then_some') and args \
                and args[0].endswith('transport.playing')
            if not ok:
                # explicit branch: the push is dominated by a test of transport.playing, and on its false side the value is None
                gates = [g for g in range(b.n) if b.blocks[g]['term']['k'] == 'switch' and b.dominates(g, bb)
                         and describe(b, b.blocks[g]['term']['op'], depth=3, at=g).endswith('transport.playing')]
                ok = bool(gates) and ('None' in d or 'multi(' in d)
                if ok:
                    ok = any(str(p.env.get(('d', op_local_(t['args'][1])), '')).endswith('None')
                             for p in explore(b) if bb in p.blocks
                             and any(dsc.endswith('transport.playing') and bool_label(l) is False for _, dsc, l in p.decisions))
            R.check(ok, 'B.C03.drain', b.path.split('::')[-1],
                    '%s pushes %s into the resampler: not None when the transport has stopped, so the resampler never runs empty and a '
                    'sound whose transport stops at a valid index (reverse playback reaching 0) never becomes Stopped' % (b.path, d[:100]),
                    detail={'pushed': d[:120]}, where=b.where(bb))
    R.floor('B.C03.drain', n, 1)
    pf = F.body('sound::static_sound::sound::resampler::Resampler::push_frame')
    em = F.body('sound::static_sound::sound::resampler::Resampler::empty')
    if R.check(pf is not None and em is not None, 'B.C03.drain', 'anchor:resampler', 'Resampler::push_frame / empty not found'):
        good = True
        why = ''
        for p in explore(pf):
            if p.end != 'return':
                continue
            some = None
            for bb, desc, lab in p.decisions:
                if 'is_some(' in desc and 'frame' in desc:
                    some = bool_label(lab)
                elif desc.startswith('discr(') and lab in ('Some', 'None') and 'frame' in desc:
                    some = (lab == 'Some')
            def val(s_):
                # the value stored: through a temporary assigned on several branches, the one this path assigned
                rv_ = s_['rv']
                if rv_['k'] == 'use' and 'pl' in rv_['op'] and not rv_['op']['pl']['p'] and ('d', rv_['op']['pl']['l']) in p.env:
                    return p.env[('d', rv_['op']['pl']['l'])]
                return describe_rv(pf, rv_, depth=4)
            st = [val(s) for x in p.blocks for s in pf.blocks[x]['stmts']
                  if s['k'] == 'assign' and s['lhs']['p'] and pretty_place(pf, s['lhs']).endswith('.time_until_empty')]
            if some is False and not (len(st) == 1 and 'saturating_sub(' in st[0] and st[0].rstrip(')').endswith(', 1')):
                good = False
                why = 'pushing None sets the countdown to %s, not countdown.saturating_sub(1)' % st
            if some is True and not (len(st) == 1 and st[0].isdigit() and int(st[0]) >= 1):
                good = False
                why = 'pushing Some(frame) sets the countdown to %s' % st
            if some is None:
                good = False
                why = 'push_frame does not distinguish Some from None'
        rets = [str(p.ret) for p in explore(em) if p.end == 'return']
        if rets != ['Eq((*self).time_until_empty, 0)']:
            good = False
            why = 'Resampler::empty returns %s' % rets
        R.check(good, 'B.C03.drain', 'resampler', 'the resampler does not count down to empty when it is fed None: %s' % why,
                detail='Some => 4; None => saturating_sub(1); empty() == (countdown == 0)', where=pf.file)


def op_local_(op):
    from ..facts import op_local
    return op_local(op)


def table_of(body):
    """For a function that is one `match` on an integer / discriminant: {label: returned description | 'diverge'}"""
    out = {}
    for pr in explore(body):
        if pr.end not in ('return', 'diverge'):
            continue
        lab = None
        for bb, desc, l in pr.decisions:
            lab = l
        out.setdefault(lab, set()).add(pr.ret if pr.end == 'return' else 'diverge')
    return out


def decode_rules(F, R):
    pub = F.adt('sound::PlaybackState')
    discr = {v['name']: v['discr'] for v in pub['variants']}
    n = 0
    for shared in ('sound::static_sound::sound::Shared', 'sound::streaming::sound::Shared'):
        b = F.body(shared + '::state')
        if not R.check(b is not None, 'B.SM.decode', 'anchor:' + shared, shared + '::state not found'):
            continue
        tab = table_of(b)
        n += 1
        ok = True
        why = ''
        for name, d in discr.items():
            got = tab.get(d)
            if got != {'sound::PlaybackState::' + name}:
                ok = False
                why = 'byte %s decodes to %s, the enum says PlaybackState::%s' % (d, got, name)
        if tab.get('otherwise') not in (None, {'diverge'}):
            ok = False
            why = 'unknown bytes decode to %s' % tab.get('otherwise')
        R.check(ok, 'B.SM.decode', shared + '::state', why, detail={'table': {k: sorted(v) for k, v in tab.items() if k}},
                where=b.file)
        sb = F.body(shared + '::set_state')
        if R.check(sb is not None, 'B.SM.decode', 'anchor:' + shared + '::set_state', 'set_state not found'):
            n += 1
            st = calls_to(sb, '::store')
            d = describe(sb, st[0][1]['args'][1]) if st else '?'
            R.check(d == 'discr(state)', 'B.SM.decode', shared + '::set_state',
                    'set_state stores %s, not the discriminant of its argument' % d, detail={'stored': d})
    R.floor('B.SM.decode', n, 4)
    b = F.body('sound::PlaybackState::is_advancing')
    if R.check(b is not None, 'B.C03.adv', 'anchor', 'PlaybackState::is_advancing not found'):
        tab = table_of(b)
        want = {'Playing': 'True', 'Pausing': 'True', 'Resuming': 'True', 'Stopping': 'True',
                'Paused': 'False', 'WaitingToResume': 'False', 'Stopped': 'False'}
        ok = True
        why = ''
        got_all = {}
        for name, w in want.items():
            got = tab.get(name) or tab.get('otherwise')
            got_all[name] = sorted(got) if got else None
            if got != {w}:
                ok = False
                why = 'is_advancing(%s) = %s, documented: %s' % (name, got, w)
        R.check(ok, 'B.C03.adv', 'table', why, detail=got_all, where=b.file)


SOUNDS = [('static', 'sound::static_sound::sound::StaticSound'), ('streaming', 'sound::streaming::sound::StreamingSound')]
CHANGERS = ('::pause', '::resume', '::stop', '::mark_as_stopped')


def mirror_calls(F, body):
    """Blocks that publish the manager's state to the shared atomic: a call to *Shared::set_state,
    or to a same-crate helper whose body contains such a call."""
    out = []
    for bb, t in body.calls():
        p = callee_path(t) or ''
        if p.endswith('Shared::set_state'):
            out.append(bb)
            continue
        cb = F.body(p)
        if cb is not None and cb.krate == 'kira' and cb is not body and cb.n <= 12:
            # a small same-crate helper that publishes the state (whatever it is called)
            if calls_to(cb, 'Shared::set_state') and calls_to(cb, PSM + '::playback_state'):
                out.append(bb)
    return out


def mirror_rule(F, R, owner_prefix, rule='B.SM.mirror'):
    """PAIR: every call that can change the manager's state is followed on all paths to return by a mirror call."""
    n = 0
    for body in F.bodies:
        if not body.path.startswith(owner_prefix) or body.krate != 'kira':
            continue
        mir = mirror_calls(F, body)
        for bb, t in body.calls():
            p = callee_path(t) or ''
            if not p.startswith(PSM + '::'):
                continue
            m = p[len(PSM):]
            if m in CHANGERS:
                n += 1
                nxt = [t['t']] if t.get('t') is not None else []
                ok = must_pass(body, nxt, returns(body), mir)
                R.check(ok, rule, '%s|%s' % (body.path, m.strip(':')),
                        '%s calls PlaybackStateManager%s but a path to return does not publish the new state to the handle'
                        % (body.path, m), detail={'fn': body.path, 'call': m.strip(':')}, where=body.where(bb))
            elif m == '::update':
                n += 1
                be = bool_edges(body, bb)
                if be is None:
                    R.bad(rule, '%s|update' % body.path,
                          'unrecognised-shape: the result of PlaybackStateManager::update is not branched on directly',
                          where=body.where(bb))
                    continue
                tb, fb = be
                ok = must_pass(body, [tb], returns(body), mir)
                R.check(ok, rule, '%s|update' % body.path,
                        '%s: when update() reports a state change a path to return does not publish it' % body.path,
                        detail={'fn': body.path, 'call': 'update->true'}, where=body.where(bb))
    return n


def silent_exit(F, R, body, start_bb, rule, key, allowed_extra=(), what='non-advancing state'):
    """From start_bb: every path returns after zero-filling the output — `out.fill(Frame::ZERO)` or an explicit loop over
    `out` that stores Frame::ZERO into every element — calling nothing else (+allowed) and storing to no field of self."""
    from ..paths import describe_rv
    reach = body.reachable([start_bb])
    fills = [bb for bb in reach if (callee_path(body.blocks[bb]['term']) or '').endswith('core::slice::<impl [T]>::fill')
             and body.blocks[bb]['term']['k'] == 'call']
    ok = True
    why = ''
    # explicit zeroing loops: for frame in out.iter_mut() { *frame = Frame::ZERO }
    zero_loops = []
    from .c02 import iter_source
    for l in body.loops():
        if l['header'] in reach:
            src = iter_source(body, l)
            stores = [s for x in l['blocks'] for s in body.blocks[x]['stmts'] if s['k'] == 'assign' and s['lhs']['p']]
            if 'out' in src and stores and all(s['lhs']['p'][0][0] == 'deref' and describe_rv(body, s['rv']) == 'const frame::Frame::ZERO' for s in stores):
                zero_loops.append(l)
    passing = fills + [l['header'] for l in zero_loops]
    if not passing or not must_pass(body, [start_bb], returns(body), passing):
        ok = False
        why = 'a path from the %s branch reaches return without zero-filling the output' % what
    for bb in fills:
        t = body.blocks[bb]['term']
        d = describe(body, t['args'][1]) if len(t['args']) > 1 else '?'
        if 'frame::Frame::ZERO' not in d:
            ok = False
            why = 'the %s branch fills the output with %s, not Frame::ZERO' % (what, d)
    plumbing = ('core::slice::<impl [T]>::fill', 'core::slice::<impl [T]>::iter_mut', 'std::iter::IntoIterator>::into_iter',
                "<std::slice::IterMut<'a, T> as std::iter::Iterator>::next")
    for bb, p in calls_in(body, reach):
        if p.endswith(plumbing):
            continue
        if any(p.endswith(a) for a in allowed_extra):
            continue
        ok = False
        why = 'the %s branch calls %s (it must only zero-fill and return)' % (what, p)
    st = stores_in(body, reach, lambda p: p.startswith('(*self).'))
    if st:
        ok = False
        why = 'the %s branch writes %s' % (what, st[0][3])
    zl_blocks = set(x for l in zero_loops for x in l['blocks'])
    for bb in reach:
        if body.in_loop(bb) and bb not in zl_blocks:
            ok = False
            why = 'the %s branch enters a loop that is not a zero-fill of the output' % what
            break
    R.check(ok, rule, key, '%s: %s' % (body.path, why), detail={'fn': body.path, 'branch': what, 'blocks': len(reach)},
            where=body.where(start_bb))


def sound_rules(F, R):
    n = 0
    for tag, owner in SOUNDS:
        n += mirror_rule(F, R, owner)
        n += mirror_rule(F, R, '<%s as sound::Sound>' % owner)
    R.floor('B.SM.mirror', n, 13)

    ng = 0
    for tag, owner in SOUNDS:
        body = F.body('<%s as sound::Sound>::process' % owner)
        if not R.check(body is not None, 'B.C03.gate', 'anchor:' + tag, 'Sound::process of %s not found' % owner):
            continue
        # is_advancing gate
        adv = calls_to(body, 'sound::PlaybackState::is_advancing')
        if R.check(len(adv) == 1, 'B.C03.gate', tag + ':is_advancing-site',
                   '%d calls of is_advancing in %s (expected one gate)' % (len(adv), body.path)):
            be = bool_edges(body, adv[0][0])
            if be is None:
                R.bad('B.C03.gate', tag + ':is_advancing', 'unrecognised-shape: is_advancing() result not branched on',
                      where=body.where(adv[0][0]))
            else:
                ng += 1
                silent_exit(F, R, body, be[1], 'B.C03.gate', tag + ':is_advancing', what='!is_advancing()')
                # the gate precedes the per-frame loop
                loops = body.loops()
                ok = all(not body.in_loop(adv[0][0]) for _ in [0]) and bool(loops)
                R.check(ok, 'B.C03.gate', tag + ':gate-before-loop', 'the is_advancing gate sits inside a loop',
                        detail='gate is outside every loop')
        # start-time gate: `self.start_time != StartTime::Immediate`
        ne = [(bb, t) for bb, t in calls_where(
            body, lambda p, t: t['callee'].get('name') == 'ne' and 'start_time::StartTime' in ' '.join(t['callee'].get('args', [])))]
        if R.check(len(ne) == 1, 'B.C03.gate', tag + ':start-time-site',
                   '%d comparisons of start_time in %s (expected one gate)' % (len(ne), body.path)):
            d = describe(body, ne[0][1]['args'][1])
            be = bool_edges(body, ne[0][0])
            if be is None or 'StartTime::Immediate' not in d:
                R.bad('B.C03.gate', tag + ':start-time', 'unrecognised-shape: start-time gate (%s)' % d, where=body.where(ne[0][0]))
            else:
                ng += 1
                silent_exit(F, R, body, be[0], 'B.C03.gate', tag + ':start-time', what='start time pending')
        # the "will never start" outcome marks the sound stopped and mirrors it (C05.cancel shares this)
        su = calls_to(body, 'start_time::StartTime::update')
        if R.check(len(su) == 1, 'B.C03.gate', tag + ':start-update-site', 'StartTime::update call not found once'):
            be = bool_edges(body, su[0][0])
            if be is None:
                R.bad('B.C03.gate', tag + ':never', 'unrecognised-shape: StartTime::update result not branched on')
            else:
                ng += 1
                ms = blocks_of(calls_to(body, PSM + '::mark_as_stopped'))
                # from the true edge, mark_as_stopped must be passed before anything else that returns
                ok = must_pass(body, [be[0]], returns(body), ms)
                R.check(ok, 'B.C03.gate', tag + ':never->stopped',
                        '%s: when the start time can never come the sound is not marked Stopped on every path' % body.path,
                        detail='will_never_start => mark_as_stopped', where=body.where(su[0][0]))
    R.floor('B.C03.gate', ng, 6)
    # 'every finite non-looping sound reaches its natural end': a sound that is advancing plays - the only exits of process()
    # that skip the per-frame loop (where the playhead moves and the end is noticed) are the documented silent ones: start
    # time pending, state not advancing, and for a streaming sound a decoder error or an empty ring buffer
    for tag, owner in SOUNDS:
        body = F.body('<%s as sound::Sound>::process' % owner)
        if body is None:
            continue
        loops = [l for l in body.loops() if any((callee_path(body.blocks[x]['term']) or '') == 'parameter::Parameter::<T>::interpolated_value' for x in l['blocks'])]
        if not R.check(bool(loops), 'B.C03.gate', tag + ':anchor:frame-loop', 'per-frame loop of %s not found' % body.path):
            continue
        L = max(loops, key=lambda l: len(l['blocks']))
        silent = []
        for callee, side in (('sound::PlaybackState::is_advancing', 1), ('Shared::encountered_error', 0), ('Shared::reached_end', 1)):
            for x, t in body.calls():
                if (callee_path(t) or '').endswith(callee) and not body.in_loop(x):
                    be = bool_edges(body, x)
                    if be is not None:
                        silent.append(be[side])
        for x, t in body.calls():
            if t['callee'].get('name') == 'ne' and 'start_time::StartTime' in ' '.join(t['callee'].get('args', [])):
                be = bool_edges(body, x)
                if be is not None:
                    silent.append(be[0])
        from ..rules import must_pass_f
        skipped = [r for r in body.return_blocks() if not must_pass_f(body, [r], [L['header']] + silent)]
        R.check(not skipped, 'B.C03.gate', tag + ':no-other-exit',
                '%s can return at %s without running its per-frame loop and not through one of the documented silent exits: while that '
                'path is taken the playhead stands still and the end of the sound is never noticed' % (body.path, body.where(skipped[0]) if skipped else ''),
                detail={'silent_exits': len(silent)}, where=body.file)

    # unload: finished() == (state == Stopped); owners remove with Sound::finished
    nu = 0
    for tag, owner in SOUNDS:
        b = F.body('<%s as sound::Sound>::finished' % owner)
        if not R.check(b is not None, 'B.C03.unload', 'anchor:' + tag, 'finished() not found'):
            continue
        nu += 1
        prs = [p for p in explore(b) if p.end == 'return']
        rets = set(p.ret for p in prs)
        ok = len(rets) == 1 and all('::eq(' in r and 'PlaybackStateManager::playback_state' in r or True for r in rets)
        d = list(rets)[0] if rets else '?'
        rhs = describe_eq_rhs(b)
        ok = ('sound::PlaybackState' in d and '::eq' in d) and 'Stopped' in rhs
        if not ok and len(prs) >= 2:
            # `matches!(self.playback_state_manager.playback_state(), PlaybackState::Stopped)`: true on the Stopped arm only
            def arm(p):
                ds = [(desc, lab) for _, desc, lab in p.decisions]
                return ds[0] if len(ds) == 1 and ds[0][0].startswith('discr(') and 'PlaybackStateManager::playback_state(' in ds[0][0] else None
            arms = [(arm(p), str(p.ret)) for p in prs]
            ok = all(a is not None and r in ('True', 'False') and (r == 'True') == (a[1] == 'Stopped') for a, r in arms) \
                and any(r == 'True' for _, r in arms)
        R.check(ok, 'B.C03.unload', tag + ':finished', 'finished() is %s, not `playback_state() == Stopped`' % d,
                detail={'finished': d, 'rhs': describe_eq_rhs(b)}, where=b.file)
    for owner in ('track::sub::Track', 'track::main::MainTrack'):
        b = F.body(owner + '::on_start_processing')
        if not R.check(b is not None, 'B.C03.unload', 'anchor:' + owner, 'on_start_processing not found'):
            continue
        ra = [(bb, t) for bb, t in calls_to(b, 'ResourceStorage::<T>::remove_and_add')
              if 'sounds' in (self_field_of_call(b, t, 0) or '')]
        if R.check(len(ra) == 1, 'B.C03.unload', owner + ':remove-site', 'no remove_and_add on the sounds storage'):
            nu += 1
            # the predicate closure calls Sound::finished
            cl = [c for c in F.closures_of(b.path)]
            hit = [c for c in cl if calls_to(c, 'sound::Sound::finished')]
            R.check(len(hit) >= 1, 'B.C03.unload', owner + ':predicate',
                    '%s removes sounds with a predicate that does not call Sound::finished' % owner,
                    detail='sounds.remove_and_add(|s| s.finished())', where=b.where(ra[0][0]))
            # "unloaded at the next callback": the sweep runs in every callback, whatever state the track is in
            R.check(all(b.dominates(ra[0][0], r) for r in b.return_blocks()) and not b.in_loop(ra[0][0]), 'B.C03.unload', owner + ':every-callback',
                    '%s::on_start_processing can return without sweeping its sounds: a Stopped sound stays loaded (and keeps its slot) '
                    'while that path is taken' % owner, detail='sounds.remove_and_add on every path', where=b.where(ra[0][0]))
    R.floor('B.C03.unload', nu, 4)


def describe_eq_rhs(b):
    for bb, t in b.calls():
        p = callee_path(t) or ''
        if p.endswith('::eq') and len(t['args']) > 1:
            return describe(b, t['args'][1])
    return '?'


def lifecycle_readers(F, R):
    """Every callback polls all three life-cycle readers of a sound, in the order pause, resume, stop, on every path: a
    handler that returns after one of them leaves the others' commands unread until the next callback, where they are
    applied late and override the later command (a stale pause after a stop: the sound never reaches Stopped)."""
    from .c09 import reader_sequence
    from ..rules import must_pass
    n = 0
    for tag, owner in (('static', 'sound::static_sound::sound::StaticSound'), ('streaming', 'sound::streaming::sound::StreamingSound')):
        ob = F.body('<%s as sound::Sound>::on_start_processing' % owner)
        rd = None
        if ob is not None:
            for bb, t in ob.calls():
                cb = F.body(callee_path(t) or '')
                if cb is not None and cb.krate == 'kira' and any((callee_path(tt) or '') == 'command::CommandReader::<T>::read' for _, tt in cb.calls()):
                    rd = cb
            if rd is None and any((callee_path(tt) or '') == 'command::CommandReader::<T>::read' for _, tt in ob.calls()):
                rd = ob
        if not R.check(rd is not None, 'B.C03.readers', 'anchor:' + tag, 'the function in which the %s sound polls its command readers was not found' % tag):
            continue
        n += 1
        q = [x for x in reader_sequence(rd) if x in ('pause', 'resume', 'stop')]
        from .c07 import origin_pl, last_field
        every = True
        for bb, t in rd.calls():
            if (callee_path(t) or '') == 'command::CommandReader::<T>::read':
                lf = last_field(origin_pl(rd, t['args'][0]) or {})
                if lf and lf[0] in ('pause', 'resume', 'stop') and not must_pass(rd, [0], rd.return_blocks(), [bb]):
                    every = False
        R.check(q == ['pause', 'resume', 'stop'] and every, 'B.C03.readers', tag,
                'the %s sound polls its life-cycle readers as %s%s (required: pause, resume, stop, each on every path)'
                % (tag, q, '' if every else ', and a path to return skips one of them'), detail={'order': q}, where=rd.file)
    R.floor('B.C03.readers', n, 2)


def fade_continuity(F, R, rule='B.SM.fade-continuity'):
    """The gain moves monotonically / a new tween begins from the current, possibly mid-tween, value: the fade parameter
    of a PlaybackStateManager is built once, in a constructor, and afterwards only ever *told a new target*
    (`volume_fade.set(..)`), which starts from wherever the gain is.  Replacing the parameter in pause / resume / stop
    restarts the fade from a fixed value: a resume during a pause fade-out (or a redundant resume) makes the level jump."""
    PSM = 'playback_state_manager::PlaybackStateManager'
    n = 0
    bad = []
    for b in F.bodies:
        if b.krate != 'kira' or not b.path.startswith(PSM + '::'):
            continue
        n += 1
        ctor = any(s2['k'] == 'assign' and s2['rv']['k'] == 'agg' and s2['rv'].get('adt') == PSM for _, _, s2 in b.stmts())
        for bb, si, s2 in b.stmts():
            if s2['k'] == 'assign' and s2['lhs']['p'] and pretty_place(b, s2['lhs']) == '(*self).volume_fade' and not ctor:
                bad.append('%s assigns self.volume_fade' % b.path)
    sets = [b.path for b in F.bodies if b.krate == 'kira' and b.path.startswith(PSM + '::')
            for _, t in b.calls() if (callee_path(t) or '') == 'parameter::Parameter::<T>::set']
    # ... and with the tween the caller asked for: the tween handed to `set` is the function's (or closure's) own tween
    # argument, passed through untouched - its start time, duration and easing are the caller's
    from ..facts import op_local
    for b in F.bodies:
        if b.krate != 'kira' or not b.path.startswith(PSM + '::'):
            continue
        for bb, t in b.calls():
            if (callee_path(t) or '') != 'parameter::Parameter::<T>::set' or len(t['args']) < 3:
                continue
            l = op_local(t['args'][2])
            pl0 = t['args'][2].get('pl') if isinstance(t['args'][2], dict) else None
            if l is None and pl0 is not None and all(x[0] in ('downcast', 'field', 'deref') for x in pl0['p']):
                l = pl0['l']
            # locals a part of which is overwritten (`tween.duration = ..`): no longer the caller's tween
            patched = set(s3['lhs']['l'] for _, _, s3 in b.stmts() if s3['k'] == 'assign' and s3['lhs']['p']
                          and s3['lhs']['p'][0][0] == 'field')
            touched = False
            for _ in range(6):
                if l in patched:
                    touched = True
                d = b.single_def(l) if l is not None else None
                if l is not None and 1 <= l <= b.arg_count:
                    break
                if d and d[0] == 'stmt' and d[3]['rv']['k'] == 'use' and 'pl' in d[3]['rv']['op']:
                    # a copy of a variable, or of the payload of one (`match fade_in_tween { Some(tween) => .. }`)
                    pr = d[3]['rv']['op']['pl']['p']
                    if all(x[0] in ('downcast', 'field', 'deref') for x in pr):
                        l = d[3]['rv']['op']['pl']['l']
                        continue
                break
            if l in patched:
                touched = True
            if touched:
                bad.append('%s changes a field of the tween before it hands it to Parameter::set (duration, start time and easing are the caller\'s)' % b.path)
            if not (l is not None and 1 <= l <= b.arg_count):
                bad.append('%s hands Parameter::set a tween it built itself (%s), not the caller\'s' % (b.path, describe(b, t['args'][2], depth=3, at=bb)[:60]))
    for b in F.bodies:
        if b.krate == 'kira' and b.path.startswith(PSM + '::'):
            for bb, si, s2 in b.stmts():
                if s2['k'] == 'assign' and s2['rv']['k'] == 'agg' and s2['rv'].get('adt') == 'tween::Tween':
                    bad.append('%s builds a Tween of its own (the fades run with the tweens the caller gave, start time included)' % b.path)
    R.check(not bad and len(sets) >= 3, rule, 'volume_fade', '; '.join(bad) or 'pause / resume / stop do not retarget the fade with Parameter::set (found %d)' % len(sets),
            detail={'methods': n, 'set_calls': len(sets)})


SOUND_OWNERS = (('static', 'sound::static_sound::sound::StaticSound'), ('streaming', 'sound::streaming::sound::StreamingSound'))
TRACK_OWNERS = (('track', 'track::sub::Track'),)


def commands_reach_manager(F, R, rule='B.C03.cmd-applied', owners=SOUND_OWNERS, floor=6):
    """A pause / resume / stop command that was read is handed to the state machine, whatever the current state: under
    the Some edge of each life-cycle reader every path reaches `PlaybackStateManager::<same name>` (the state machine
    itself decides what a command means in each state, identically for both kinds of sound; a handler that short-cuts -
    e.g. marks a paused streaming sound Stopped at once instead of Stopping for the length of the fade - makes the two
    kinds of sound report different states)."""
    from ..rules import some_edge
    from .c07 import origin_pl, last_field
    n = 0
    for tag, owner in owners:
        v = F.inlined_view(owner + '::read_commands', depth=2, pred=lambda hp: hp.startswith(owner + '::'))
        if v is None and owner.startswith('sound::'):
            v = F.inlined_view('<%s as sound::Sound>::on_start_processing' % owner, depth=3, pred=lambda hp: hp.startswith(owner + '::'))
        if v is None:
            v = F.inlined_view(owner + '::on_start_processing', depth=3, pred=lambda hp: hp.startswith(owner + '::') and not hp.endswith('::on_start_processing'))
        if not R.check(v is not None, rule, 'anchor:' + tag, 'command reading of the %s sound not found' % tag):
            continue
        # ... with the tween the command carried: the command handlers build no tween of their own and change no field of one
        built = [1 for _, _, s2 in v.stmts() if s2['k'] == 'assign' and s2['rv']['k'] == 'agg' and s2['rv'].get('adt') == 'tween::Tween']
        patched = [pretty_place(v, s2['lhs']) for _, _, s2 in v.stmts() if s2['k'] == 'assign' and s2['lhs']['p'] and s2['lhs']['p'][0][0] == 'field'
                   and (v.locals[s2['lhs']['l']].get('ty') or '') == 'tween::Tween']
        R.check(not built and not patched, rule, '%s:tween-untouched' % tag, 'the %s command handlers build / alter a Tween (%s): a life-cycle command runs with the tween '
                'the caller gave' % (tag, (['Tween { .. }'] if built else []) + patched[:2]), detail='pause / resume / stop hand on the command\'s own tween', where=v.file)
        for x, t in v.calls():
            if (callee_path(t) or '') != 'command::CommandReader::<T>::read':
                continue
            lf = last_field(origin_pl(v, t['args'][0]) or {})
            if not lf or lf[0] not in ('pause', 'resume', 'stop'):
                continue
            n += 1
            se = some_edge(v, x)
            ok = False
            if se is not None:
                none_side = set()
                some_side = v.reachable([se])
                tgt = [y for y, t2 in v.calls() if (callee_path(t2) or '') == 'playback_state_manager::PlaybackStateManager::' + lf[0] and y in some_side]
                # exits of the Some side: the next reader's read, or a return
                nxt = [y for y, t2 in v.calls() if (callee_path(t2) or '') == 'command::CommandReader::<T>::read' and y in some_side and y != x]
                ok = bool(tgt) and must_pass(v, [se], nxt + v.return_blocks(), tgt)
            R.check(ok, rule, '%s:%s' % (tag, lf[0]), 'the %s sound does not hand every `%s` command it reads to PlaybackStateManager::%s' % (tag, lf[0], lf[0]),
                    detail={'reader': lf[0]}, where=v.file)
            # ... and the command is looked for in every callback, whatever state the owner is in (a handle that has been
            # dropped may have written its last command just before)
            R.check(must_pass(v, [0], v.return_blocks(), [x]), rule, '%s:%s:polled' % (tag, lf[0]),
                    'the %s command reading can return without having polled `%s`: a command written before that path was taken is never applied' % (tag, lf[0]),
                    detail={'reader': lf[0]}, where=v.file, nontrivial=False)
    R.floor(rule, n, floor)


def finite_length(F, R):
    """"Every finite non-looping sound reaches Stopped": the length a static sound plays to never exceeds the audio that
    exists - `num_frames(frames, slice)` is `frames.len()` without a slice and otherwise bounded by it (`end.min(frames.len())`).
    The slice is a public field; an unclamped `end - start` lets the transport run past the audio, playing silence for ever."""
    b = F.body('sound::static_sound::data::num_frames')
    if not R.check(b is not None, 'B.C03.finite-length', 'anchor', 'static_sound::data::num_frames not found'):
        return
    rets = [str(p.ret) for p in explore(b) if p.end == 'return']
    ok = bool(rets) and all('len(' in r and 'frames' in r for r in rets)
    R.check(ok, 'B.C03.finite-length', 'num_frames', 'num_frames returns %s: a length not bounded by the audio' % [r[:80] for r in rets if not ('len(' in r and 'frames' in r)][:2],
            detail={'returns': [r[:100] for r in rets]}, where=b.file)
