"""C01, output clauses: every value written to the device chunk is clamped (or 0.0), mono is the mean of the
clamped channels, and every element of a frame's channel slice is assigned.

The rule is written over types and dataflow, not over the names of locals: the device buffer is whatever is reached
through a `&mut [f32]` / `&mut f32` in Renderer::process_chunk (and in closures it hands to iterator consumers); the
frame is the `Frame` local whose two fields are replaced by their own clamp(-1.0, 1.0)."""
from ..paths import describe, describe_rv, pretty_place, origin_def
from ..rules import calls_to, must_pass, closure_args
from ..facts import callee_path, const_value, is_const, is_place, operand_place
from ..rt import const_of, dead_end

F32_REFS = ('&mut [f32]', '&mut f32')


def local_ty(b, l):
    ls = b.j.get('locals') or []
    return ls[l].get('ty') if 0 <= l < len(ls) else None


def device_stores(b):
    """Assignments through a `&mut [f32]` / `&mut f32` local: [(bb, stmt)]."""
    out = []
    for bb, si, s in b.stmts():
        if s['k'] != 'assign' or not s['lhs']['p'] or s['lhs']['p'][0][0] != 'deref':
            continue
        if local_ty(b, s['lhs']['l']) in F32_REFS and s['lhs'].get('ty') == 'f32':
            out.append((bb, s))
    return out


def run_out(ctx, R, F):
    b = F.body('backend::renderer::Renderer::process_chunk')
    if not R.check(b is not None, 'B.C01.range', 'anchor', 'Renderer::process_chunk not found'):
        return
    # 1. the two clamps: X.left = clamp(X.left, -1, 1), X.right likewise, X a Frame local
    clamp_blocks = {}
    cands = {}
    for bb, si, s in b.stmts():
        if s['k'] != 'assign' or local_ty(b, s['lhs']['l']) != 'frame::Frame':
            continue
        fld = s['lhs']['p'][0][2] if len(s['lhs']['p']) == 1 and s['lhs']['p'][0][0] == 'field' else None
        d = describe_rv(b, s['rv'], depth=3, at=bb)
        if fld in ('left', 'right') and d == 'core::f32::<impl f32>::clamp(_%d.%s, -1.0, 1.0)' % (s['lhs']['l'], fld):
            cands.setdefault(s['lhs']['l'], {})[fld] = (bb, si)
    frames = [l for l, m in cands.items() if set(m) == {'left', 'right'}]
    # two forms: the frame's channels are clamped in place (`frame.left = frame.left.clamp(-1.0, 1.0)`), or the clamped
    # channels are values of their own (`let left = frame.left.clamp(-1.0, 1.0)`) - then the stored values say so themselves
    import re as _re
    inplace = len(frames) == 1
    fl = frames[0] if inplace else None
    CL = _re.compile(r'core::f32::<impl f32>::clamp\(((?:[^(),]|\([^()]*\))+)\.(left|right), -1\.0, 1\.0\)')

    def canon(d):
        if inplace:
            d = d.replace('_%d.left' % fl, 'L').replace('_%d.right' % fl, 'R')
        else:
            d = CL.sub(lambda m: 'L' if m.group(2) == 'left' else 'R', d)
        return d
    if inplace:
        clamp_sites = set(cands[fl].values())
        cl, cr = cands[fl]['left'][0], cands[fl]['right'][0]
        other_frame_stores = []
        for bb, si, s in b.stmts():
            if s['k'] == 'assign' and s['lhs']['l'] == fl and (bb, si) not in clamp_sites:
                other_frame_stores.append((bb, pretty_place(b, s['lhs']), describe_rv(b, s['rv'], depth=3, at=bb)))
        late = [x for x in other_frame_stores if not (b.dominates(x[0], cl) and b.dominates(x[0], cr))]
        R.check(not late, 'B.C01.range', 'no-late-writes', 'frame is written again after the clamp: %s' % late[:2], detail='no store to frame after the clamps')
    # 2. every store into the device chunk: in the body, and in closures handed to calls of the body
    n = 0
    stores = [(bb, s, None) for bb, s in device_stores(b)]
    for bb, t in b.calls():
        for c in closure_args(F, b, t):
            for cbb, s in device_stores(c):
                stores.append((bb, s, c))
    allowed = {'L': 'left', 'R': 'right', 'Div(Add(L, R), 2.0)': 'mean', '0.0': 'zero'}

    def value_of(bb, s, c):
        return canon(describe_rv(c if c is not None else b, s['rv'], depth=4 if inplace else 7, at=bb if c is None else None))
    vals = [value_of(bb, s, c) for bb, s, c in stores if c is None]
    R.check(inplace or ('L' in vals and 'R' in vals), 'B.C01.range', 'clamp',
            'neither is a Frame local clamped in place (left and right replaced by clamp(-1.0, 1.0)) before the conversion, nor are the values '
            'written to the device the clamped channels themselves (in-place candidates %s, values %s)' % ({l: sorted(m) for l, m in cands.items()}, [v[:50] for v in vals][:4]),
            detail='frame.left = frame.left.clamp(-1.0, 1.0); frame.right likewise', where=b.file)
    if not (inplace or ('L' in vals and 'R' in vals)):
        return
    for bb, s, c in stores:
        n += 1
        d = value_of(bb, s, c)
        kind = allowed.get(d)
        if c is not None and kind != 'zero':
            kind = None  # a closure does not see the clamped frame
        dom = kind == 'zero' or not inplace or (b.dominates(cl, bb) and b.dominates(cr, bb))
        R.check(kind is not None and dom, 'B.C01.range', 'store#%d:%s' % (n, kind or 'other'),
                'the device buffer receives %s%s: not a clamped channel, the mean of the two clamped channels, or 0.0' % (d[:100], '' if dom else ' (not after the clamp)'),
                detail={'value': d, 'range': '[-1, 1] or NaN' if kind != 'zero' else '0'}, where=b.where(bb))
    R.floor('B.C01.range', n, 4)
    # 3. coverage of a frame's channel slice
    sw = None
    for x in range(b.n):
        t = b.blocks[x]['term']
        if t['k'] == 'switch' and not b.blocks[x]['cleanup']:
            d = describe(b, t['op'], depth=3, at=x)
            if d in ('Eq(1, num_channels)', 'Ne(1, num_channels)', 'Eq(1, _3)', 'Ne(1, _3)'):
                sw = (x, d, t)
    if not R.check(sw is not None, 'B.C01.cover', 'anchor', 'the num_channels == 1 branch was not found'):
        return
    x, d, t = sw
    tgt0 = dict(t['targets']).get('0')
    mono_t, multi_t = (t['otherwise'], tgt0) if d.startswith('Eq') else (tgt0, t['otherwise'])
    L = min(b.in_loop(x), key=lambda l: len(l['blocks']))

    def idx_stores(start):
        reach = b.reachable([start], stop=[L['header']]) - {L['header']}
        out = {}
        for bb, s, c in stores:
            if bb in reach:
                last = s['lhs']['p'][-1]
                v = value_of(bb, s, c)
                if c is None and last[0] == 'index':
                    out[const_of(b, {'k': 'copy', 'pl': {'l': last[1], 'p': []}})] = v
                elif c is None and last[0] == 'cidx':
                    out[last[1]] = v
                else:
                    out['*'] = v
        return out, reach
    mono, _ = idx_stores(mono_t)
    multi, mreach = idx_stores(multi_t)
    R.check(mono == {0: 'Div(Add(L, R), 2.0)'}, 'B.C01.cover', 'mono',
            'with one channel the sample is %s, not the mean of left and right at index 0' % mono, detail=mono)
    okm = multi.get(0) == 'L' and multi.get(1) == 'R' and multi.get('*') == '0.0'
    R.check(okm, 'B.C01.cover', 'multi', 'with several channels the stores are %s (expected [0]=left, [1]=right, rest=0.0)' % multi, detail={str(k): v for k, v in multi.items()})
    # the "rest": the zero store runs for every element of channels.iter_mut().skip(2) -- as the body of a loop over
    # that iterator, or as the closure of an iterator consumer (for_each) called on it
    sk = [(bb, tt) for bb, tt in b.calls() if (callee_path(tt) or '') == 'std::iter::Iterator::skip' and bb in mreach]
    oks = False
    if len(sk) == 1 and describe(b, sk[0][1]['args'][1]) == '2':
        d0, _ = origin_def(b, sk[0][1]['args'][0])
        if d0 and d0[0] == 'call' and (callee_path(d0[2]) or '') == 'core::slice::<impl [T]>::iter_mut':
            # the slice iterated is the same `&mut [f32]` the indexed stores go through
            pl = operand_place(b, d0[2]['args'][0])
            idx_bases = set(s['lhs']['l'] for bb, s, c in stores if c is None and bb in mreach and s['lhs']['p'][-1][0] in ('index', 'cidx'))
            src_it = describe(b, d0[2]['args'][0], depth=3, at=sk[0][0]).replace('&', '')
            def storage(p0):
                """the place a reference-typed local / place finally borrows (through moves and reborrows)"""
                cur = p0
                for _ in range(8):
                    if cur['p'] and not (len(cur['p']) == 1 and cur['p'][0][0] == 'deref'):
                        return cur['s'] if cur['p'][-1][0] != 'deref' else cur['s']
                    d_ = b.single_def(cur['l'])
                    if not d_ or d_[0] != 'stmt':
                        return cur['s']
                    rv_ = d_[3]['rv']
                    if rv_['k'] == 'use' and 'pl' in rv_['op']:
                        cur = rv_['op']['pl']
                    elif rv_['k'] in ('ref', 'rawptr'):
                        cur = rv_['pl']
                    else:
                        return cur['s']
                return cur['s']
            for ch in idx_bases:
                src_ch = describe(b, {'k': 'copy', 'pl': {'l': ch, 'p': []}}, depth=3, at=sk[0][0]).replace('&', '')
                if src_ch == src_it or (pl is not None and pl['l'] == ch):
                    oks = True
                if not oks and pl is not None and storage(pl).strip('(*)') == storage({'l': ch, 'p': [], 's': '_%d' % ch}).strip('(*)'):
                    oks = True
                d1 = b.single_def(ch)
                if not oks and pl is not None and d1 and d1[0] == 'stmt' and d1[3]['rv']['k'] == 'use' and 'pl' in d1[3]['rv']['op']:
                    from ..facts import expand_place
                    oks = pl['s'] == '(*%s)' % expand_place(b, d1[3]['rv']['op']['pl'])['s']
        if oks:
            # the consumer of the skip() result: a `next` loop containing the zero store, or for_each with the zero closure
            zero = [(bb, s, c) for bb, s, c in stores if bb in mreach and (c is not None or s['lhs']['p'][-1][0] == 'deref')]
            oks = False
            for bb, s, c in zero:
                if c is not None:
                    cp = callee_path(b.blocks[bb]['term']) or ''
                    recv, _ = origin_def(b, b.blocks[bb]['term']['args'][0])
                    if cp.endswith('Iterator::for_each') and recv and recv[0] == 'call' and recv[1] == sk[0][0]:
                        oks = True
                else:
                    inner = [l for l in b.in_loop(bb) if l['header'] != L['header']]
                    if inner and sk[0][0] not in min(inner, key=lambda l: len(l['blocks']))['blocks'] and b.dominates(sk[0][0], bb):
                        oks = True
    R.check(oks, 'B.C01.cover', 'rest', 'channels beyond the second are not silenced through channels.iter_mut().skip(2)', detail='for channel in channels.iter_mut().skip(2) { *channel = 0.0 }')
    # both branches rejoin and nothing skips them: from the switch, the loop header is only reached through a store block
    sb = [bb for bb, s, c in stores]
    R.check(must_pass(b, [mono_t, multi_t], [L['header']], sb), 'B.C01.cover', 'every-iteration',
            'an iteration of the conversion loop can complete without writing the frame', detail='every path through the loop body writes')
