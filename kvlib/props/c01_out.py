"""C01, output clauses: every value written to the device chunk is clamped (or 0.0), mono is the mean of the
clamped channels, and every element of a frame's channel slice is assigned."""
from ..paths import describe, describe_rv, pretty_place
from ..rules import calls_to, must_pass
from ..facts import callee_path, const_value, is_const, is_place
from ..rt import const_of, dead_end


def run_out(ctx, R, F):
    b = F.body('backend::renderer::Renderer::process_chunk')
    if not R.check(b is not None, 'B.C01.range', 'anchor', 'Renderer::process_chunk not found'):
        return
    frame = [l for l, n in b.names.items() if n == 'frame']
    chans = [l for l, n in b.names.items() if n in ('channels', 'channel')]
    if not R.check(len(frame) == 1 and len(chans) >= 1, 'B.C01.range', 'anchor:locals', 'frame / channels locals not found'):
        return
    fl = frame[0]
    # 1. the two clamps
    clamp_blocks = {}
    other_frame_stores = []
    for bb, si, s in b.stmts():
        if s['k'] != 'assign' or s['lhs']['l'] != fl:
            continue
        fld = s['lhs']['p'][0][2] if s['lhs']['p'] and s['lhs']['p'][0][0] == 'field' else None
        d = describe_rv(b, s['rv'], depth=3, at=bb)
        if fld in ('left', 'right') and d == 'core::f32::<impl f32>::clamp(_%d.%s, -1.0, 1.0)' % (fl, fld):
            clamp_blocks[fld] = bb
        else:
            other_frame_stores.append((bb, fld, d))
    ok = set(clamp_blocks) == {'left', 'right'}
    R.check(ok, 'B.C01.range', 'clamp', 'frame.left / frame.right are not both replaced by clamp(-1.0, 1.0) before conversion (found %s)' % sorted(clamp_blocks),
            detail='frame.left = frame.left.clamp(-1.0, 1.0); frame.right likewise', where=b.file)
    if not ok:
        return
    cl, cr = clamp_blocks['left'], clamp_blocks['right']
    late = [x for x in other_frame_stores if not (b.dominates(x[0], cl) and b.dominates(x[0], cr))]
    R.check(not late, 'B.C01.range', 'no-late-writes', 'frame is written again after the clamp: %s' % late[:2], detail='no store to frame after the clamps')
    # 2. every store into the device chunk
    n = 0
    stores = []
    for bb, si, s in b.stmts():
        if s['k'] != 'assign' or not s['lhs']['p']:
            continue
        p = pretty_place(b, s['lhs'])
        base_l = s['lhs']['l']
        if base_l in chans or any(('_%d' % c) in s['lhs']['s'] for c in chans):
            stores.append((bb, s, p))
    for bb, s, p in stores:
        n += 1
        d = describe_rv(b, s['rv'], depth=4, at=bb)
        allowed = {'_%d.left' % fl: 'left', '_%d.right' % fl: 'right', 'Div(Add(_%d.left, _%d.right), 2.0)' % (fl, fl): 'mean', '0.0': 'zero'}
        kind = allowed.get(d)
        dom = kind == 'zero' or (b.dominates(cl, bb) and b.dominates(cr, bb))
        R.check(kind is not None and dom, 'B.C01.range', 'store#%d:%s' % (n, kind or 'other'),
                'the device buffer receives %s%s: not a clamped channel, the mean of the two clamped channels, or 0.0' % (d[:100], '' if dom else ' (not after the clamp)'),
                detail={'value': d, 'range': '[-1, 1] or NaN' if kind != 'zero' else '0'}, where=b.where(bb))
    R.floor('B.C01.range', n, 4)
    # 3. coverage of a frame's channel slice
    sw = None
    for x in range(b.n):
        t = b.blocks[x]['term']
        if t['k'] == 'switch' and not b.blocks[x]['cleanup']:
            d = describe(b, t['op'], depth=3, at=x)
            if d in ('Eq(num_channels, 1)', 'Ne(num_channels, 1)'):
                sw = (x, d, t)
    if not R.check(sw is not None, 'B.C01.cover', 'anchor', 'the num_channels == 1 branch was not found'):
        return
    x, d, t = sw
    tgt0 = dict(t['targets']).get('0')
    mono_t, multi_t = (t['otherwise'], tgt0) if d.startswith('Eq') else (tgt0, t['otherwise'])
    L = min(b.in_loop(x), key=lambda l: len(l['blocks']))
    def idx_stores(start):
        reach = b.reachable([start], stop=[L['header']]) - {L['header']}
        out = {}
        for bb, s, p in stores:
            if bb in reach:
                last = s['lhs']['p'][-1]
                if last[0] == 'index':
                    out[const_of(b, {'k': 'copy', 'pl': {'l': last[1], 'p': []}})] = describe_rv(b, s['rv'], depth=4, at=bb)
                elif last[0] == 'cidx':
                    out[last[1]] = describe_rv(b, s['rv'], depth=4, at=bb)
                else:
                    out['*'] = describe_rv(b, s['rv'], depth=4, at=bb)
        return out, reach
    mono, _ = idx_stores(mono_t)
    multi, mreach = idx_stores(multi_t)
    R.check(mono == {0: 'Div(Add(_%d.left, _%d.right), 2.0)' % (fl, fl)}, 'B.C01.cover', 'mono',
            'with one channel the sample is %s, not the mean of left and right at index 0' % mono, detail=mono)
    okm = multi.get(0) == '_%d.left' % fl and multi.get(1) == '_%d.right' % fl and multi.get('*') == '0.0'
    R.check(okm, 'B.C01.cover', 'multi', 'with several channels the stores are %s (expected [0]=left, [1]=right, rest=0.0)' % multi, detail={str(k): v for k, v in multi.items()})
    # the "rest" loop iterates channels.iter_mut().skip(2)
    sk = [(bb, tt) for bb, tt in b.calls() if (callee_path(tt) or '') == 'std::iter::Iterator::skip' and bb in mreach]
    oks = False
    if len(sk) == 1 and describe(b, sk[0][1]['args'][1]) == '2':
        from ..paths import origin_def
        d0, _ = origin_def(b, sk[0][1]['args'][0])
        if d0 and d0[0] == 'call' and (callee_path(d0[2]) or '') == 'core::slice::<impl [T]>::iter_mut':
            # the slice iterated is the `channels` chunk itself
            ch = [l for l, n in b.names.items() if n == 'channels'][0]
            from ..facts import operand_place
            pl = operand_place(b, d0[2]['args'][0])
            d1 = b.single_def(ch)
            src_ch = describe(b, {'k': 'copy', 'pl': {'l': ch, 'p': []}}, depth=3, at=sk[0][0])
            src_it = describe(b, d0[2]['args'][0], depth=3, at=sk[0][0])
            oks = src_ch.replace('&', '') == src_it.replace('&', '') or (pl is not None and pl['l'] == ch)
            if not oks and pl is not None and d1 and d1[0] == 'stmt' and d1[3]['rv']['k'] == 'use' and 'pl' in d1[3]['rv']['op']:
                from ..facts import expand_place
                oks = pl['s'] == '(*%s)' % expand_place(b, d1[3]['rv']['op']['pl'])['s']
    R.check(oks, 'B.C01.cover', 'rest', 'channels beyond the second are not silenced through channels.iter_mut().skip(2)', detail='for channel in channels.iter_mut().skip(2) { *channel = 0.0 }')
    # both branches rejoin and nothing skips them: from the switch, the loop header is only reached through a store block
    sb = [bb for bb, s, p in stores]
    R.check(must_pass(b, [mono_t, multi_t], [L['header']], sb), 'B.C01.cover', 'every-iteration',
            'an iteration of the conversion loop can complete without writing the frame', detail='every path through the loop body writes')
