"""Linearity typing of DSP code (Engine B, abstract interpretation): decides the structural half of "the linear effects
obey superposition and scaling for fixed parameters" (C13).

Every float-carrying value in the per-sample code of an effect is given a class in the lattice

        BOT  <  Z (exactly zero)  <  { C (coefficient: independent of the signal),  S (linear in the signal and the
                                       effect's state, degree 1) }  <  N (anything else: not linear)

with the transfer functions of a linear map:   S+S = S, S-S = S, -S = S, S*C = C*S = S, S/C = S, C op C = C, Z is neutral
for + and absorbing for *, and everything else that touches the signal is N:  S*S, C/S, S+C (an offset breaks scaling),
any comparison of a signal value, any float method (abs, min, max, clamp, sqrt, powf, ...) or unknown function applied to
a signal, a float-to-int cast of a signal.  The analysis is flow-insensitive (one class per MIR local and per struct field,
least fixpoint of the constraints), interprocedural over kira's own helper methods (CombFilter::process, ...), with
references, iterators and slices aliasing the storage they were made from.  Sources: the `input` slice of
`Effect::process` is S; struct fields that the analysed code writes start at BOT (cleared state) and take the class of
what is stored into them; fields it never writes (configuration) are C.

An effect is linear in its input if (1) no N value is ever produced from signal operands, (2) no branch tests a signal
value, (3) nothing signal-independent is written into the signal.  Violations name the MIR site.  Parameters are
coefficients: "for fixed parameters" is the premise of the property.  Feedback effects of the delay (`dyn Effect`) are
outside the delay's own linearity and are treated as transparent.
"""
from .facts import callee_path, is_const, const_value

BOT, Z, C, S, N = 0, 1, 2, 3, 4
NAMES = {BOT: 'bot', Z: 'zero', C: 'coef', S: 'signal', N: 'nonlinear'}


def join(a, b):
    if a == b:
        return a
    if a in (BOT, Z) and b in (BOT, Z):
        return max(a, b)
    if a in (BOT, Z):
        return b
    if b in (BOT, Z):
        return a
    return N            # C with S, or anything with N


def f_add(a, b):
    if a == BOT or b == BOT:
        return BOT
    return join(a, b)


def f_mul(a, b):
    if a == BOT or b == BOT:
        return BOT
    if a == Z or b == Z:
        return Z
    if a == N or b == N:
        return N
    if a == C and b == C:
        return C
    if a == S and b == S:
        return N
    return S


def f_div(a, b):
    if a == BOT or b == BOT:
        return BOT
    if a == N or b == N or b == S:
        return N
    if a == Z:
        return Z
    if b == Z:
        return N
    return a      # S/C = S, C/C = C


def f_opaque(a):
    """An unknown / nonlinear function of its operands."""
    if a in (S, N):
        return N
    return C


def f_cmp(a, b):
    if a in (S, N) or b in (S, N):
        return N
    return C


def sig_ty(ty):
    """Can a value of this type carry signal data?"""
    if not ty:
        return False
    if 'Parameter' in ty or 'Duration' in ty or 'Info' in ty or 'CommandReader' in ty or 'dyn ' in ty:
        return False
    return 'f32' in ty or 'f64' in ty or 'Frame' in ty


def ty_of(b, pl):
    """Type of a place; spliced-in helper code carries the type only in the local declarations."""
    t = pl.get('ty')
    if t is None and not pl.get('p') and pl.get('l') is not None and pl['l'] < len(b.locals):
        t = b.locals[pl['l']].get('ty')
    return t


def ref_like(ty):
    return bool(ty) and ('&' in ty or '*mut' in ty or '*const' in ty or 'iter::' in ty or 'slice::Iter' in ty or 'Chunks' in ty
                         or 'Enumerate' in ty or 'Zip' in ty or 'vec::Vec' in ty and False)


PLUMBING = ('iter_mut', 'iter', 'enumerate', 'zip', 'into_iter', 'next', 'next_back', 'chunks_mut', 'chunks', 'deref_mut', 'deref', 'index',
            'index_mut', 'as_mut', 'as_ref', 'as_slice', 'as_mut_slice', 'skip', 'take', 'rev', 'by_ref', 'unwrap', 'expect', 'copied',
            'cloned', 'clone', 'borrow', 'borrow_mut', 'get', 'get_mut', 'first', 'last', 'split_at_mut', 'step_by', 'unwrap_or_default',
            'get_unchecked', 'get_unchecked_mut', 'as_mut_ptr', 'as_ptr', 'from', 'into')
FRAME_BIN = {'<frame::Frame as std::ops::Add>::add': f_add, '<frame::Frame as std::ops::Sub>::sub': f_add,
             '<frame::Frame as std::ops::Mul<f32>>::mul': f_mul, '<frame::Frame as std::ops::Div<f32>>::div': f_div}
FRAME_ASSIGN = {'<frame::Frame as std::ops::AddAssign>::add_assign': f_add, '<frame::Frame as std::ops::SubAssign>::sub_assign': f_add,
                '<frame::Frame as std::ops::MulAssign<f32>>::mul_assign': f_mul, '<frame::Frame as std::ops::DivAssign<f32>>::div_assign': f_div}
FRAME_SAME = ('<frame::Frame as std::ops::Neg>::neg', 'frame::Frame::as_mono', 'frame::Frame::from_mono')
IGNORED_CALLS = ('effect::Effect::process', 'effect::Effect::on_start_processing')


class Lin:
    def __init__(self, F, roots, source_params, source_class=S):
        """roots: body paths to analyse (callees with a kira body are pulled in); source_params: {body path: [arg index]}
        locals that hold the signal."""
        self.F = F
        self.cls = {}          # node -> class
        self.edges = []        # (kind, dst, srcs, info)   kind: 'flow' | 'add' | 'mul' | 'div' | 'opaque' | 'cmp' | 'const'
        self.bodies = {}
        self.stored_fields = set()
        self.sites = {}
        self.bad_edges = {}
        self.bad_merge = {}
        self.closure_of = {}
        work = list(roots)
        while work:
            p = work.pop()
            if p in self.bodies:
                continue
            b = F.body(p)
            if b is None:
                continue
            self.bodies[p] = b
            for c in F.closures_of(p):
                if c.path not in self.bodies:
                    work.append(c.path)
            for bb, t in b.calls():
                cp = callee_path(t) or ''
                cb = F.body(cp)
                if cb is not None and cb.krate == 'kira' and self.wants_body(cp):
                    work.append(cp)
        for p, b in self.bodies.items():
            for bb, si, s in b.stmts():
                if s['k'] == 'assign' and s['lhs']['p']:
                    f = self.field_of(b, s['lhs'])
                    if f:
                        self.stored_fields.add(f)
                if s['k'] == 'assign' and s['rv']['k'] in ('ref', 'rawptr') and s['rv'].get('bk') in ('mut', 'Mut', None) and sig_ty(s['rv']['pl'].get('ty')):
                    # a field lent out mutably (`&mut self.ic1eq` handed to a helper) is state, not configuration
                    f = self.field_of(b, s['rv']['pl'])
                    if f and (s['rv'].get('bk') == 'mut' or s['rv']['k'] == 'rawptr'):
                        self.stored_fields.add(f)
            for bb, t in b.calls():
                cp = callee_path(t) or ''
                if cp in FRAME_ASSIGN or cp.split('::')[-1] in ('copy_from_slice', 'fill', 'index_mut', 'iter_mut', 'deref_mut', 'chunks_mut'):
                    a0 = t['args'][0]
                    if 'pl' in a0:
                        f = self.field_via(b, a0['pl'])
                        if f:
                            self.stored_fields.add(f)
        for p, b in self.bodies.items():
            self.constrain(b)
        for f in self.stored_fields:
            self.cls[('F',) + f] = Z          # state starts cleared
        for p in roots:
            b = self.bodies.get(p)
            if b is not None:
                for i in range(1, b.arg_count + 1):
                    self.cls[(p, i)] = C          # dt, info, ... : independent of the signal
        for p, idxs in source_params.items():
            for i in idxs:
                self.cls[(p, i)] = source_class
        self.solve()

    # ------------------------------------------------------------------ nodes
    def wants_body(self, cp):
        if cp in FRAME_BIN or cp in FRAME_ASSIGN or cp in FRAME_SAME or cp in ('frame::Frame::new', 'frame::Frame::panned'):
            return False
        if cp.startswith(('parameter::', 'decibels::', 'info::', 'tween::', 'value::', 'command::', 'panning::', 'mix::')):
            return False
        return True

    def field_of(self, b, pl):
        """(adt, field) when the place is a field of the struct behind a reference local."""
        for pr in pl['p']:
            if pr[0] == 'field' and len(pr) > 3 and pr[3] and not pr[3].startswith(('std::', 'core::', 'alloc::')) \
                    and pr[3] != 'frame::Frame':
                return (pr[3], pr[2])
            if pr[0] == 'field':
                continue        # tuple / Option / Frame component: same storage as the base
            if pr[0] not in ('deref', 'downcast', 'index', 'constindex', 'subslice'):
                break
        return None

    def field_via(self, b, pl):
        """Field a reference temporary was borrowed from (`_7 = &mut (*_1).buffer`)."""
        f = self.field_of(b, pl)
        if f:
            return f
        d = b.single_def(pl['l']) if not pl['p'] or pl['p'][0][0] == 'deref' else None
        if d and d[0] == 'stmt' and d[3]['rv']['k'] in ('ref', 'rawptr'):
            return self.field_of(b, d[3]['rv']['pl'])
        return None

    def node(self, b, pl):
        if pl['l'] == 1 and '::{closure' in b.path:
            for pr in pl['p'][:2]:
                if pr[0] == 'field' and str(pr[2]).startswith('^'):
                    return ('U', b.path, pr[1])       # a captured variable
        f = self.field_of(b, pl)
        if f:
            return ('F',) + f
        return (b.path, pl['l'])

    def read(self, node):
        if node[0] == 'F' and (node[1], node[2]) not in self.stored_fields:
            return C
        return self.cls.get(node, BOT)

    def op_node(self, b, op, tyfilter=True):
        """node or constant class of an operand"""
        if is_const(op):
            v = const_value(op)
            if v == 0 or v == 0.0:
                return ('K', Z)
            t = op.get('text', '')
            if t.endswith('Frame::ZERO'):
                return ('K', Z)
            return ('K', C)
        if 'pl' not in op:
            return ('K', C)
        pl = op['pl']
        if tyfilter and not sig_ty(ty_of(b, pl)):
            return ('K', C)
        return self.node(b, pl)

    def val(self, n):
        if n[0] == 'K':
            return n[1]
        return self.read(n)

    def add(self, kind, dst, srcs, b, bb, what):
        self.edges.append((kind, dst, tuple(srcs), (b.path, bb, what)))

    # ------------------------------------------------------------------ constraints
    def constrain(self, b):
        for bb, si, s in b.stmts():
            if s['k'] != 'assign':
                continue
            lhs = s['lhs']
            if lhs.get('ty') is None:
                lhs = dict(lhs, ty=ty_of(b, lhs))
            if not sig_ty(lhs.get('ty')):
                continue
            dst = self.node(b, lhs)
            rv = s['rv']
            k = rv['k']
            line = s.get('line')
            if k == 'use':
                src = self.op_node(b, rv['op'])
                self.add('flow', dst, [src], b, bb, ('use', line))
                if ref_like(lhs.get('ty')) and src[0] != 'K':
                    self.add('flow', src, [dst], b, bb, ('alias', line))
            elif k in ('ref', 'rawptr'):
                src = self.node(b, rv['pl'])
                self.add('flow', dst, [src], b, bb, ('ref', line))
                self.add('flow', src, [dst], b, bb, ('alias', line))
            elif k == 'cast':
                src = self.op_node(b, rv['op'])
                ck = rv.get('ck', '')
                if ck.startswith('FloatToInt'):
                    self.add('opaque', dst, [src], b, bb, ('float-to-int cast', line))
                else:
                    self.add('flow', dst, [src], b, bb, ('cast', line))
                    if ref_like(lhs.get('ty')) and src[0] != 'K':
                        self.add('flow', src, [dst], b, bb, ('alias', line))
            elif k == 'bin':
                a, c = self.op_node(b, rv['a']), self.op_node(b, rv['b'])
                op = rv['op']
                if op in ('Add', 'Sub', 'AddUnchecked', 'SubUnchecked'):
                    self.add('add', dst, [a, c], b, bb, (op, line))
                elif op in ('Mul', 'MulUnchecked'):
                    self.add('mul', dst, [a, c], b, bb, (op, line))
                elif op == 'Div':
                    self.add('div', dst, [a, c], b, bb, (op, line))
                else:
                    self.add('opaque2', dst, [a, c], b, bb, (op, line))
            elif k == 'un':
                src = self.op_node(b, rv['a'])
                self.add('flow' if rv['op'] == 'Neg' else 'opaque', dst, [src], b, bb, (rv['op'], line))
            elif k == 'agg':
                srcs = [self.op_node(b, o) for o in rv['ops']]
                srcs = [x for x in srcs if not (x[0] == 'K' and x[1] == C and False)]
                self.add('agg', dst, srcs, b, bb, ('aggregate', line))
                if ref_like(lhs.get('ty')):
                    for x in srcs:
                        if x[0] != 'K':
                            self.add('flow', x, [dst], b, bb, ('alias', line))
            elif k == 'repeat':
                self.add('flow', dst, [self.op_node(b, rv['op'])], b, bb, ('repeat', line))
            else:
                self.add('const', dst, [], b, bb, (k, line))
        # comparisons of signal values (result type bool: not signal-typed, so looked at separately) and switches
        for bb, si, s in b.stmts():
            if s['k'] == 'assign' and s['rv']['k'] == 'bin' and s['rv']['op'] in ('Lt', 'Le', 'Gt', 'Ge', 'Eq', 'Ne'):
                a, c = self.op_node(b, s['rv']['a']), self.op_node(b, s['rv']['b'])
                if a[0] != 'K' or c[0] != 'K':
                    self.add('cmp', ('B', b.path, bb, si), [a, c], b, bb, (s['rv']['op'], s.get('line')))
        for bb, t in b.calls():
            self.constrain_call(b, bb, t)
        # closures built here: captured variables alias the capture slots of the closure body
        for bb, si, s in b.stmts():
            if s['k'] == 'assign' and s['rv']['k'] == 'agg' and s['rv'].get('ak') == 'closure' and s['rv'].get('closure') in self.bodies:
                cp = s['rv']['closure']
                self.closure_of[(b.path, s['lhs']['l'])] = cp
                for idx, o in enumerate(s['rv']['ops']):
                    src = self.op_node(b, o)
                    if src[0] != 'K':
                        self.add('flow', ('U', cp, idx), [src], b, bb, ('capture', s.get('line')))
                        self.add('flow', src, [('U', cp, idx)], b, bb, ('alias', s.get('line')))

    def constrain_call(self, b, bb, t):
        cp = callee_path(t) or ''
        nm = (t.get('callee') or {}).get('name') or cp.split('::')[-1]
        line = t.get('line')
        dest = t.get('dest')
        dnode = self.node(b, dest) if dest and sig_ty(ty_of(b, dest)) else None
        args = [self.op_node(b, a) for a in t['args']]
        if cp in IGNORED_CALLS:
            return
        if cp in FRAME_BIN and dnode:
            kind = {f_add: 'add', f_mul: 'mul', f_div: 'div'}[FRAME_BIN[cp]]
            self.add(kind, dnode, args[:2], b, bb, (cp.split('::')[-1], line))
            return
        if cp in FRAME_ASSIGN:
            kind = {f_add: 'add', f_mul: 'mul', f_div: 'div'}[FRAME_ASSIGN[cp]]
            if args[0][0] != 'K':
                self.add(kind, args[0], args[:2], b, bb, (cp.split('::')[-1], line))
            return
        if cp in FRAME_SAME and dnode:
            self.add('flow', dnode, args[:1], b, bb, (nm, line))
            return
        if cp == 'frame::Frame::new' and dnode:
            self.add('agg', dnode, args, b, bb, ('Frame::new', line))
            return
        if cp == 'frame::Frame::panned' and dnode:
            self.add('mul', dnode, args[:2], b, bb, ('panned', line))
            return
        if nm == 'copy_from_slice' and len(args) == 2 and args[0][0] != 'K':
            self.add('flow', args[0], [args[1]], b, bb, ('copy_from_slice', line))
            return
        if nm == 'fill' and len(args) == 2 and args[0][0] != 'K':
            self.add('flow', args[0], [args[1]], b, bb, ('fill', line))
            return
        if nm in ('copy_within', 'len', 'swap', 'is_empty'):
            return
        cb = self.bodies.get(cp)
        if cb is not None:
            for i, a in enumerate(args):
                pn = (cp, i + 1)
                pty = cb.locals[i + 1].get('ty') if i + 1 < len(cb.locals) else None
                if not sig_ty(pty):
                    continue
                self.add('flow', pn, [a], b, bb, ('argument', line))
                if ref_like(pty) and a[0] != 'K':
                    self.add('flow', a, [pn], b, bb, ('alias', line))
            if dnode:
                self.add('flow', dnode, [(cp, 0)], b, bb, ('return value', line))
            return
        if nm in ('for_each', 'map', 'fold', 'try_for_each', 'for_each_mut', 'inspect', 'filter', 'filter_map', 'all', 'any'):
            from .facts import op_local
            linked = False
            for a in t['args'][1:]:
                l = op_local(a)
                cpath = None
                d = b.single_def(l) if l is not None else None
                if d and d[0] == 'stmt' and d[3]['rv']['k'] == 'agg' and d[3]['rv'].get('ak') == 'closure':
                    cpath = d[3]['rv'].get('closure')
                if cpath in self.bodies and args and args[0][0] != 'K':
                    cb2 = self.bodies[cpath]
                    for pi in range(2, cb2.arg_count + 1):
                        if sig_ty(cb2.locals[pi].get('ty')):
                            self.add('flow', (cpath, pi), [args[0]], b, bb, ('closure argument', line))
                            self.add('flow', args[0], [(cpath, pi)], b, bb, ('alias', line))
                    if dnode:
                        self.add('flow', dnode, [(cpath, 0), args[0]], b, bb, (nm, line))
                    linked = True
            if linked:
                return
        if nm in PLUMBING and ('<impl f32>' not in cp and '<impl f64>' not in cp):
            if dnode:
                srcs = [a for a in args if a[0] != 'K']
                self.add('flow', dnode, srcs or [('K', C)], b, bb, (nm, line))
                for a in srcs:
                    self.add('flow', a, [dnode], b, bb, ('alias', line))
            return
        if ('<impl f32>' in cp or '<impl f64>' in cp) and dnode is not None:
            zp = nm in ('abs', 'sqrt', 'sin', 'tan', 'tanh', 'sinh', 'asin', 'atan', 'signum', 'trunc', 'floor', 'ceil', 'round', 'cbrt', 'to_degrees', 'to_radians')
            if nm == 'clamp' and len(t['args']) == 3 and is_const(t['args'][1]) and is_const(t['args'][2]):
                lo, hi = const_value(t['args'][1]), const_value(t['args'][2])
                zp = lo is not None and hi is not None and lo <= 0 <= hi
            if zp:
                # f(0) == 0: exact zero goes through, anything else is an unknown function of its argument
                self.add('zp', dnode, args[:1], b, bb, (cp, line))
                return
        cmpc = nm in ('lt', 'le', 'gt', 'ge', 'eq', 'ne', 'partial_cmp', 'cmp', 'total_cmp')
        if cmpc:
            self.add('cmp', ('B', b.path, bb, -1), args, b, bb, (cp, line))
            return
        # anything else: an unknown function of its signal-capable arguments
        if dnode:
            self.add('opaque', dnode, args, b, bb, (cp or nm, line))
        else:
            self.add('opaque', ('B', b.path, bb, -2), args, b, bb, (cp or nm, line))

    # ------------------------------------------------------------------ fixpoint
    def eval_edge(self, e):
        kind, dst, srcs, info = e
        v = [self.val(s) for s in srcs]
        if kind == 'flow':
            r = BOT
            for x in v:
                r = join(r, x)
            return r
        if kind == 'agg':
            r = BOT
            for x in v:
                r = join(r, x) if not (x == C and False) else r
            return r
        if kind == 'add':
            return f_add(v[0], v[1])
        if kind == 'mul':
            return f_mul(v[0], v[1])
        if kind == 'div':
            return f_div(v[0], v[1])
        if kind == 'zp':
            return v[0] if v[0] in (BOT, Z) else f_opaque(v[0])
        if kind == 'opaque':
            r = BOT
            for x in v:
                r = join(r, x)
            return f_opaque(r) if r != BOT else BOT
        if kind == 'opaque2':
            return f_cmp(v[0], v[1]) if BOT not in v else BOT
        if kind == 'cmp':
            if any(x in (S, N) for x in v):
                return N
            return C
        if kind == 'const':
            return C
        return BOT

    def solve(self):
        for _ in range(200):
            changed = False
            for i, e in enumerate(self.edges):
                dst = e[1]
                r = self.eval_edge(e)
                if r == N:
                    # error recovery: record the site, carry on with `signal` so that one non-linear step does not drown
                    # every later site (the analysis is flow-insensitive and effects write back into their input)
                    self.bad_edges.setdefault(i, [self.val(x) for x in e[2]])
                    r = S
                cur = self.cls.get(dst, BOT)
                nw = join(cur, r)
                if nw == N:
                    self.bad_merge.setdefault(i, (cur, r))
                    nw = S
                if nw != cur:
                    self.cls[dst] = nw
                    changed = True
            if not changed:
                return
        raise RuntimeError('lintype: no fixpoint')

    # ------------------------------------------------------------------ verdicts
    def violations(self):
        """-> list of (body path, bb, what, line) : origins of non-linearity, signal-dependent branches"""
        out = []
        for i, v in sorted(self.bad_edges.items()):
            kind, dst, srcs, (bp, bb, (what, line)) = self.edges[i]
            if kind == 'cmp' or dst[0] == 'B':
                continue        # comparisons / predicates: reported where a branch uses them
            out.append((bp, bb, '%s of %s is not a linear operation on the signal' % (what, '/'.join(NAMES[x] for x in v)), line))
        for i, (cur, r) in sorted(self.bad_merge.items()):
            kind, dst, srcs, (bp, bb, (what, line)) = self.edges[i]
            if dst[0] == 'B':
                continue
            out.append((bp, bb, 'a signal-independent value and a signal value end up in the same storage (%s): the result is affine, not linear' % what, line))
        self.cmp_bad = set(self.edges[i][1] for i in self.bad_edges if self.edges[i][1][0] == 'B')
        for p, b in self.bodies.items():
            for x in range(b.n):
                t = b.blocks[x]['term']
                if t['k'] != 'switch' or b.blocks[x]['cleanup']:
                    continue
                op = t['op']
                if 'pl' not in op:
                    continue
                l = op['pl']['l']
                ds = b.defs().get(l, [])
                for d in ds:
                    if d[0] == 'stmt' and d[3]['rv']['k'] == 'bin' and d[3]['rv']['op'] in ('Lt', 'Le', 'Gt', 'Ge', 'Eq', 'Ne'):
                        n = ('B', b.path, d[1], d[2])
                        if n in self.cmp_bad:
                            out.append((p, x, 'a branch tests a value that depends on the signal (%s): the effect is not linear' % d[3]['rv']['op'], d[3].get('line')))
                    if d[0] == 'call':
                        n = ('B', b.path, d[1], -1)
                        if n in self.cmp_bad:
                            out.append((p, x, 'a branch tests a comparison of a signal value', d[2].get('line')))
                        if sig_ty((d[2].get('dest') or {}).get('ty')) is False:
                            n2 = ('B', b.path, d[1], -2)
                            if n2 in self.cmp_bad:
                                out.append((p, x, 'a branch tests the result of %s applied to a signal value' % (callee_path(d[2]) or '?'), d[2].get('line')))
        seen = set()
        uniq = []
        for v in out:
            k = (v[0], v[2], v[3])
            if k not in seen:
                seen.add(k)
                uniq.append(v)
        return uniq
