"""C01 — the audio callback is real-time safe and its output is well-formed."""
from ..enginea import run_engine_a

TEXT = ("Static effect analysis (rustc MIR, monomorphic call graph with virtual fan-out and drop glue) of everything reachable from Renderer::on_start_processing / Renderer::process: no heap allocation, no deallocation, no blocking or unclassified OS-facing leaf, every may-panic site and every loop discharged by an auto rule or an exact, reasoned table entry. Decides reachability of effects, not sample values (overflow to infinity through huge finite magnitudes is not decided). Every float operation on the audio path that can turn finite operands into NaN or infinity (division, remainder, square root, logarithm, power, exp, a normalising glam call) is an obligation discharged by interval evaluation under the dominating branch facts or by an exact, reasoned table entry (A.singular). The discharges of the reverb's / delay's initialisation panics rest on the creation sites initialising their effects, that of the clock's state panic on Clock::update starting the clock itself. A power site raises one obligation per domain condition (base, exponent); the easing's base condition rests on its callers keeping the argument in 0..1, checked on every run. An index that is the item of a Range ending at the length of the very slice indexed is in bounds (auto-discharged). The overflow-checks configuration (every arithmetic assert of the audio path) is analysed on every run.")
TECHNIQUE = 'MIR call-graph effect analysis (alloc/free/block/panic/loop) with exact discharge table + interval evaluation of singular float operations'


def run(ctx, R, tier):
    F = ctx.facts('default')
    run_engine_a(R, F, groups=('rt',), config='default', singular=True, singular_floor=55)
    # the easing of a spatial track's attenuation is only total on [0, 1]: the normalised distance stays inside it
    from .c06 import defaults_match
    defaults_match(F, R, rule='B.C01.defaults')
    from .c15 import distance_range
    distance_range(F, R)
    from .c01_out import run_out
    run_out(ctx, R, F)
    # integer overflow is a panic in every build with overflow checks on (the profile `cargo test` and debug builds use): the
    # arithmetic asserts of the audio path are obligations on every run, not only in the thorough tier
    Fo = ctx.facts('default-ovf')
    run_engine_a(R, Fo, groups=('rt', 'rt_cpal'), config='default-ovf')
    if tier == 'thorough':
        for cfg in ('nodefault', 'serde', 'assert_no_alloc', 'cpal-only', 'wav-only'):
            Fc = ctx.facts(cfg)
            groups = ('rt', 'rt_cpal') if cfg in ('cpal-only', 'assert_no_alloc', 'serde', 'default-ovf') else ('rt',)
            run_engine_a(R, Fc, groups=groups, config=cfg)
        Fd = ctx.facts('default')
        run_engine_a(R, Fd, groups=('rt', 'rt_cpal'), config='default+cpal-callback')
