#!/usr/bin/env python3
"""Run all 16 quick checks against each seeded change (applied to /repo, always undone).
usage: tools/seed_run.py <dir with seed subdirs> [seed ids...]   -> writes <dir>/<id>/checks.json"""
import json, os, subprocess, sys, tempfile, shutil
ALLP = ['C01', 'C02', 'C03', 'C05', 'C06', 'C07', 'C08', 'C09', 'C10', 'C12', 'C13', 'C15', 'C16', 'C17', 'C18', 'C19']
def sh(cmd, **kw):
    r = subprocess.run(cmd, stdout=subprocess.PIPE, stderr=subprocess.STDOUT, text=True, **kw)
    return r.returncode, r.stdout
root = sys.argv[1]
ids = sys.argv[2:] or sorted(d for d in os.listdir(root) if os.path.exists(os.path.join(root, d, 'patch.diff')))
for sid in ids:
    d = os.path.join(root, sid)
    rc, o = sh(['git', '-C', '/repo', 'status', '--porcelain'])
    assert o.strip() == '', 'repo dirty: ' + o
    res = {}
    try:
        rc, o = sh(['git', '-C', '/repo', 'apply', '--whitespace=nowarn', os.path.join(d, 'patch.diff')])
        if rc != 0:
            print(sid, 'PATCH DOES NOT APPLY', o[-200:]); continue
        ev = tempfile.mkdtemp(prefix='seedev-')
        for p in ALLP:
            rc, o = sh(['/verif/kv', 'check', p], env=dict(os.environ, KV_EVIDENCE=ev))
            keys = [l.split('key=')[1].strip() for l in o.splitlines() if l.strip().startswith('rule=') and 'key=' in l]
            res[p] = {'exit': rc, 'keys': keys}
        shutil.rmtree(ev, ignore_errors=True)
    finally:
        sh(['git', '-C', '/repo', 'checkout', '--', '.'])
        sh(['git', '-C', '/repo', 'clean', '-fdq', 'crates'])
    caught = sorted(p for p, r in res.items() if r['exit'] == 1)
    crashed = sorted(p for p, r in res.items() if r['exit'] not in (0, 1))
    json.dump({'checks': res, 'caught_by': caught, 'crashed': crashed}, open(os.path.join(d, 'checks.json'), 'w'), indent=1)
    own = sid.split('-')[0]
    print('%-6s %s caught_by=%s %s' % (sid, 'OWN ' if own in caught else ('NEIGH' if caught else 'MISS'), caught, ('CRASHED ' + str(crashed)) if crashed else ''), flush=True)
    for p in caught:
        print('        %s: %s' % (p, res[p]['keys'][:4]))
