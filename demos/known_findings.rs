//! Demonstrations for the genuine defects that are RECORDED (status "known" in /verif/known_findings.jsonl)
//! rather than repaired. Not part of any check. Copy to crates/kira/tests/ in a scratch copy of the
//! repository; run each test on its own (`--exact <name>`) under `timeout 30`: the cross-manager tests
//! panic inside the callback, the two `*_hangs` tests never return, `clock_handle_time_is_torn` and
//! `track_in_flight_during_rate_change` fail their assertion.
use kira::{
	backend::{
		mock::{MockBackend, MockBackendSettings},
		Backend, Renderer,
	},
	clock::{ClockSpeed, ClockTime},
	effect::{Effect, EffectBuilder},
	info::Info,
	modulator::tweener::TweenerBuilder,
	sound::static_sound::{StaticSoundData, StaticSoundSettings},
	track::{SendTrackBuilder, SpatialTrackBuilder, TrackBuilder},
	AudioManager, AudioManagerSettings, Capacities, Frame, Mapping, PlaybackRate, StartTime, Value,
};
use std::sync::{
	atomic::{AtomicU32, Ordering},
	Arc,
};

fn manager(c: Capacities) -> AudioManager<MockBackend> {
	AudioManager::<MockBackend>::new(AudioManagerSettings {
		capacities: c,
		backend_settings: MockBackendSettings { sample_rate: 48000 },
		..Default::default()
	})
	.unwrap()
}
fn small() -> Capacities {
	Capacities { clock_capacity: 1, modulator_capacity: 1, listener_capacity: 1, send_track_capacity: 1, ..Default::default() }
}
fn big() -> Capacities {
	Capacities { clock_capacity: 8, modulator_capacity: 8, listener_capacity: 8, send_track_capacity: 8, ..Default::default() }
}
fn callbacks(m: &mut AudioManager<MockBackend>, n: usize) {
	for _ in 0..n {
		m.backend_mut().on_start_processing();
		m.backend_mut().process();
	}
}
fn sound(settings: StaticSoundSettings) -> StaticSoundData {
	StaticSoundData { sample_rate: 48000, frames: Arc::new([Frame::from_mono(0.5); 100]), settings, slice: None }
}

#[test]
fn cross_manager_clock_id() {
	let (mut a, mut b) = (manager(big()), manager(small()));
	let clocks: Vec<_> = (0..8).map(|_| a.add_clock(ClockSpeed::TicksPerSecond(1.0)).unwrap()).collect();
	let id = clocks.last().unwrap().id();
	b.play(sound(StaticSoundSettings::new().start_time(StartTime::ClockTime(ClockTime { clock: id, ticks: 1, fraction: 0.0 })))).unwrap();
	callbacks(&mut b, 1);
}

#[test]
fn cross_manager_modulator_id() {
	let (mut a, mut b) = (manager(big()), manager(small()));
	let mods: Vec<_> = (0..8).map(|_| a.add_modulator(TweenerBuilder { initial_value: 0.0 }).unwrap()).collect();
	let id = mods.last().unwrap().id();
	let volume: Value<kira::Decibels> = Value::FromModulator {
		id,
		mapping: Mapping { input_range: (0.0, 1.0), output_range: (kira::Decibels(-6.0), kira::Decibels(0.0)), easing: kira::Easing::Linear },
	};
	b.play(sound(StaticSoundSettings::new().volume(volume))).unwrap();
	callbacks(&mut b, 1);
}

#[test]
fn cross_manager_listener_id() {
	let (mut a, mut b) = (manager(big()), manager(small()));
	let ls: Vec<_> = (0..8).map(|_| a.add_listener(glam::Vec3::ZERO, glam::Quat::IDENTITY).unwrap()).collect();
	let id = ls.last().unwrap().id();
	let mut t = b.add_spatial_sub_track(id, glam::Vec3::ONE, SpatialTrackBuilder::new()).unwrap();
	t.play(sound(StaticSoundSettings::new())).unwrap();
	callbacks(&mut b, 1);
}

#[test]
fn cross_manager_send_track_id() {
	let (mut a, mut b) = (manager(big()), manager(small()));
	let sends: Vec<_> = (0..8).map(|_| a.add_send_track(SendTrackBuilder::new()).unwrap()).collect();
	let id = sends.last().unwrap().id();
	let mut t = b.add_sub_track(TrackBuilder::new().with_send(id, kira::Decibels(0.0))).unwrap();
	t.play(sound(StaticSoundSettings::new())).unwrap();
	callbacks(&mut b, 1);
}

#[test]
fn clock_with_zero_seconds_per_tick_hangs() {
	let mut m = manager(Capacities::default());
	let mut c = m.add_clock(ClockSpeed::SecondsPerTick(0.0)).unwrap();
	c.start();
	callbacks(&mut m, 2); // never returns
}

#[test]
fn static_sound_with_huge_playback_rate_hangs() {
	let mut m = manager(Capacities::default());
	m.play(sound(StaticSoundSettings::new().playback_rate(PlaybackRate(f64::MAX)).loop_region(..))).unwrap();
	callbacks(&mut m, 2); // never returns
}

/// a backend that owns the renderer so that a second thread can drive the callbacks
struct OwnedBackend;
static RENDERER: std::sync::Mutex<Option<Renderer>> = std::sync::Mutex::new(None);
impl Backend for OwnedBackend {
	type Settings = ();
	type Error = ();
	fn setup(_: (), _: usize) -> Result<(Self, u32), ()> { Ok((OwnedBackend, 48000)) }
	fn start(&mut self, renderer: Renderer) -> Result<(), ()> { *RENDERER.lock().unwrap() = Some(renderer); Ok(()) }
}

#[test]
fn clock_handle_time_is_torn() {
	let mut m = AudioManager::<OwnedBackend>::new(AudioManagerSettings::default()).unwrap();
	let mut clock = m.add_clock(ClockSpeed::TicksPerSecond(48000.0 / 7.3)).unwrap();
	clock.start();
	let mut renderer = RENDERER.lock().unwrap().take().unwrap();
	let stop = Arc::new(std::sync::atomic::AtomicBool::new(false));
	let s2 = stop.clone();
	let audio = std::thread::spawn(move || {
		let mut out = [0.0f32; 2];
		while !s2.load(Ordering::Relaxed) {
			renderer.on_start_processing();
			renderer.process(&mut out, 2);
		}
	});
	let mut backwards = 0u64;
	let mut last = 0.0f64;
	for _ in 0..30_000_000u64 {
		let t = clock.time();
		let v = t.ticks as f64 + t.fraction;
		if v < last { backwards += 1; }
		last = v;
	}
	stop.store(true, Ordering::Relaxed);
	audio.join().unwrap();
	assert_eq!(backwards, 0, "the handle's clock time went backwards {backwards} times");
}

struct RateProbe(Arc<AtomicU32>);
impl EffectBuilder for RateProbe {
	type Handle = ();
	fn build(self) -> (Box<dyn Effect>, ()) { (Box::new(self), ()) }
}
impl Effect for RateProbe {
	fn init(&mut self, sample_rate: u32, _: usize) { self.0.store(sample_rate, Ordering::SeqCst); }
	fn on_change_sample_rate(&mut self, sample_rate: u32) { self.0.store(sample_rate, Ordering::SeqCst); }
	fn process(&mut self, _: &mut [Frame], _: f64, _: &Info) {}
}

#[test]
fn track_in_flight_during_rate_change() {
	let mut m = manager(Capacities::default());
	let seen = Arc::new(AtomicU32::new(0));
	let mut b = TrackBuilder::new();
	b.add_effect(RateProbe(seen.clone()));
	let _t = m.add_sub_track(b).unwrap(); // initialised with 48000, waiting in the new-resource ring
	m.backend_mut().set_sample_rate(96000);
	callbacks(&mut m, 2);
	assert_eq!(seen.load(Ordering::SeqCst), 96000, "the effect still believes the device runs at the old rate");
}
