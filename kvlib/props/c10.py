"""C10 — decoder threads always end; decode errors stop the sound and reach the handle."""
from ..paths import explore, describe, bool_label, pretty_place
from ..rules import calls_to, calls_where, order_ok, blocks_of, bool_edges, must_pass, returns, calls_in
from ..facts import callee_path
from . import c03

TEXT = ("The decode loop (closure passed to thread::spawn by DecodeScheduler::start) must have an exit edge; run() must yield End when the sound is Stopped, at end of data and when the audio side no longer exists; every cycle of the loop must pass a sleep, make progress (a frame pushed) or leave the loop; on error the error is queued before the flag is raised; the audio side turns the flag into Stopped + silence without reading frames; the starvation gate precedes every read; producer/consumer orderings around reached_end. Bounded-time claims and interleavings are not decided. The frame-stepping loop of the streaming sound is left only through its own guard and takes one off the fraction per iteration. into_sound starts the decoder thread on every success path. The interpolation window is buffered frames then Frame::ZERO; the decoder thread's sleep is a compile-time constant. DecodeScheduler::run is only called from the thread loop; the slice / seek rules shared with C09 and C18 keep the decoder from being asked for frames that do not exist. No path of the decoder loop's error arm leaves without raising the error flag. Every turn of the decoder thread loop goes through run(). The error flag has one writer: a store(true) in the decoder thread's loop. The frame lookup answers silence only past the end of the audio and a cached chunk answers None for what it does not hold (the lookup loop always gets back to run()). Each decoded chunk is labelled with the decoder's position at the time it was decoded (a lookup that needs several chunks finds its frame and returns). Nothing in DecodeScheduler::new writes into the transport after Transport::new (which vets the loop region) has built it.")
TECHNIQUE = 'MIR loop-cycle classification with callee summary + CFG ordering / must-pass rules'

DS = 'sound::streaming::sound::decode_scheduler::DecodeScheduler::<Error>'
SS = 'sound::streaming::sound::StreamingSound'


def run(ctx, R, tier):
    F = ctx.facts('default')
    start = F.body(DS + '::start')
    runb = F.body(DS + '::run')
    if not R.check(start is not None and runb is not None, 'B.C10.exit', 'anchor', 'DecodeScheduler::start/run not found'):
        return
    spawn = calls_to(start, 'std::thread::spawn', suffix=False)
    cl = F.closures_of(start.path)
    if not R.check(len(spawn) == 1 and len(cl) == 1, 'B.C10.exit', 'anchor:spawn',
                   'DecodeScheduler::start does not spawn exactly one thread with one closure (%d spawns, %d closures)' % (len(spawn), len(cl))):
        return
    c = cl[0]
    loops = c.loops()
    if not R.check(len(loops) == 1, 'B.C10.exit', 'anchor:loop', 'the decoder thread body has %d loops' % len(loops)):
        return
    L = loops[0]
    # ---- summary of run()
    summ = {'End': [], 'Wait': [], 'Continue': [], 'Err': []}
    for p in explore(runb):
        if p.end != 'return':
            continue
        ret = str(p.ret)
        kind = None
        for k in ('End', 'Wait', 'Continue'):
            if 'NextStep::' + k in ret:
                kind = k
        if kind is None:
            kind = 'Err'
        summ[kind].append(p)
    R.check(all(summ[k] for k in ('End', 'Wait', 'Continue')), 'B.C10.exit', 'run-outcomes',
            'run() does not have End, Wait and Continue outcomes: %s' % {k: len(v) for k, v in summ.items()},
            detail={k: len(v) for k, v in summ.items()})

    def has_decision(p, pred):
        return any(pred(desc, lab) for bb, desc, lab in p.decisions)

    end_a = any(has_decision(p, lambda d, l: 'Shared::state' in d and '::eq(' in d and 'Stopped' in d and bool_label(l) is True) for p in summ['End'])
    end_b = any(has_decision(p, lambda d, l: d.endswith('.transport.playing') and bool_label(l) is False) for p in summ['End'])
    end_c = any(has_decision(p, lambda d, l: 'is_abandoned' in d and bool_label(l) is True) for p in summ['End'])
    R.check(end_a, 'B.C10.exit', 'stopped', 'run() does not end the thread when the shared state is Stopped', detail='state == Stopped => End')
    R.check(end_b, 'B.C10.exit', 'end-of-data', 'run() does not end the thread at end of data', detail='!transport.playing => End')
    # (c): the audio side is gone — consult is_abandoned, or StreamingSound::drop stores a terminating state
    drop_impl = F.body('<%s as std::ops::Drop>::drop' % SS)
    drop_ok = False
    if drop_impl is not None:
        drop_ok = bool(calls_to(drop_impl, 'Shared::set_state')) or bool(calls_to(drop_impl, '::store'))
    R.check(end_c or drop_ok, 'B.C10.exit', 'abandoned',
            'nothing ends the decoder thread when the audio side no longer exists: run() never consults '
            'Producer::is_abandoned() and StreamingSound has no Drop impl that publishes a terminating state. A streaming sound '
            'rejected by a full track (SoundLimitReached), or dropped with its track/manager before stopping, leaves its thread '
            'polling forever and never releases the decoder',
            detail={'is_abandoned_in_run': end_c, 'drop_publishes_state': drop_ok}, where=runb.file)
    # the thread may only go to sleep (Wait) or carry on (Continue) after it has established that the sound is neither
    # stopped nor gone: otherwise a full ring keeps a discarded sound's thread polling forever
    for kind in ('Wait', 'Continue'):
        okk = True
        for q in summ[kind]:
            st = [bool_label(l) for _, d, l in q.decisions if 'Shared::state' in d and '::eq(' in d]
            ab = [bool_label(l) for _, d, l in q.decisions if 'is_abandoned' in d]
            if st != [False] or ab != [False]:
                okk = False
        R.check(okk and bool(summ[kind]), 'B.C10.exit', 'alive-before-' + kind.lower(),
                'run() can return %s without having checked that the sound is still alive (not Stopped, consumer not dropped): a discarded '
                'sound whose ring is full is never noticed' % kind, detail='%s only after state != Stopped and !is_abandoned()' % kind, where=runb.file)
    # exit edge of the thread loop is taken on End
    exits = [(x, s) for x in L['blocks'] for s in c.succ(x) if s not in L['blocks']]
    R.check(bool(exits), 'B.C10.exit', 'loop-exit', 'the decoder loop has no exit edge', detail={'exits': len(exits)})

    # ---- "within bounded time": the thread notices Stopped / abandoned only when it wakes up, so how long it sleeps is a
    # bound that must not depend on anything the sound or the decoder supplies: the sleep duration is a constant
    sl = [(x, t) for x, t in c.calls() if (callee_path(t) or '') == 'std::thread::sleep']
    for x, t in sl:
        d = describe(c, t['args'][0], depth=8, at=x)
        from ..rules import constant_term
        const = constant_term(d)
        R.check(const, 'B.C10.spin', 'sleep-constant', 'the decoder thread sleeps for %s: a duration computed from runtime values (e.g. the '
                'decoder\'s sample rate) is not a bound on how long a stopped or discarded sound keeps its thread' % d[:120],
                detail={'duration': d[:120]}, where=c.where(x))
    # ---- a decoding step is only ever taken by the decoder thread's loop, where an error is reported and ends the thread: a
    # step taken elsewhere (e.g. pre-loading on the caller's thread) has no such handling
    callers = [b2.path for b2 in F.bodies if b2.krate == 'kira' for _, t2 in b2.calls() if (callee_path(t2) or '') == DS + '::run']
    R.check(callers and all(cp_ == c.path for cp_ in callers), 'B.C10.err-prop', 'run-callers', 'DecodeScheduler::run is called from %s: only the decoder thread\'s loop handles its errors'
            % [x for x in callers if x != c.path], detail={'callers': callers})
    # ---- spin: classify every cycle of the thread loop
    cycles = [p for p in explore(c) if p.end.startswith('backedge')]
    ncyc = 0
    for p in cycles:
        arm = None
        for bb, desc, lab in p.decisions:
            if desc.startswith('discr(') and lab in ('Ok', 'Err'):
                arm = lab if arm is None else arm
            if desc.startswith('discr(') and lab in ('Continue', 'Wait', 'End'):
                arm = lab
        calls = [cp for _, cp in p.calls]
        sleeps = any(cp == 'std::thread::sleep' for cp in calls)
        ncyc += 1
        key = 'cycle:%s' % arm
        if arm == 'Wait':
            R.check(sleeps, 'B.C10.spin', key, 'the Wait cycle of the decoder loop does not sleep', detail='Wait => sleep')
            okw = all(has_decision(q, lambda d, l: 'is_full' in d and bool_label(l) is True) for q in summ['Wait'])
            R.check(okw, 'B.C10.spin', 'wait-only-when-full', 'run() returns Wait on a path where the ring is not full', detail='Wait only under is_full()')
        elif arm == 'Continue':
            okc = all(any(cp.endswith('rtrb::Producer::<T>::push') for _, cp in q.calls) for q in summ['Continue'])
            R.check(okc, 'B.C10.spin', key, 'run() returns Continue on a path that pushed no frame: the loop can spin without progress',
                    detail='Continue only after a successful frame push')
        elif arm == 'End':
            R.bad('B.C10.spin', key, 'the End outcome loops back instead of leaving the loop')
        else:
            # error arm (or unclassified): it must sleep or leave
            R.check(sleeps, 'B.C10.spin', 'cycle:Err',
                    'after a decode error the thread loops straight back into run() with neither a sleep nor an exit: with a failing '
                    'decoder it busy-spins until the audio thread happens to process the sound and marks it Stopped (never, if the '
                    'sound was rejected, or its track is paused or gone)', detail={'calls': calls}, where=c.where(L['header']))
    R.floor('B.C10.spin', ncyc, 2)
    # every turn of the thread loop goes through run(), the one place that looks at Stopped / abandoned: a turn that sleeps
    # and goes round without it (e.g. "nothing to decode while paused") never notices that the sound was discarded
    norun = [p for p in cycles if not any(cp == DS + '::run' for _, cp in p.calls)]
    R.check(bool(cycles) and not norun, 'B.C10.exit', 'every-turn-runs', '%d of the %d cycles of the decoder thread loop do not call run(): the thread does not '
            'look at its exit conditions on them' % (len(norun), len(cycles)), detail={'cycles': len(cycles)}, where=c.file)

    # ---- error order
    errc = [p for p in explore(c) if any(lab == 'Err' for _, _, lab in p.decisions)]
    pushes = [x for x, t in c.calls() if (callee_path(t) or '').endswith('rtrb::Producer::<T>::push')]
    stores = [x for x, t in c.calls() if (callee_path(t) or '').endswith('::store')]
    oks = [x for x, t in c.calls() if (callee_path(t) or '').endswith('std::result::Result::<T, E>::ok')]
    unw = [x for x, t in c.calls() if (callee_path(t) or '').endswith(('::unwrap', '::expect'))]
    R.check(len(pushes) == 1 and len(stores) == 1 and order_ok_once(c, pushes, stores) and oks and not unw, 'B.C10.err-order', 'push-then-flag',
            'on a decode error the error is not queued (ignoring a full queue with .ok()) before encountered_error is raised',
            detail='error_producer.push(e).ok() ≺ encountered_error.store(true)')
    # ... on every path of the error arm (a path that leaves without raising the flag ends the thread while the sound keeps
    # waiting for data that will never come: it is never Stopped and never unloaded)
    noflag = [p for p in errc if not any(cp.endswith('::store') for _, cp in p.calls)]
    R.check(bool(errc) and not noflag, 'B.C10.err-order', 'flag:every-path',
            'the error arm of the decoder loop can be left without raising encountered_error (%d of %d paths)' % (len(noflag), len(errc)),
            detail={'paths': len(errc)}, where=c.file)
    st = [t for x, t in c.calls() if (callee_path(t) or '').endswith('::store')]
    if st:
        d = describe(c, st[0]['args'][1])
        tgt = describe(c, st[0]['args'][0])
        R.check(d == 'True' and 'encountered_error' in tgt, 'B.C10.err-order', 'flag', 'the error arm stores %s into %s' % (d, tgt), detail={'store': tgt})

    # ---- audio side
    pb = F.body('<%s as sound::Sound>::process' % SS)
    if R.check(pb is not None, 'B.C10.err-stop', 'anchor', 'StreamingSound::process not found'):
        ee = calls_to(pb, 'Shared::encountered_error')
        if R.check(len(ee) == 1, 'B.C10.err-stop', 'site', 'encountered_error() gate not found once'):
            be = bool_edges(pb, ee[0][0])
            if be is None:
                R.bad('B.C10.err-stop', 'gate', 'unrecognised-shape: encountered_error() not branched on')
            else:
                tb = be[0]
                from ..rules import feasible_after
                reach = feasible_after(pb, tb)
                ms = [x for x in reach if (callee_path(pb.blocks[x]['term']) or '').endswith('::mark_as_stopped')]
                mir = [x for x in c03.mirror_calls(F, pb) if x in reach]
                fills = [x for x in reach if (callee_path(pb.blocks[x]['term']) or '').endswith('core::slice::<impl [T]>::fill')]
                ok = bool(ms) and bool(mir) and bool(fills) and must_pass(pb, [tb], returns(pb), ms) \
                    and must_pass(pb, [tb], returns(pb), mir) and must_pass(pb, [tb], returns(pb), fills)
                extra = [p for x, p in calls_in(pb, reach) if not p.endswith(('::mark_as_stopped', 'update_shared_playback_state', '<impl [T]>::fill',
                                                                                   # the publishing helper spelled out in place
                                                                                   'Shared::set_state', 'PlaybackStateManager::playback_state', '::deref'))]
                loops_in = [x for x in reach if pb.in_loop(x)]
                R.check(ok and not extra and not loops_in and pb.dominates(ee[0][0], tb), 'B.C10.err-stop', 'gate',
                        'after a decode error StreamingSound::process does not stop (mark_as_stopped + publish) and return silence '
                        'without reading frames (extra calls: %s)' % extra[:3], detail='error => Stopped, published, zero-fill, return',
                        where=pb.where(ee[0][0]))
                # the error gate is the first thing process does
                first_calls = [x for x, t in pb.calls() if pb.dominates(x, ee[0][0]) and x != ee[0][0]]
                R.check(all((callee_path(pb.blocks[x]['term']) or '').endswith(('::deref', 'Shared::encountered_error')) for x in first_calls),
                        'B.C10.err-stop', 'first', 'work is done before the error gate', detail='error gate first')
        # starvation gate
        sl = calls_to(pb, 'rtrb::Consumer::<T>::slots')
        if R.check(len(sl) == 1, 'B.C10.starve', 'site', 'slots() gate not found once in process'):
            gate = sl[0][0]
            readers = [x for x, t in pb.calls() if (callee_path(t) or '').endswith(('StreamingSound::next_frames', 'rtrb::Consumer::<T>::pop', 'rtrb::Consumer::<T>::read_chunk'))]
            ok = bool(readers) and all(pb.dominates(gate, x) for x in readers) and not pb.in_loop(gate)
            # the starving branch is a silent exit
            d = None
            # find the switch testing `slots() < 2`
            from ..rules import switch_on_call
            lt = [(x, s) for x, si, s in pb.stmts() if s['k'] == 'assign' and s['rv']['k'] == 'bin' and s['rv']['op'] == 'Lt'
                  and 'slots(' in describe(pb, s['rv']['a'])]
            okc = len(lt) == 1 and describe(pb, lt[0][1]['rv']['b']) == '2'
            R.check(ok and okc, 'B.C10.starve', 'gate', 'the starvation gate (slots() < 2 && !reached_end()) does not precede every frame read',
                    detail={'reads_guarded': len(readers)}, where=pb.where(gate))
            if okc:
                # true edge of slots()<2, then !reached_end() => silent exit
                re_ = [x for x, t in pb.calls() if (callee_path(t) or '').endswith('Shared::reached_end') and not pb.in_loop(x)]
                if R.check(len(re_) == 1, 'B.C10.starve', 'reached_end-site', 'reached_end() test of the starvation gate not found'):
                    be = bool_edges(pb, re_[0])
                    if be is not None:
                        c03.silent_exit(F, R, pb, be[1], 'B.C10.starve', 'silent', what='starving decoder')
        window_rule(F, R)
        # an error of Decoder::seek is an error of the stream: it is propagated like a decode error (the C18 rule)
        from .c18 import seek_landing, chunk_lookup
        seek_landing(F, R)
        # 'the decoding thread ends': the frame lookup answers silence only past the end of the audio and a cached chunk answers
        # None for what it does not hold - otherwise the lookup loop never gets back to run() / never decodes again
        chunk_lookup(F, R)
        from .c18 import chunk_start
        chunk_start(F, R, rule='B.C10.lookup')
        from .c09 import frame_source
        frame_source(F, R)
        # the slice a streaming sound is given ends inside the audio as the static sound's does (past it, the decoder is asked
        # for frames that do not exist and never returns to look at its state)
        from .c09 import sib_data
        sib_data(F, R, rule='B.C10.sib-data')
        # "playback continues from where it stopped to within a frame": the loop that steps through source frames
        # (`while fractional_position >= 1.0 { fractional_position -= 1.0; pop }`) is left only through its own guard, so
        # the fraction is below one after it whatever the ring buffer held; and every iteration takes one off
        fl = None
        for l in pb.loops():
            h = pb.blocks[l['header']]['term']
            if h['k'] == 'switch' and 'fractional_position' in describe(pb, h['op'], depth=4, at=l['header']) \
                    and describe(pb, h['op'], depth=4, at=l['header']).startswith(('Ge(', 'Gt(', 'Lt(', 'Le(')):
                fl = l
        if R.check(fl is not None, 'B.C10.resume', 'anchor', 'the fractional stepping loop of StreamingSound::process was not found'):
            from ..rt import dead_end
            exits = [(x, y) for x in fl['blocks'] for y in pb.succ(x) if y not in fl['blocks'] and not dead_end(pb, y)]
            subs = [x for x, si, st in pb.stmts() if x in fl['blocks'] and st['k'] == 'assign' and st['rv']['k'] == 'bin'
                    and st['rv']['op'] == 'Sub' and pretty_place(pb, st['lhs']).endswith('.fractional_position')
                    and describe(pb, st['rv']['b']) == '1.0']
            body_entry = [y for y in pb.succ(fl['header']) if y in fl['blocks']]
            ok = all(x == fl['header'] for x, _ in exits) and len(subs) == 1 and must_pass(pb, body_entry, [fl['header']], subs)
            R.check(ok, 'B.C10.resume', 'frac-loop',
                    'the frame-stepping loop of StreamingSound::process can be left other than through `fractional_position >= 1.0` '
                    'being false, or an iteration does not take 1.0 off: after an underrun the fraction exceeds one, the next frame is '
                    'extrapolated (foreign audio) and playback jumps ahead by the length of the stall',
                    detail={'exits': len(exits), 'decrements': len(subs)}, where=pb.where(fl['header']))
        # consumer order: reached_end() loaded before is_empty()
        re2 = [x for x, t in pb.calls() if (callee_path(t) or '').endswith('Shared::reached_end') and pb.in_loop(x)]
        ie = [x for x, t in pb.calls() if (callee_path(t) or '').endswith('rtrb::Consumer::<T>::is_empty')]
        R.check(len(re2) == 1 and len(ie) == 1 and pb.dominates(re2[0], ie[0]), 'B.C10.end-order', 'consumer',
                'on the stopping path is_empty() is read before reached_end(): frames pushed between the two reads would be lost',
                detail='reached_end() ≺ is_empty()')
    err_ring(F, R)
    err_propagation(F, R)
    err_flag_writers(F, R)
    # 'ends within bounded time once the sound has been stopped': the thread ends when it reads Stopped from the shared state,
    # and the sound publishes its state only when the manager's update says it changed -> every edge into Stopped reports true
    from .c03 import state_change_reported
    state_change_reported(F, R, rule='B.C10.exit', only_to=('Stopped',))
    # the decoder thread exists at all: into_sound() starts the scheduler on every success path (a streaming sound whose
    # decoder thread is never started stays silent for ever and never reports an error)
    isb = None
    for b0 in F.bodies:
        if b0.krate == 'kira' and b0.path.endswith('::into_sound') and 'StreamingSoundData' in b0.path:
            isb = F.inlined_view(b0.path, depth=1, pred=lambda hp: 'StreamingSoundData' in hp)
    if R.check(isb is not None, 'B.C10.start', 'anchor', 'StreamingSoundData::into_sound not found'):
        starts = set(x for x, t in isb.calls() if (callee_path(t) or '').endswith('DecodeScheduler::<Error>::start'))
        okp = bool(starts)
        for p in explore(isb):
            if p.end != 'return':
                continue
            r = str(p.ret)
            if 'Result::Ok' in r or '::Ok(' in r:
                if not (set(p.blocks) & starts):
                    okp = False
        R.check(okp, 'B.C10.start', 'into_sound', 'StreamingSoundData::into_sound can return Ok without starting the decoder thread',
                detail='split()? ; scheduler.start() ; Ok(..)', where=isb.file)
    # producer order: push before reached_end.store(true)
    pushes = [x for x, t in runb.calls() if (callee_path(t) or '').endswith('rtrb::Producer::<T>::push')]
    stores = [x for x, t in runb.calls() if (callee_path(t) or '').endswith('::store') and 'reached_end' in describe(runb, t['args'][0])]
    from ..rules import always_before
    R.check(len(pushes) == 1 and len(stores) == 1 and order_ok(runb, pushes, stores) and (runb.dominates(pushes[0], stores[0]) or always_before(runb, pushes, stores[0])),
            'B.C10.end-order', 'producer', 'reached_end is raised before the last frame is pushed', detail='push ≺ reached_end.store(true)')


def ends_only_when_done(F, R, rule='B.C10.exit'):
    """The decoder thread stops decoding (run() returns End) only when the sound is Stopped, the audio is at its end, or the
    audio side is gone: every End path has taken one of these three tests, and the shared state is compared with Stopped by
    equality only (a thread that also ends for a sound that is fading out / paused leaves the ring to run dry: silence where
    the file has audio)."""
    runb = F.body(DS + '::run')
    if not R.check(runb is not None, rule, 'anchor:run', 'DecodeScheduler::run not found'):
        return
    n = 0
    for p in explore(runb):
        if p.end != 'return' or 'NextStep::End' not in str(p.ret):
            continue
        n += 1
        why = []
        for bb, d, l in p.decisions:
            if 'Shared::state' in d and '::eq(' in d and 'Stopped' in d and bool_label(l) is True:
                why.append('stopped')
            if d.endswith('.transport.playing') and bool_label(l) is False:
                why.append('end-of-data')
            if 'is_abandoned' in d and bool_label(l) is True:
                why.append('abandoned')
        R.check(bool(why), rule, 'end-only-when-done', 'run() ends the decoder thread on a path that has established none of: state == Stopped, '
                '!transport.playing, is_abandoned(); decisions: %s' % [(d[:60], str(l)) for _, d, l in p.decisions][:6],
                detail={'reasons': why})
    R.floor(rule, n, 3)


def err_ring(F, R):
    """The first error travels over one ring: producer to the scheduler, consumer to the handle, popped by pop_error."""
    sp = None
    for b in F.bodies:
        if b.krate == 'kira' and b.path.endswith('StreamingSoundData::<Error>::split'):
            sp = b
    if not R.check(sp is not None, 'B.C10.err-ring', 'anchor', 'StreamingSoundData::split not found'):
        return
    rings = [(bb, t) for bb, t in sp.calls() if (callee_path(t) or '') == 'rtrb::RingBuffer::<T>::new'
             and 'Error' in ' '.join(t['callee'].get('args', []))]
    if not R.check(len(rings) == 1, 'B.C10.err-ring', 'ring', '%d error rings created in split()' % len(rings)):
        return
    dl = rings[0][1]['dest']['l']
    from .c07 import half_of
    dest_of = {dl: rings[0][0]}
    prod_ok = cons_ok = False
    for bb, t in sp.calls():
        if (callee_path(t) or '').endswith('DecodeScheduler::<Error>::new'):
            prod_ok = any((half_of(sp, a, dest_of) or (None, None))[1] == 0 for a in t['args'])
    for bb, si, st in sp.stmts():
        if st['k'] == 'assign' and st['rv']['k'] == 'agg' and st['rv'].get('adt', '').endswith('StreamingSoundHandle'):
            for fn, op in zip(st['rv']['fields'], st['rv']['ops']):
                if fn == 'error_consumer' and (half_of(sp, op, dest_of) or (None, None))[1] == 1:
                    cons_ok = True
    R.check(prod_ok and cons_ok, 'B.C10.err-ring', 'wiring', 'the error ring is not wired scheduler -> handle (producer ok: %s, consumer ok: %s)' % (prod_ok, cons_ok),
            detail='RingBuffer::new(..): producer -> DecodeScheduler::new, consumer -> StreamingSoundHandle.error_consumer')
    cap = describe(sp, rings[0][1]['args'][0])
    R.check('ERROR_BUFFER_CAPACITY' in cap or cap.isdigit() and int(cap) >= 1, 'B.C10.err-ring', 'capacity', 'error ring capacity is %s' % cap, detail={'capacity': cap})
    pe = None
    for b in F.bodies:
        if b.krate == 'kira' and b.path.endswith('StreamingSoundHandle::<Error>::pop_error'):
            pe = b
    if R.check(pe is not None, 'B.C10.err-ring', 'anchor:pop_error', 'pop_error not found'):
        pops = [t for bb, t in pe.calls() if (callee_path(t) or '') == 'rtrb::Consumer::<T>::pop']
        R.check(len(pops) == 1 and 'error_consumer' in describe(pe, pops[0]['args'][0], depth=4), 'B.C10.err-ring', 'pop_error',
                'pop_error does not pop the error ring', detail='self.error_consumer.pop().ok()')


def err_flag_writers(F, R, rule='B.C10.err-order'):
    """The decoder's error flag is raised once, by the decoder thread, and never lowered: the audio thread's stop-on-error
    gate depends on it, so nothing else may write it (a handle that takes the flag when it hands the error to the game
    hides the failure from the audio thread: the sound plays out its buffer and then waits for ever)."""
    w = []
    for b in F.bodies:
        if b.krate != 'kira':
            continue
        for bb, t in b.calls():
            cp = callee_path(t) or ''
            if cp.startswith('std::sync::atomic::Atomic') and cp.split('::')[-1] in ('store', 'swap', 'fetch_and', 'fetch_or', 'fetch_xor', 'fetch_nand', 'compare_exchange', 'compare_exchange_weak', 'fetch_update'):
                d = describe(b, t['args'][0], depth=5, at=bb)
                if 'encountered_error' in d:
                    v = describe(b, t['args'][1], at=bb) if len(t['args']) > 1 else '?'
                    w.append((b.path.split('::{closure')[0], cp.split('::')[-1], v))
    good = len(w) == 1 and w[0][0].endswith('DecodeScheduler::<Error>::start') and w[0][1] == 'store' and w[0][2] == 'True'
    R.check(good, rule, 'flag:writers', 'encountered_error is written by %s (expected: one `store(true)` in the decoder thread loop)' % [(a.split('::')[-1], o, v) for a, o, v in w][:3],
            detail={'writers': len(w)})


def err_gate_first(F, R, rule='B.C10.err-stop'):
    """A streaming sound whose decoder failed is finished at the next callback whatever state it is in (paused, waiting for
    its start time, waiting to resume): the test of the error flag is the first thing `process` does - it is passed on
    every path, before any of the exits that return silence for a sound that is not advancing."""
    pb = F.body('<%s as sound::Sound>::process' % SS)
    if not R.check(pb is not None, rule, 'anchor:first', 'StreamingSound::process not found'):
        return
    ee = calls_to(pb, 'Shared::encountered_error')
    if not R.check(len(ee) == 1, rule, 'site:first', 'encountered_error() gate not found once'):
        return
    g = ee[0][0]
    every = all(pb.dominates(g, r) for r in pb.return_blocks())
    first_calls = [x for x, t in pb.calls() if pb.dominates(x, g) and x != g]
    first = all((callee_path(pb.blocks[x]['term']) or '').endswith(('::deref', 'Shared::encountered_error')) for x in first_calls)
    R.check(every and first, rule, 'error-gate:first', 'the decoder-error test of StreamingSound::process is not the first thing on every path (%s): a sound that is '
            'paused or waiting when its decoder fails is never stopped and keeps its slot' % ('skipped on some path' if not every else 'work is done before it'),
            detail='error gate first, on every path', where=pb.where(g))


def err_propagation(F, R):
    """Every decoder error (decode, seek - at start, mid-stream, while seeking) reaches run()'s caller: inside the scheduler
    each Result carrying the decoder's Error is propagated (?, match, returned), never dropped or unwrapped."""
    from .c18 import consumers
    n = 0
    for b in F.bodies:
        if b.krate != 'kira' or not b.path.startswith(DS + '::') or '{closure' in b.path:
            continue
        for bb, t in b.calls():
            dty = t['dest'].get('ty') or ''
            nm = t['callee'].get('name')
            if not (dty.startswith('std::result::Result<') and dty.rstrip('>').endswith('Error')):
                continue
            if nm in ('branch', 'from_residual'):
                continue
            n += 1
            key = '%s|%s#%d' % (b.path.split('::')[-1], nm, n)
            if t['dest']['p'] or t['dest']['l'] == 0:
                R.ok('B.C10.err-prop', key, detail='returned to the caller')
                continue
            u = consumers(b, t['dest']['l'])
            good = bool(u & {'branch', 'match', 'return'}) and 'unwrap' not in u and not any(x.startswith('swallow') for x in u)
            R.check(good, 'B.C10.err-prop', key,
                    '%s: the decoder error of %s is %s instead of being propagated to the thread loop (the sound would neither stop nor report it)'
                    % (b.path, callee_path(t), sorted(u) or 'dropped'), detail={'call': callee_path(t), 'consumed_by': sorted(u)}, where=b.where(bb))
    R.floor('B.C10.err-prop', n, 6)


def order_ok_once(b, A, B):
    """A before B within one loop iteration (the loop header removed)."""
    ls = b.loops()
    h = [l['header'] for l in ls]
    fwd = any(set(b.reach_after(a, removed=h)) & set(B) for a in A)
    back = any(set(b.reach_after(x, removed=h)) & set(A) for x in B)
    return fwd and not back


def window_rule(F, R):
    """"Gaps of silence, never repeated ... frames": the interpolation window handed to the resampling step holds what the
    ring buffer holds, in order, and silence in every slot the decoder has not filled yet - it is built from
    `[Frame::ZERO; n]` and each slot is overwritten only by the next buffered frame or, when there is none, by Frame::ZERO
    (never by a copy of another slot)."""
    from ..paths import describe_rv, expand_consts
    b = F.body('sound::streaming::sound::StreamingSound::next_frames')
    if not R.check(b is not None, 'B.C10.starve', 'anchor:next_frames', 'StreamingSound::next_frames not found'):
        return
    ZERO = expand_consts('const frame::Frame::ZERO')
    init = [s for _, _, s in b.stmts() if s['k'] == 'assign' and s['rv']['k'] == 'repeat' and s['lhs'].get('ty', '').startswith('[frame::Frame')]
    ok_init = len(init) == 1 and expand_consts(describe(b, init[0]['rv']['op'])) == ZERO
    from ..facts import op_local

    def values(bb, rv):
        """descriptions of the value(s) a store writes: a temporary assigned on several branches (a `match`) is followed"""
        if rv['k'] == 'use':
            l = op_local(rv['op'])
            ds = b.defs().get(l, []) if l is not None and not rv['op'].get('pl', {}).get('p') else []
            if len(ds) > 1 and b.local_name(l) is None:
                out = []
                for d in ds:
                    if d[0] == 'stmt':
                        out += values(d[1], d[3]['rv'])
                    else:
                        out.append('%s(..)' % (callee_path(d[2]) or '?'))
                return out
        for _ in range(4):
            # through single-assignment temporaries
            if rv['k'] == 'use' and 'pl' in rv['op'] and not rv['op']['pl']['p']:
                d1 = b.single_def(rv['op']['pl']['l'])
                if d1 and d1[0] == 'stmt' and d1[3]['rv']['k'] == 'use' and b.local_name(rv['op']['pl']['l']) is None:
                    rv = d1[3]['rv']
                    continue
            break
        if rv['k'] == 'use' and 'pl' in rv['op'] and rv['op']['pl']['p'] and rv['op']['pl']['p'][-1][0] == 'field' \
                and rv['op']['pl']['p'][-1][2] == 'frame':
            # `entry.frame` where `entry` is what an iterator over the buffered frames yielded
            base = rv['op']['pl']['l']
            for _ in range(4):
                d1 = b.single_def(base)
                if d1 and d1[0] == 'stmt' and d1[3]['rv']['k'] in ('use', 'ref'):
                    src = d1[3]['rv']['op']['pl'] if d1[3]['rv']['k'] == 'use' and 'pl' in d1[3]['rv']['op'] else d1[3]['rv'].get('pl')
                    if src is None:
                        break
                    base = src['l']
                    continue
                break
            ds = b.defs().get(base, [])
            if ds and all(d[0] == 'call' and (d[2].get('callee') or {}).get('name') in ('next', 'next_back') for d in ds):
                return ['<I as std::iter::Iterator>::next(..).frame']
        return [expand_consts(describe_rv(b, rv, depth=8, at=bb))]
    stores = []
    for bb, _, s in b.stmts():
        if s['k'] == 'assign' and s['lhs']['p'] and s['lhs'].get('ty') == 'frame::Frame':
            for d in values(bb, s['rv']):
                stores.append((bb, d))
    bad = []
    for bb, d in stores:
        good = False
        from_ring = 'Iterator>::next(' in d or 'Iterator>::next_back(' in d
        if from_ring and d.startswith('std::option::Option::<T>::unwrap_or(') and d.endswith(', %s)' % ZERO):
            good = True
        if from_ring and d.startswith('std::option::Option::<T>::unwrap_or_default('):
            good = True
        from ..paths import parse_term
        nm_, ar_ = parse_term(d.replace(ZERO, 'ZERO'))
        if from_ring and ar_ and nm_.split('::')[-1] in ('unwrap_or', 'map_or', 'unwrap_or_default') and \
                all(('Iterator>::next' in a and a.count('Iterator>::next') == 1) or a == 'ZERO' or a.startswith('closure') for a in ar_):
            good = True       # next().map_or(ZERO, |entry| entry.frame) and relatives
        if from_ring and d.rstrip(')').endswith('.frame') and 'unwrap_or' not in d:
            good = True       # the frame of a buffered entry (`Some(entry) => entry.frame`, or zipped with the window)
        if d == ZERO:
            good = True
        if not good:
            bad.append(d[:120])
    R.check(ok_init and stores and not bad, 'B.C10.starve', 'window',
            'the interpolation window of a streaming sound is not "buffered frames, then silence": %s'
            % (bad or ('initialised with %s' % [describe(b, s['rv']['op']) for s in init])),
            detail={'slots': 'next buffered frame or Frame::ZERO', 'stores': len(stores)}, where=b.file)

