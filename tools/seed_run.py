#!/usr/bin/env python3
"""Run all 16 quick checks against each seeded change, each in its own scratch copy of /repo (outside /repo and /verif;
/repo itself is never touched), several at a time.
usage: tools/seed_run.py <dir with seed subdirs> [--jobs N] [seed ids...]   -> writes <dir>/<id>/checks.json"""
import concurrent.futures, json, os, queue, shutil, subprocess, sys, tempfile
VERIF = os.path.dirname(os.path.dirname(os.path.abspath(__file__)))
ALLP = ['C01', 'C02', 'C03', 'C05', 'C06', 'C07', 'C08', 'C09', 'C10', 'C12', 'C13', 'C15', 'C16', 'C17', 'C18', 'C19']


def sh(cmd, **kw):
    r = subprocess.run(cmd, stdout=subprocess.PIPE, stderr=subprocess.STDOUT, text=True, **kw)
    return r.returncode, r.stdout


def run_seed(root, sid, slot):
    d = os.path.join(root, sid)
    scratch = tempfile.mkdtemp(prefix='kvseed-')
    res = {}
    try:
        for item in ('crates', 'Cargo.toml', 'Cargo.lock'):
            src = os.path.join('/repo', item)
            dst = os.path.join(scratch, item)
            if os.path.isdir(src):
                shutil.copytree(src, dst, ignore=shutil.ignore_patterns('target'))
            else:
                shutil.copy(src, dst)
        sh(['git', 'init', '-q'], cwd=scratch)
        rc, o = sh(['git', 'apply', '--whitespace=nowarn', os.path.join(d, 'patch.diff')], cwd=scratch)
        if rc != 0:
            return sid, None, 'PATCH DOES NOT APPLY ' + o[-200:]
        ev = os.path.join(scratch, 'evidence')
        env = dict(os.environ, KV_REPO=scratch, KV_EVIDENCE=ev, KV_KEEP_FACTS='1', KV_NO_SELFTEST='1',
                   KV_TARGET=os.path.join(VERIF, '.cache', 'target-scratch-%d' % slot))
        for p in ALLP:
            rc, o = sh([os.path.join(VERIF, 'kv'), 'check', p], env=env)
            keys = [l.split('key=')[1].strip() for l in o.splitlines() if l.strip().startswith('rule=') and 'key=' in l]
            res[p] = {'exit': rc, 'keys': keys}
            if rc not in (0, 1):
                res[p]['tail'] = o[-300:]
    finally:
        shutil.rmtree(scratch, ignore_errors=True)
    caught = sorted(p for p, r in res.items() if r['exit'] == 1)
    crashed = sorted(p for p, r in res.items() if r['exit'] not in (0, 1))
    json.dump({'checks': res, 'caught_by': caught, 'crashed': crashed}, open(os.path.join(d, 'checks.json'), 'w'), indent=1)
    return sid, res, None


def main():
    args = sys.argv[1:]
    jobs = 6
    if '--jobs' in args:
        i = args.index('--jobs'); jobs = int(args[i + 1]); del args[i:i + 2]
    root = args[0]
    ids = args[1:] or sorted(d for d in os.listdir(root) if os.path.exists(os.path.join(root, d, 'patch.diff')))
    slots = queue.Queue()
    for i in range(jobs):
        slots.put(i)

    def work(sid):
        s = slots.get()
        try:
            return run_seed(root, sid, s)
        finally:
            slots.put(s)
    with concurrent.futures.ThreadPoolExecutor(max_workers=jobs) as ex:
        for sid, res, err in ex.map(work, ids):
            if err:
                print(sid, err, flush=True)
                continue
            caught = sorted(p for p, r in res.items() if r['exit'] == 1)
            crashed = sorted(p for p, r in res.items() if r['exit'] not in (0, 1))
            own = sid.split('-')[0]
            print('%-6s %s caught_by=%s %s' % (sid, 'OWN ' if own in caught else ('NEIGH' if caught else 'MISS'), caught,
                                               ('CRASHED ' + str(crashed)) if crashed else ''), flush=True)
            for p in caught:
                print('        %s: %s' % (p, res[p]['keys'][:4]))


if __name__ == '__main__':
    main()
