//! Concrete instantiations of kira's generic resource-creation API, so that the monomorphic walk of
//! engine/kira-mir has roots to start from (Engine A, creation roots, thorough tier of C08).
//! Nothing here is ever executed.
use kira::{
	backend::mock::MockBackend,
	clock::ClockSpeed,
	listener::ListenerHandle,
	modulator::{lfo::LfoBuilder, tweener::TweenerBuilder},
	sound::static_sound::StaticSoundData,
	track::{SendTrackBuilder, SpatialTrackBuilder, SpatialTrackHandle, TrackBuilder, TrackHandle},
	AudioManager,
};

type M = AudioManager<MockBackend>;

pub fn create_play(m: &mut M, d: StaticSoundData) {
	let _ = m.play(d);
}
pub fn create_sub_track(m: &mut M, b: TrackBuilder) {
	let _ = m.add_sub_track(b);
}
pub fn create_spatial_sub_track(m: &mut M, l: &ListenerHandle, b: SpatialTrackBuilder) {
	let _ = m.add_spatial_sub_track(l, glam::Vec3::ZERO, b);
}
pub fn create_send_track(m: &mut M, b: SendTrackBuilder) {
	let _ = m.add_send_track(b);
}
pub fn create_clock(m: &mut M) {
	let _ = m.add_clock(ClockSpeed::TicksPerSecond(1.0));
}
pub fn create_tweener(m: &mut M) {
	let _ = m.add_modulator(TweenerBuilder { initial_value: 0.0 });
}
pub fn create_lfo(m: &mut M) {
	let _ = m.add_modulator(LfoBuilder::new());
}
pub fn create_listener(m: &mut M) {
	let _ = m.add_listener(glam::Vec3::ZERO, glam::Quat::IDENTITY);
}
pub fn create_track_play(t: &mut TrackHandle, d: StaticSoundData) {
	let _ = t.play(d);
}
pub fn create_track_sub_track(t: &mut TrackHandle, b: TrackBuilder) {
	let _ = t.add_sub_track(b);
}
pub fn create_track_spatial_sub_track(t: &mut TrackHandle, l: &ListenerHandle, b: SpatialTrackBuilder) {
	let _ = t.add_spatial_sub_track(l, glam::Vec3::ZERO, b);
}
pub fn create_spatial_play(t: &mut SpatialTrackHandle, d: StaticSoundData) {
	let _ = t.play(d);
}
pub fn create_spatial_sub_track2(t: &mut SpatialTrackHandle, b: TrackBuilder) {
	let _ = t.add_sub_track(b);
}
