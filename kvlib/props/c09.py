"""C09 — a streaming sound behaves exactly like a static sound (sibling agreement of the two hand-maintained copies)."""
from ..paths import explore, describe, describe_rv, pretty_place, bool_label
from ..rules import calls_to, calls_where, blocks_of, order_ok, self_field_of_call
from ..facts import callee_path
from . import c03
from .c02 import loop_of

TEXT = ("StaticSound::process and StreamingSound::process are compared phase by phase on features extracted from their MIR: the same parameter updates with the same dt·len advance; the same state phase in the same order (manager update → mirror, start-time update → stopped → mirror, start-time gate, is_advancing gate); the same per-frame structure (time_in_chunk, four interpolated reads, interpolation read before the position accumulates sample_rate·rate·dt, while >= 1.0 { -= 1.0; step }); the same output expression. Whitelisted, documented differences: abs() vs max(0.0), resampler vs ring buffer, streaming's error/starvation/end gates. read_commands and on_start_processing siblings agree on order. Equality of produced frames is not decided. The transport is moved only by the seek methods, which are entered only from command reading (who-may-call). The decoder declares the end of the data once, after pushing the frame of the step, when the shared transport has stopped. The twin builder methods of the two kinds of sound data do the same thing to the same setting and open files the same way; the end-of-data test follows the pops of the same output frame; every life-cycle command read reaches PlaybackStateManager; the decoder thread rules of C10 and the seek bookkeeping of C18 are evaluated too. Every iteration of the per-frame loop of both kinds of sound stores the scaled, panned source frame and nothing else into the output frame. The playhead's commands are polled in the same order by both kinds of sound; a new streaming sound's first frame is the one at the requested start position. The streaming handle writes its commands whatever it believes the sound's state to be. Where a ring-buffer chunk is taken apart with as_slices(), both halves are used; both constructors hand the settings' fade-in tween to the state machine as it is. The start index of every chunk built in the decode loop is the decoder's frame counter read in that turn of the loop.")
TECHNIQUE = 'MIR sibling-agreement (feature extraction + comparison) rules'

ST = 'sound::static_sound::sound::StaticSound'
SS = 'sound::streaming::sound::StreamingSound'
PSM = c03.PSM


def first_order(b, blocks):
    """Sort blocks by dominance (a before b if a dominates b)."""
    bl = list(blocks)
    r = b.rpo_index()
    bl.sort(key=lambda x: r.get(x, 1 << 30))
    return bl


def features(F, b):
    f = {}
    # phase 1
    ups = [(bb, t) for bb, t in calls_to(b, 'parameter::Parameter::<T>::update', suffix=False)]
    f['param_updates'] = sorted((self_field_of_call(b, t, 0) or '?').split('.')[-1] for bb, t in ups)
    f['param_dt'] = sorted(set(describe(b, t['args'][1], depth=6, at=bb) for bb, t in ups))
    # phase order: the parameter updates come before the start-time / is_advancing gates (they run while paused, too)
    gates = [x for x, t in b.calls() if (callee_path(t) or '') == 'sound::PlaybackState::is_advancing' and not b.in_loop(x)]
    f['params_before_gates'] = bool(ups) and bool(gates) and all(b.dominates(bb, g) for bb, _ in ups for g in gates)
    # phase 2: ordered state events (outside loops)
    names = {PSM + '::update': 'psm.update', 'start_time::StartTime::update': 'start.update', PSM + '::mark_as_stopped': 'mark_stopped',
             'sound::PlaybackState::is_advancing': 'is_advancing'}
    ev = []
    mir = set(c03.mirror_calls(F, b))
    for bb, t in b.calls():
        if b.in_loop(bb):
            continue
        cp = callee_path(t) or ''
        if cp in names:
            ev.append((bb, names[cp]))
        elif bb in mir:
            ev.append((bb, 'mirror'))
        elif t['callee'].get('name') == 'ne' and 'start_time::StartTime' in ' '.join(t['callee'].get('args', [])):
            ev.append((bb, 'start.ne'))
    order = first_order(b, [x for x, _ in ev])
    lab = dict(ev)
    seq = [lab[x] for x in order]
    f['state_phase_all'] = seq
    # per-frame loop
    loops = [l for l in b.loops() if any((callee_path(b.blocks[x]['term']) or '').endswith('parameter::Parameter::<T>::interpolated_value')
                                          for x in l['blocks'])]
    f['frame_loops'] = len(loops)
    if loops:
        L = max(loops, key=lambda l: len(l['blocks']))
        iv = sorted((self_field_of_call(b, b.blocks[x]['term'], 0) or '?').split('.')[-1] for x in L['blocks']
                    if (callee_path(b.blocks[x]['term']) or '') == 'parameter::Parameter::<T>::interpolated_value')
        fv = [x for x in L['blocks'] if (callee_path(b.blocks[x]['term']) or '') == PSM + '::interpolated_fade_volume']
        f['interpolated'] = iv + (['fade'] if fv else [])
        tic = set()
        for x in L['blocks']:
            t = b.blocks[x]['term']
            if t['k'] == 'call' and (callee_path(t) or '') in ('parameter::Parameter::<T>::interpolated_value', PSM + '::interpolated_fade_volume'):
                tic.add(describe(b, t['args'][1], depth=6, at=x))
        f['time_in_chunk'] = sorted(tic)
        acc = []
        dec = []
        cmpw = []
        for x in sorted(L['blocks']):
            for s in b.blocks[x]['stmts']:
                if s['k'] == 'assign' and pretty_place(b, s['lhs']) == '(*self).fractional_position' and s['rv']['k'] == 'bin':
                    d = describe_rv(b, s['rv'], depth=8, at=x)
                    if s['rv']['op'].startswith('Add'):
                        acc.append((x, d))
                    elif s['rv']['op'].startswith('Sub'):
                        dec.append((x, d))
                if s['k'] == 'assign' and s['rv']['k'] == 'bin' and s['rv']['op'] in ('Ge', 'Gt', 'Le', 'Lt'):
                    if describe(b, s['rv']['a'], at=x) == '(*self).fractional_position':
                        cmpw.append('%s(%s)' % (s['rv']['op'], describe(b, s['rv']['b'])))
                    elif describe(b, s['rv']['b'], at=x) == '(*self).fractional_position':   # `1.0 <= fractional_position`
                        cmpw.append('%s(%s)' % ({'Le': 'Ge', 'Lt': 'Gt', 'Ge': 'Le', 'Gt': 'Lt'}[s['rv']['op']], describe(b, s['rv']['a'])))
        import re
        f['accumulate'] = [re.sub(r'(std|core)::f64::<impl f64>::(abs|max)\(', 'RATE(', re.sub(r', 0\.0\)', ')', d)) for _, d in acc]
        f['rate_sanitiser'] = ['abs' if 'f64>::abs(' in d else ('max0' if 'f64>::max(' in d and ', 0.0)' in d else 'none') for _, d in acc]
        f['decrement'] = [d for _, d in dec]
        f['while'] = cmpw
        # interpolation read precedes the accumulation in one iteration
        reads = [x for x in L['blocks'] if (callee_path(b.blocks[x]['term']) or '').endswith(('resampler::Resampler::get', 'frame::interpolate_frame'))]
        from .c02 import order_ok_in_loop
        f['read_before_step'] = bool(reads) and bool(acc) and order_ok_in_loop(b, L, reads, [x for x, _ in acc])
        # the inner while loop steps the source
        inner = [l for l in b.loops() if l['header'] in L['blocks'] and l['header'] != L['header'] and any(x in l['blocks'] for x, _ in dec)]
        f['inner_while'] = len(inner)
        steps = []
        for l in inner:
            for x in sorted(l['blocks']):
                cp = callee_path(b.blocks[x]['term']) or ''
                if cp.endswith(('StaticSound::update_position', 'rtrb::Consumer::<T>::pop')):
                    steps.append(cp.split('::')[-1])
        f['step'] = steps
        # output
        outs = []
        out_blocks = []
        for x in sorted(L['blocks']):
            for s in b.blocks[x]['stmts']:
                if s['k'] == 'assign' and s['lhs']['p'] and s['lhs']['p'][0][0] == 'deref' and 'Frame' in (s['lhs'].get('ty') or ''):
                    d = describe_rv(b, s['rv'], depth=5, at=x)
                    if 'panned' in d:
                        outs.append(re.sub(r'resampler::Resampler::get\([^)]*\)+|frame::interpolate_frame\(.*?\)(?=, )', 'SRC', d))
                        out_blocks.append(x)
                    else:
                        # anything else stored into the output frame (silence, the unscaled source ...)
                        outs.append('other: ' + d[:80])
        f['output'] = outs
        from ..rules import must_pass
        entry = [y for y in b.succ(L['header']) if y in L['blocks']]
        f['output_every_iteration'] = bool(out_blocks) and must_pass(b, entry, [L['header']], out_blocks)
    return f


def run(ctx, R, tier):
    F = ctx.facts('default')
    a = F.body('<%s as sound::Sound>::process' % ST)
    b = F.body('<%s as sound::Sound>::process' % SS)
    if not R.check(a is not None and b is not None, 'B.C09.sib', 'anchor', 'process siblings not found'):
        return
    fa, fb = features(F, a), features(F, b)
    import re as _re

    def nrm(v):
        if isinstance(v, str):
            return _re.sub(r'_\d+', '_', v)
        if isinstance(v, list):
            return [nrm(x) for x in v]
        return v
    fa = {k: nrm(v) for k, v in fa.items()}
    fb = {k: nrm(v) for k, v in fb.items()}
    R.extra['static_features'] = {k: v for k, v in fa.items()}
    R.extra['streaming_features'] = {k: v for k, v in fb.items()}
    same_keys = ['param_updates', 'param_dt', 'params_before_gates', 'frame_loops', 'interpolated', 'time_in_chunk', 'accumulate', 'decrement', 'while',
                 'read_before_step', 'inner_while']
    expect = {
        'param_updates': ['panning', 'playback_rate', 'volume'],
        'interpolated': ['panning', 'playback_rate', 'volume', 'fade'],
        'while': ['Ge(1.0)'], 'read_before_step': True, 'params_before_gates': True, 'inner_while': 1, 'frame_loops': 1,
    }
    for k in same_keys:
        ok = fa.get(k) == fb.get(k) and (k not in expect or fa.get(k) == expect[k]) and fa.get(k) not in (None, [])
        R.check(ok, 'B.C09.sib', k, 'static and streaming process() disagree on %s: %s vs %s' % (k, fa.get(k), fb.get(k)),
                detail={'feature': k, 'value': fa.get(k)})
    state_phase(F, R, fa=fa, fb=fb)
    # whitelisted differences
    R.check(fa['rate_sanitiser'] == ['abs'] and fb['rate_sanitiser'] == ['max0'], 'B.C09.sib', 'whitelist:rate',
            'playback-rate handling is %s / %s (documented: static plays backwards through abs(), streaming clamps at 0)' % (fa['rate_sanitiser'], fb['rate_sanitiser']),
            detail={'static': fa['rate_sanitiser'], 'streaming': fb['rate_sanitiser']})
    R.check(fa['step'] == ['update_position'] and fb['step'] == ['pop'], 'B.C09.sib', 'whitelist:step',
            'source stepping is %s / %s' % (fa['step'], fb['step']), detail={'static': fa['step'], 'streaming': fb['step']})
    oa, ob = fa.get('output'), fb.get('output')
    import re
    norm = lambda s: re.sub(r'SRC|resampler::Resampler::get\(.*?\)\)|frame::interpolate_frame\(.*\)', 'SRC', s) if s else s
    R.check(bool(oa) and bool(ob) and len(oa) == 1 and len(ob) == 1 and shape(oa[0]) == shape(ob[0]), 'B.C09.sib', 'output',
            'output expressions differ: %s vs %s' % (oa, ob), detail={'shape': shape(oa[0]) if oa else None})
    R.check(fa.get('output_every_iteration') and fb.get('output_every_iteration'), 'B.C09.sib', 'output:every-frame',
            'an iteration of the per-frame loop can finish without storing the scaled, panned source frame (static: %s, streaming: %s): '
            'the two kinds of sound do not produce the same frame there' % (fa.get('output_every_iteration'), fb.get('output_every_iteration')),
            detail='every iteration stores (SRC * fade * volume).panned(panning)')

    frame_source(F, R)
    ring_halves(F, R)
    # 'does not depend on packet sizes or on how far before the requested frame a seek lands'
    from .c18 import chunk_start
    chunk_start(F, R, rule='B.C09.frame')
    settings_verbatim(F, R)
    seek_callers(F, R)
    end_rule(F, R)
    end_after_step(F, R)
    sib_data(F, R)
    from .c03 import commands_reach_manager
    commands_reach_manager(F, R, rule='B.C09.cmd-applied')
    # ... and is written by the handle whatever state the handle believes the sound to be in, for both kinds of sound
    from .c07 import write_unconditional
    write_unconditional(F, R, rule='B.C09.cmd', floor=8, fn_filter=lambda p: ('sound::static_sound::handle' in p or 'sound::streaming::handle' in p))
    from .c18 import seek_landing
    seek_landing(F, R)
    # 'given a decoder that keeps ahead of playback': the decoder thread keeps decoding until the sound is Stopped (not
    # merely Stopping: a stop fade can be resumed), sleeps only when the ring is full, ends at the end of the data - the C10 rules
    from . import c10
    c10.run(ctx, R, tier)
    # read_commands siblings
    def reader_fn(owner):
        ob_ = F.body('<%s as sound::Sound>::on_start_processing' % owner)
        if ob_ is None:
            return None
        for bb, t in ob_.calls():
            cb = F.body(callee_path(t) or '')
            if cb is not None and cb.krate == 'kira' and any((callee_path(tt) or '') == 'command::CommandReader::<T>::read' for _, tt in cb.calls()):
                return cb
        return None
    ra = reader_fn(ST)
    rb = reader_fn(SS)
    if R.check(ra is not None and rb is not None, 'B.C09.sib-cmd', 'anchor', 'read_commands siblings not found'):
        qa, qb = reader_sequence(ra), reader_sequence(rb)
        common = [x for x in qa if x in qb]
        R.check(common == qb and qb == ['set_volume', 'set_playback_rate', 'set_panning', 'pause', 'resume', 'stop'], 'B.C09.sib-cmd', 'order',
                'command order differs: static %s, streaming %s' % (qa, qb), detail={'static': qa, 'streaming': qb})
    transport_cmd_order(F, R)
    for tag, owner in (('static', ST), ('streaming', SS)):
        ob_ = F.body('<%s as sound::Sound>::on_start_processing' % owner)
        if R.check(ob_ is not None, 'B.C09.sib-on-start', 'anchor:' + tag, 'on_start_processing not found'):
            st = [bb for bb, t in ob_.calls() if (callee_path(t) or '').endswith('::store') and 'position' in describe(ob_, t['args'][0])]
            rc = []
            for bb, t in ob_.calls():
                cb = F.body(callee_path(t) or '')
                if cb is not None and cb.krate == 'kira' and any((callee_path(tt) or '') in ('command::CommandReader::<T>::read', 'parameter::Parameter::<T>::read_command') for _, tt in cb.calls()):
                    rc.append(bb)
            R.check(len(st) == 1 and len(rc) == 1 and order_ok(ob_, st, rc), 'B.C09.sib-on-start', tag,
                    '%s::on_start_processing does not publish the position before reading commands' % owner, detail='position.store ≺ read_commands')


def transport_cmd_order(F, R, rule='B.C09.sib-cmd'):
    """Commands of different kinds issued between two callbacks take effect as if applied in one fixed order: the playhead's
    commands are polled loop region first, then the relative seek, then the absolute one - in the static sound's
    `read_commands` and in the decoder thread's `run` alike - so that a seek issued after a loop-region change is wrapped
    by the region that is in force (and the two kinds of sound agree)."""
    DS = 'sound::streaming::sound::decode_scheduler::DecodeScheduler::<Error>'
    want = ['set_loop_region', 'seek_by', 'seek_to']
    for tag, b in (('static', F.inlined_view(ST + '::read_commands', depth=1, pred=lambda hp: hp.startswith(ST + '::')) or F.body(ST + '::read_commands')),
                   ('streaming', F.inlined_view(DS + '::run', depth=1, pred=lambda hp: hp.startswith(DS + '::') and not hp.endswith(('::frame_at_index', '::seek_to', '::seek_by', '::seek_to_index'))))):
        if not R.check(b is not None, rule, 'anchor:transport-order:' + tag, 'command reading of the %s sound not found' % tag):
            continue
        q = [x for x in reader_sequence(b) if x in want]
        R.check(q == want, rule, 'transport-order:' + tag, 'the %s sound polls its playhead commands in the order %s, not %s' % (tag, q, want),
                detail={'order': q}, where=b.file)


def reader_sequence(b):
    """The command readers a function polls, by field name, in control-flow order."""
    from .c07 import origin_pl, last_field
    out = []
    for bb, t in b.calls():
        cp = callee_path(t) or ''
        if cp == 'command::CommandReader::<T>::read':
            lf = last_field(origin_pl(b, t['args'][0]) or {})
            out.append((bb, lf[0] if lf else '?'))
        elif cp == 'parameter::Parameter::<T>::read_command':
            lf = last_field(origin_pl(b, t['args'][1]) or {})
            out.append((bb, lf[0] if lf else '?'))
    order = first_order(b, [x for x, _ in out])
    lab = dict(out)
    return [lab[x] for x in order]


def shape(d):
    """Operator skeleton of the output expression with the sample source abstracted."""
    import re
    d = re.sub(r'\s+', ' ', d)
    m = re.match(r'frame::Frame::panned\(<frame::Frame as std::ops::Mul<f32>>::mul\(<frame::Frame as std::ops::Mul<f32>>::mul\((.*)\)$', d)
    ops = re.findall(r'frame::Frame::panned|Mul<f32>>::mul|as_amplitude|interpolated_fade_volume|interpolated_value', d)
    return ops


def end_rule(F, R, rule='B.C09.end'):
    """A streaming sound ends where the static sound ends: the decoder declares the end of the data (`reached_end`) only when
    the shared Transport logic has stopped playing (the same `increment_position` the static sound uses) and after the frame
    of that step has been pushed -- never on a position test of its own, which would end the sound a frame earlier or later
    than the static sound for start positions at or past the end."""
    DS = 'sound::streaming::sound::decode_scheduler::DecodeScheduler::<Error>'
    b = F.inlined_view(DS + '::run', depth=1, pred=lambda hp: hp.startswith(DS + '::') and not hp.endswith(('::frame_at_index', '::seek_to', '::seek_by', '::seek_to_index')))
    if not R.check(b is not None, rule, 'anchor', 'DecodeScheduler::run not found'):
        return
    stores = [x for x, t in b.calls() if (callee_path(t) or '').endswith('::store') and 'reached_end' in describe(b, t['args'][0], depth=6)]
    pushes = [x for x, t in b.calls() if (callee_path(t) or '').endswith('rtrb::Producer::<T>::push')]
    from ..rules import always_before
    ok = len(stores) == 1 and len(pushes) == 1 and (b.dominates(pushes[0], stores[0]) or always_before(b, pushes, stores[0]))
    gate = False
    if ok:
        for g in range(b.n):
            t = b.blocks[g]['term']
            if t['k'] == 'switch' and b.dominates(g, stores[0]) and describe(b, t['op'], depth=3, at=g).endswith('transport.playing'):
                f = dict(t['targets']).get('0')
                gate = f is not None and b.dominates(f, stores[0])
    R.check(ok and gate, rule, 'reached_end',
            'the decoder raises reached_end %d time(s) / not after pushing the frame of the step / not under `!transport.playing`: the '
            'streaming sound would end at a different frame than a static sound of the same audio' % len(stores),
            detail='push(frame) ≺ if !transport.playing { reached_end.store(true) }, once', where=b.file)


def seek_callers(F, R):
    """The playback position (Transport) jumps only on behalf of a seek command.  In both sound kinds `Transport::seek_to` is
    reached only through the seek methods (`seek_to`, `seek_by`, `seek_to_index`), and those are entered only from the
    command-reading function and from each other -- never from the frame lookup / decoding path, where an index is an
    absolute frame of the (sliced) file and not a playback position."""
    from ..rt import strip_closures
    SEEKS = ('seek_to', 'seek_by', 'seek_to_index')
    n = 0
    for b in F.bodies:
        if b.krate != 'kira':
            continue
        owner = strip_closures(b.path)
        oname = owner.split('::')[-1]
        for bb, t in b.calls():
            cp = callee_path(t) or ''
            if cp == 'sound::transport::Transport::seek_to':
                n += 1
                R.check(oname in SEEKS and ('StaticSound' in owner or 'DecodeScheduler' in owner), 'B.C09.seek', 'transport<-%s' % owner,
                        '%s moves the transport: only the seek methods of a sound may (a position is not a file index)' % owner,
                        detail={'caller': owner}, where=b.where(bb))
            elif cp.split('::')[-1] in SEEKS and ('StaticSound::' in cp or 'DecodeScheduler::' in cp):
                n += 1
                ok = oname in SEEKS or oname in ('read_commands', 'run', 'on_start_processing')
                R.check(ok, 'B.C09.seek', '%s<-%s' % (cp.split('::')[-1], owner),
                        '%s calls %s: a seek is performed only for a seek command (from the command-reading function or another seek method)'
                        % (owner, cp), detail={'caller': owner, 'callee': cp}, where=b.where(bb))
    R.floor('B.C09.seek', n, 6)


def state_phase(F, R, rule='B.C09.sib', fa=None, fb=None):
    """Where in `process` a sound can be marked as stopped: in the state phase at the top (the fade finished, the start time
    can never come, the decoder failed) and, for the end of the data, in the step that consumes the last source frame - not at
    some later point (the top of the next output frame, the next callback), which would keep a finished sound loaded and its
    handle saying Playing for longer than the sound lasts."""
    if fa is None or fb is None:
        import re as _re
        a = F.body('<%s as sound::Sound>::process' % ST)
        b = F.body('<%s as sound::Sound>::process' % SS)
        if not R.check(a is not None and b is not None, rule, 'anchor:state-phase', 'process siblings not found'):
            return
        fa, fb = features(F, a), features(F, b)
    # state phase: streaming has extra leading/trailing gates; the common subsequence must be the static sequence
    sa = fa['state_phase_all']
    sb = [e for e in fb['state_phase_all']]
    want = ['psm.update', 'mirror', 'start.update', 'mark_stopped', 'mirror', 'start.ne', 'is_advancing']
    R.check(sa == want, rule, 'state-phase:static', 'static state phase is %s' % sa, detail={'sequence': sa})
    # streaming: [mark_stopped, mirror] (error gate) + want
    R.check(sb == ['mark_stopped', 'mirror'] + want, rule, 'state-phase:streaming',
            'streaming state phase is %s (expected the error gate followed by the static sequence)' % sb, detail={'sequence': sb})


def ring_halves(F, R, rule='B.C09.ring'):
    """What the streaming sound reads from the frame ring does not depend on where the ring wraps: wherever a read chunk is
    taken apart with as_slices(), both halves are used (the readable region is first half then second half; code that looks
    at the first half only sees a shorter region whenever the region wraps, e.g. reports a stale position)."""
    n = 0
    for b in F.bodies:
        if b.krate != 'kira':
            continue
        for bb, t in b.calls():
            if not (callee_path(t) or '').endswith('ReadChunk::<\'_, T>::as_slices') and not (callee_path(t) or '').endswith('::as_slices'):
                continue
            if 'rtrb' not in (callee_path(t) or ''):
                continue
            n += 1
            dl = t['dest']['l']
            used = set()
            for _, pl, kind in b.all_places():
                if kind == 'use' and pl['l'] == dl and pl['p'] and pl['p'][0][0] == 'field':
                    used.add(pl['p'][0][1])
            whole = any(kind == 'use' and pl['l'] == dl and not pl['p'] for _, pl, kind in b.all_places())
            R.check(whole or {0, 1} <= used, rule, 'both-halves:%s#%d' % (b.path.split('::')[-1], n),
                    '%s takes a ring-buffer chunk apart with as_slices() and uses only half %s of it: what it reads changes when the readable '
                    'region wraps around the end of the ring' % (b.path, sorted(used)), detail={'halves_used': sorted(used)}, where=b.where(bb))
    R.floor(rule, n, 2)


def settings_verbatim(F, R, rule='B.C09.sib-data'):
    """'Given the same audio data and settings': both kinds of sound hand the fade-in tween of their settings to
    PlaybackStateManager::new as it is."""
    for owner, key in ((ST, 'static'), (SS, 'streaming')):
        b = F.body(owner + '::new')
        if not R.check(b is not None, rule, 'anchor:new:' + key, '%s::new not found' % owner):
            continue
        cs = [(bb, t) for bb, t in b.calls() if (callee_path(t) or '').endswith('PlaybackStateManager::new')]
        d = describe(b, cs[0][1]['args'][0], depth=6, at=cs[0][0]) if len(cs) == 1 else '?'
        R.check(len(cs) == 1 and d.endswith('.fade_in_tween') and '(' not in d.replace('(*', '').replace('(settings', ''), rule, 'fade-in:' + key,
                '%s::new builds its PlaybackStateManager from %s, not from the settings\' fade_in_tween as it is' % (owner, d[:100]),
                detail={'fade_in': d[:100]}, where=b.file)


def frame_source(F, R):
    """DecodeScheduler::frame_at_index: Frame::ZERO is produced only for an index past the end of the audio; every other
    frame comes out of a decoded chunk (no frame is invented, whatever the packet sizes)."""
    b = F.body('sound::streaming::sound::decode_scheduler::DecodeScheduler::<Error>::frame_at_index')
    if not R.check(b is not None, 'B.C09.frame', 'anchor', 'DecodeScheduler::frame_at_index not found'):
        return
    ok = True
    why = ''
    kinds = set()
    for p in explore(b):
        if p.end != 'return':
            continue
        ret = str(p.ret)
        if not ret.startswith('std::result::Result::Ok('):
            kinds.add('err')
            continue
        past_end = any(desc.startswith('Le(Sub(') and desc.endswith(', index)') and bool_label(lab) is True for _, desc, lab in p.decisions)   # index >= end - start
        if 'const frame::Frame::ZERO' in ret:
            kinds.add('zero')
            if not past_end:
                ok = False
                why = 'silence (Frame::ZERO) is returned on a path where the index was not past the end of the audio'
        else:
            kinds.add('frame')
            if 'DecodedChunk::frame_at_index' not in ret and 'as Some' not in ret:
                ok = False
                why = 'a frame is returned that does not come out of a decoded chunk: %s' % ret[:100]
    R.check(ok and {'zero', 'frame'} <= kinds, 'B.C09.frame', 'frame_at_index', why or 'outcomes %s' % sorted(kinds),
            detail={'outcomes': sorted(kinds)}, where=b.file)


def end_after_step(F, R):
    """The streaming sound notices the end of its data in the same output frame in which it consumed the last source frame,
    as the static sound does (whose end test sits inside `update_position`, i.e. after the step): inside the per-frame loop
    the `reached_end() && frame_consumer.is_empty()` test comes after the loop that pops source frames.  Tested before the
    pops, the sound is still Playing after the callback in which a static sound of the same audio is already Stopped."""
    b = F.body('<sound::streaming::sound::StreamingSound as sound::Sound>::process')
    if not R.check(b is not None, 'B.C09.sib', 'anchor:end-after-step', 'StreamingSound::process not found'):
        return
    pops = [x for x, t in b.calls() if (callee_path(t) or '').endswith(('rtrb::Consumer::<T>::pop', 'rtrb::Consumer::<T>::read_chunk')) and b.in_loop(x)]
    emp = [x for x, t in b.calls() if (callee_path(t) or '').endswith('rtrb::Consumer::<T>::is_empty') and b.in_loop(x)]
    ok = False
    if pops and len(emp) == 1:
        outer = [l for l in b.loops() if emp[0] in l['blocks']]
        if outer:
            L = max(outer, key=lambda l: len(l['blocks']))
            after_pop = set()
            for p_ in pops:
                after_pop |= b.reachable([p_], stop=[L['header']])
            before = b.reachable([emp[0]], stop=[L['header']])
            ok = emp[0] in after_pop and not (set(pops) & (before - {emp[0]}))
    R.check(ok, 'B.C09.sib', 'end-after-step', 'in the per-frame loop of StreamingSound::process the end-of-data test does not come after the frames '
            'of this step were popped: the streaming sound stops one output frame later than the static sound', detail='pop loop ≺ reached_end && is_empty', where=b.file)


SD_A = 'sound::static_sound::data::StaticSoundData'
SD_B = 'sound::streaming::data::StreamingSoundData::<Error>'


def _sd_norm(d):
    import re
    d = re.sub(r'\(\*+_1\)\.\^self|\*+_1\.\^self|_1\.\^self', 'self', d)
    for _ in range(3):
        d = re.sub(r'(?<![\w>])\(\*?self\)', 'self', d)
    d = d.replace('core::slice::<impl [T]>::len(<std::sync::Arc<T, A> as std::ops::Deref>::deref(&self.frames))', 'FILE_LEN').replace('core::slice::<impl [T]>::len(&(*self.frames))', 'FILE_LEN')
    d = re.sub(r'(?:<[^<>]*as )?sound::streaming::decoder::Decoder>?::num_frames\((?:[^()]|\((?:[^()]|\([^()]*\))*\))*\)', 'FILE_LEN', d)
    d = re.sub(r'(?:<[^<>]*as )?sound::streaming::decoder::Decoder>?::sample_rate\((?:[^()]|\((?:[^()]|\([^()]*\))*\))*\)', 'RATE', d)
    d = re.sub(r'self\.sample_rate', 'RATE', d)
    d = re.sub(r'closure\([^)]*\)', 'closure(..)', d)
    d = re.sub(r'_\d+', '_', d)
    return d


def _sd_events(F, owner, nm):
    """The normalised events of one builder method (with its closures and, virtually, its new private helpers): which setting
    receives what, which values a re-assigned local takes, what the closures return.  Local names are not part of an event
    (the twins may name their locals differently); a store is keyed by the setting it goes to, whatever path leads there."""
    import re
    out = []
    bodies = [F.body(owner + '::' + nm)] + list(F.closures_of(owner + '::' + nm))
    def norm(b, d):
        d = _sd_norm(d)
        names = sorted(set(n for n in b.names.values() if n and n not in ('self',)), key=len, reverse=True)
        for n_ in names:
            d = re.sub(r'(?<![\w:.^])%s(?![\w(:])' % re.escape(n_), '_', d)
        d = re.sub(r'\(\*_\)', '_', d)
        d = re.sub(r'_\.\^\w+', '_', d)
        return d
    for b in bodies:
        if b is None:
            continue
        for bb, si, s in b.stmts():
            if s['k'] != 'assign':
                continue
            if s['lhs']['p']:
                key = None
                for pr in reversed(s['lhs']['p']):
                    if pr[0] == 'field' and len(pr) > 3 and str(pr[3]).endswith('SoundSettings'):
                        key = 'settings.' + pr[2]
                        break
                    if pr[0] == 'field' and len(pr) > 3 and str(pr[3]).split('<')[0].endswith('SoundData') and pr[2] == 'slice':
                        key = 'slice'
                        break
                if key:
                    out.append(('store', key, norm(b, describe_rv(b, s['rv'], depth=8, at=bb))))
            elif b.local_name(s['lhs']['l']) and len(b.defs().get(s['lhs']['l'], [])) > 1:
                out.append(('assign', norm(b, describe_rv(b, s['rv'], depth=8, at=bb))))
        for bb, t in b.calls():
            d = t.get('dest')
            if d and not d['p'] and b.local_name(d['l']) and len(b.defs().get(d['l'], [])) > 1:
                out.append(('assign', norm(b, '%s(%s)' % (callee_path(t), ', '.join(describe(b, a, depth=6, at=bb) for a in t['args'])))))
        if '{closure' in b.path:
            for p in explore(b):
                if p.end == 'return' and str(p.ret) != '()':
                    out.append(('closure-ret', norm(b, str(p.ret))))
    return sorted(set(out))


def sib_data(F, R, rule='B.C09.sib-data'):
    """"Given the same audio data and settings": the two kinds of sound data are configured by twin builder methods
    (`slice`, `loop_region`, `start_position`, `start_time`, `volume`, `playback_rate`, `panning`, `fade_in_tween`) that do the
    same thing to the same setting - compared as the normalised set of stores / intermediate values / closure results of
    each pair (the static sound's `frames.len()` and sample rate standing for the decoder's `num_frames()` and
    `sample_rate()`); and both open a file the same way (`from_file`, `from_cursor` hand the source to `from_media_source`
    with no adapter in between: an adapter can make the stream unseekable)."""
    import re
    from ..paths import describe_rv
    n = 0
    for nm in ('slice', 'loop_region', 'start_position', 'start_time', 'volume', 'playback_rate', 'panning', 'fade_in_tween'):
        if not R.check(F.body(SD_A + '::' + nm) is not None and F.body(SD_B + '::' + nm) is not None, rule, 'anchor:' + nm, 'builder method %s not found on both kinds of sound data' % nm):
            continue
        n += 1
        ea, eb = _sd_events(F, SD_A, nm), _sd_events(F, SD_B, nm)
        da = [e for e in ea if e not in eb]
        db = [e for e in eb if e not in ea]
        R.check(ea == eb and bool(ea), rule, nm, 'StaticSoundData::%s and StreamingSoundData::%s differ: static only %s / streaming only %s' % (nm, nm, [str(e)[:110] for e in da][:2], [str(e)[:110] for e in db][:2]),
                detail={'events': len(ea)}, where=F.body(SD_B + '::' + nm).file)
    R.floor(rule, n, 8)
    for nm in ('from_file', 'from_cursor'):
        a = F.body('sound::static_sound::data::from_file::<impl sound::static_sound::data::StaticSoundData>::' + nm) or F.body(SD_A + '::' + nm)
        b = F.body('sound::streaming::data::StreamingSoundData::<sound::error::FromFileError>::' + nm)
        if a is None or b is None:
            cand_a = [x for x in F.bodies if x.krate == 'kira' and x.path.endswith('::' + nm) and 'static_sound' in x.path and '{closure' not in x.path]
            cand_b = [x for x in F.bodies if x.krate == 'kira' and x.path.endswith('::' + nm) and 'streaming::data' in x.path and '{closure' not in x.path]
            a = a or (cand_a[0] if cand_a else None)
            b = b or (cand_b[0] if cand_b else None)
        if not R.check(a is not None and b is not None, rule, 'anchor:' + nm, '%s not found on both kinds of sound data' % nm):
            continue
        allowed = ('std::fs::File::open', 'std::boxed::Box::<T>::new', 'std::boxed::Box::<T, A>::new', '::SymphoniaDecoder::new', '::from_decoder',
                   '::from_media_source', '::from_boxed_media_source', 'std::ops::Try>::branch', 'std::ops::FromResidual', '::from_residual', 'std::convert::From', 'AsRef', '::into', '::from')
        extra = []
        for body in (a, b):
            for _, t in body.calls():
                cp = callee_path(t) or ''
                if not any(x in cp for x in allowed):
                    extra.append(cp)
        R.check(not extra, rule, nm, '%s wraps / transforms its source on the way to the decoder (%s): the decoder no longer works on the file itself '
                '(an adapter such as a read-only buffered reader makes the stream unseekable: backward seeks and loops fail)' % (nm, extra[:3]),
                detail={'static': [(callee_path(t) or '').split('::')[-1] for _, t in a.calls()], 'streaming': [(callee_path(t) or '').split('::')[-1] for _, t in b.calls()]}, where=b.file)
