"""C15 — spatial tracks (structural clauses)."""
from ..paths import explore, describe, describe_rv, pretty_place, bool_label
from ..rules import calls_to, calls_where, blocks_of, order_ok
from ..facts import callee_path

TEXT = ('A spatial track without a resolvable listener writes Frame::ZERO for every frame; listener ids resolve through the generation-checked arena; spatialization_strength is clamped to [0,1] before 1 - strength and the ear gain is min + (1 - min)·v; the distance range is only used by clamp(min,max) and /(max-min) after an ordering test of the two bounds; the spatial info is inherited by child tracks and feeds Info::listener_distance. Monotonicity, symmetry and gain bounds are relations between renderings and are not decided. Inside the spatial branch the per-frame listener loop cannot be skipped. With an attenuation function the signal is multiplied by the distance amplitude on every path; it is folded to mono exactly when the strength is non-zero. Each channel is scaled by the gain of its own ear. The falloff is (clamp(d, min, max) - min) / (max - min). The ears are head-fixed (orientation applied to a constant vector, plus the position); every singular float operation in the spatial code has its domain proved or recorded (A.singular). Listener pose and emitter position are read at the same in-chunk time (lerp of previous and current on every path; interpolated_value(time_in_chunk) in spatialize); dropped listeners are removed (drain / sweep / drop / reserve rules of C08). Every non-frozen path of Track::process reaches its spatial branch; SpatialData::spatialize keeps no memory (takes &self, writes nothing, no interior-mutability field). Modulators, clocks and listeners advance in the documented order within a chunk. Listener and spatial-track handles write every command they are given (no \'the handle already knows\' shortcut). The removal scan of the listener storage visits every key. The spatial builder\'s setters store what they are given.')
TECHNIQUE = 'MIR path / operand-flow rules + interval evaluation of singular float operations'

TRACK = 'track::sub::Track'


def run(ctx, R, tier):
    F = ctx.facts('default')
    from ..enginea import run_singular_only
    run_singular_only(R, F, lambda fn: 'track::sub' in fn or 'info::' in fn or 'glam::' in fn or 'listener' in fn, floor=4)
    rigid(F, R)
    in_chunk(F, R)
    # 'if the listener was dropped the track is silent': dropped listeners are removed (the C08 drain / sweep / drop rules)
    from . import c08
    # listener pose and emitter position belong to the same chunk: modulators, clocks and listeners advance in the documented
    # order, each once, by this chunk's duration (the C05 rule)
    from .c05 import order as chunk_order
    chunk_order(F, R)
    # a position / orientation / strength request is written whatever the handle remembers having asked for before
    from .c07 import write_unconditional
    write_unconditional(F, R, rule='B.C15.cmd', floor=4, fn_filter=lambda q: q.startswith('listener::handle') or 'spatial_handle' in q)
    c08.drain(F, R)
    c08.sweep(F, R)
    c08.drops(F, R)
    c08.reserve(F, R)
    c08.storage_loops(F, R)
    # the distances / attenuation / strength a spatial track is built with are the ones it was configured with
    from .c02 import setters
    setters(F, R, rule='B.C15.setter', fn_filter=lambda q: 'spatial_builder' in q or q.startswith('listener::'), floor=4)
    tb = F.body(TRACK + '::process')
    if not R.check(tb is not None, 'B.C15.nolistener', 'anchor', 'Track::process not found'):
        return
    # ---- no listener => ZERO
    li = calls_to(tb, "info::Info::<'a>::listener_info", suffix=False)
    sp = calls_to(tb, 'track::sub::SpatialData::spatialize', suffix=False)
    if R.check(len(li) == 1 and len(sp) == 1, 'B.C15.nolistener', 'sites', 'listener_info()/spatialize() not found once in Track::process'):
        lb = li[0][0]
        # switch on discr of the Option returned
        from ..rules import switch_on_call
        sw = switch_on_call(tb, lb)
        ok = False
        why = 'listener_info() result is not matched on'
        if sw is not None:
            sbb, edges, neg = sw
            from ..paths import switch_info
            desc, labels, dplace = switch_info(tb, sbb)
            none_t = None
            for v, b in edges.items():
                if labels.get(v, v) == 'None' or (v == 'otherwise' and 'None' not in [labels.get(x) for x in edges if x != 'otherwise'] and set(labels.values()) == {'None', 'Some'} and labels.get('1') == 'Some' and '1' in edges):
                    none_t = b
            if none_t is None and '0' in edges:
                none_t = edges['0']
            if none_t is not None:
                # in the None branch (up to the loop header) the frame is assigned Frame::ZERO and spatialize is not called
                L = min(tb.in_loop(lb), key=lambda l: len(l['blocks']))
                reach = tb.reachable([none_t], stop=[L['header']]) - {L['header']}
                zero = [s for x in reach for s in tb.blocks[x]['stmts'] if s['k'] == 'assign' and s['lhs']['p']
                        and describe_rv(tb, s['rv']) == 'const frame::Frame::ZERO']
                if not zero:
                    # `*frame = match .. { .., None => Frame::ZERO }`: the None arm gives a temporary the value, the store
                    # into the frame (shared with the other arm) moves it there
                    from ..facts import op_local
                    tmp = [s['lhs']['l'] for x in reach for s in tb.blocks[x]['stmts'] if s['k'] == 'assign' and not s['lhs']['p']
                           and describe_rv(tb, s['rv']) == 'const frame::Frame::ZERO']
                    zero = [s for x in reach for s in tb.blocks[x]['stmts'] if s['k'] == 'assign' and s['lhs']['p'] and s['lhs']['p'][0][0] == 'deref'
                            and s['rv']['k'] == 'use' and op_local(s['rv']['op']) in tmp]
                calls = [callee_path(tb.blocks[x]['term']) for x in reach if tb.blocks[x]['term']['k'] == 'call']
                ok = len(zero) == 1 and sp[0][0] not in reach and not calls
                why = 'without a listener the frame is not set to Frame::ZERO (stores: %d, calls: %s)' % (len(zero), calls)
        R.check(ok, 'B.C15.nolistener', 'Track::process', why, detail='listener_info() == None => *frame = Frame::ZERO', where=tb.where(lb))
        # ... and that per-frame test cannot be skipped: inside the spatial branch (the Some edge of the test on
        # self.spatial_data) every path to the code after the branch passes the header of the loop that asks for the listener
        from ..paths import switch_info
        from ..rules import must_pass
        ent = None
        for x in range(tb.n):
            t = tb.blocks[x]['term']
            if t['k'] == 'switch' and not tb.blocks[x]['cleanup']:
                desc, labels, dplace = switch_info(tb, x)
                if dplace and dplace.endswith('spatial_data') and set(labels.values()) >= {'Some', 'None'}:
                    tg = dict((labels.get(v, v), b) for v, b in t['targets'])
                    some_t = tg.get('Some', t['otherwise'] if 'None' in tg else None)
                    none_t2 = tg.get('None', t['otherwise'] if 'Some' in tg else None)
                    if some_t is not None and none_t2 is not None:
                        ent = (some_t, none_t2)
        if R.check(ent is not None and tb.in_loop(lb), 'B.C15.nolistener', 'anchor:spatial-branch', 'the `if let Some(spatial_data)` branch of Track::process was not found'):
            L = min(tb.in_loop(lb), key=lambda l: len(l['blocks']))
            after = [x for x in tb.reachable([ent[1]]) if not tb.blocks[x]['cleanup']]
            R.check(must_pass(tb, [ent[0]], after, [L['header']]), 'B.C15.nolistener', 'not-skippable',
                    'a spatial track can leave its spatial branch without running the per-frame loop that silences it when the listener '
                    'does not exist (and attenuates / pans it when it does)', detail='spatial branch => per-frame listener loop on every path',
                    where=tb.where(L['header']))
            # ... and the spatial branch itself (where the emitter's position and the strength advance and the gains are
            # applied) is entered in every chunk the track is not frozen: no exit of Track::process skips the test on
            # self.spatial_data except the silent exit of a paused track
            sw = [x for x in range(tb.n) if tb.blocks[x]['term']['k'] == 'switch' and not tb.blocks[x]['cleanup']
                  and (switch_info(tb, x)[2] or '').endswith('spatial_data') and ent[0] in tb.succ(x) and tb.dominates(gate_bb(tb), x)]
            from ..rules import bool_edges
            silent = set()
            adv = calls_to(tb, 'sound::PlaybackState::is_advancing')
            be = bool_edges(tb, adv[0][0]) if adv else None
            if be:
                silent = tb.reachable([be[1]], stop=sw) - tb.reachable([be[0]], stop=sw)
            skipped = [r for r in tb.return_blocks() if r not in silent and not must_pass(tb, [0], [r], sw)]
            R.check(bool(sw) and not skipped, 'B.C15.nolistener', 'branch-every-chunk',
                    'Track::process can return (at %s) without reaching its spatial branch: on that path the emitter position and the '
                    'spatialization strength do not advance and the output is not spatialised' % (tb.where(skipped[0]) if skipped else '?'),
                    detail='every non-frozen path tests self.spatial_data', where=tb.where(sw[0]) if sw else tb.file)
    lb = None
    for b in F.bodies:
        if b.path.startswith("info::Info::<'a>::listener_info") and b.krate == 'kira':
            g = calls_to(b, 'atomic_arena::Arena::<T>::get', suffix=False)
            if g:
                lb = b
    R.check(lb is not None, 'B.C15.lookup', 'listener_info', 'listener ids are not resolved through the generation-checked Arena::get',
            detail='listeners.get(listener_id.0)')

    follows_distance(F, R)
    # ---- 'depends only on ...': spatialize is a function of its arguments and the track's parameters - it keeps no memory
    # of earlier frames (a memoised gain is right only while everything it was computed from stands still)
    sb0 = F.body('track::sub::SpatialData::spatialize')
    if R.check(sb0 is not None, 'B.C15.stateless', 'anchor', 'spatialize not found'):
        shared = sb0.locals[1]['ty'].startswith('&') and not sb0.locals[1]['ty'].startswith('&mut')
        writes = [pretty_place(sb0, s['lhs']) for _, _, s in sb0.stmts() if s['k'] == 'assign' and s['lhs']['p'] and s['lhs']['l'] == 1]
        fields = F.struct_fields('track::sub::SpatialData') or []
        IM = ('Cell<', 'RefCell<', 'Atomic', 'Mutex<', 'RwLock<', 'OnceCell', 'OnceLock')
        cells = [f['name'] for f in fields if any(x in f['ty'] for x in IM)]
        R.check(bool(fields) and not cells and not writes and (shared or not writes), 'B.C15.stateless', 'spatialize',
                'SpatialData::spatialize keeps state between frames (%s): its result no longer depends only on the positions, the '
                'orientation and the parameters of this frame' % ', '.join(cells + writes), detail={'fields': len(fields), 'self': sb0.locals[1]['ty']},
                where=sb0.file)
    # ---- strength
    sb = F.body('track::sub::SpatialData::spatialize')
    if R.check(sb is not None, 'B.C15.strength', 'anchor', 'spatialize not found'):
        M = None
        ok = False
        for bb, si, st in sb.stmts():
            if st['k'] == 'assign' and st['rv']['k'] == 'bin' and st['rv']['op'] == 'Sub' and describe(sb, st['rv']['a']) == '1.0':
                d = describe(sb, st['rv']['b'], depth=12, at=bb)
                if 'spatialization_strength' not in d:
                    continue
                inner = d
                while inner.startswith('Sub(1.0, ') and inner.endswith(')'):
                    inner = inner[len('Sub(1.0, '):-1]
                if inner.startswith('core::f32::<impl f32>::clamp(') and inner.endswith(', 0.0, 1.0)'):
                    ok = True
                    if M is None and not d.startswith('Sub('):
                        M = 'Sub(1.0, %s)' % d
                else:
                    ok = False
                    break
        R.check(ok and M is not None, 'B.C15.strength', 'clamp', 'spatialization_strength is used in 1 - strength without clamp(0, 1)',
                detail='1.0 - strength.clamp(0.0, 1.0)')
        gains = []
        if M is not None:
            for bb, si, st in sb.stmts():
                if st['k'] == 'assign' and st['rv']['k'] == 'bin' and st['rv']['op'] == 'Add':
                    d = describe_rv(sb, st['rv'], depth=14, at=bb)
                    from ..paths import parse_term
                    n0, a0 = parse_term(d)
                    if n0 == 'Add' and a0 and M in a0:
                        gains.append(d)

        def gain_shape(g):
            # min + (1 - min) * ((dot + 1) / 2), operands of + and * in any order
            from ..paths import parse_term as pt
            n0, a0 = pt(g)
            if n0 != 'Add' or not a0 or len(a0) != 2 or M not in a0:
                return False
            x = [v for v in a0 if v != M]
            if len(x) != 1:
                return False
            n1, a1 = pt(x[0])
            if n1 != 'Mul' or not a1 or len(a1) != 2 or ('Sub(1.0, %s)' % M) not in a1:
                return False
            y = [v for v in a1 if v != 'Sub(1.0, %s)' % M]
            if len(y) != 1:
                return False
            n2, a2 = pt(y[0])
            if n2 != 'Div' or not a2 or len(a2) != 2 or a2[1] != '2.0':
                return False
            n3, a3 = pt(a2[0])
            return n3 == 'Add' and a3 is not None and len(a3) == 2 and '1.0' in a3 and any(v.startswith('glam::Vec3::dot(') for v in a3)
        okg = len(gains) == 2 and all(gain_shape(g) for g in gains)
        if okg:
            # ... and each channel gets the gain of its own ear
            side = {}
            for bb, si, st in sb.stmts():
                if st['k'] == 'assign' and st['lhs']['p'] and pretty_place(sb, st['lhs']).endswith(('.left', '.right')) and st['rv']['k'] == 'bin' and st['rv']['op'] == 'Mul':
                    d = describe(sb, st['rv']['b'], depth=12, at=bb)
                    if 'glam::Vec3::dot(' in d:
                        ch = pretty_place(sb, st['lhs']).rsplit('.', 1)[1]
                        side[ch] = ('listener_ear_directions(listener_orientation).0' in d, 'listener_ear_directions(listener_orientation).1' in d,
                                    'listener_ear_positions(listener_position, listener_orientation).0' in d, 'listener_ear_positions(listener_position, listener_orientation).1' in d)
            R.check(side.get('left') == (True, False, True, False) and side.get('right') == (False, True, False, True), 'B.C15.strength', 'ear-side',
                    'the left channel is not scaled by the left ear\'s gain and the right channel by the right ear\'s (%s): the balance would favour the wrong side' % side,
                    detail={'left': 'ear .0', 'right': 'ear .1'})
        R.check(okg, 'B.C15.strength', 'ear-gain', 'per-ear factor is not min + (1 - min)·(dot + 1)/2 (%d candidates)' % len(gains),
                detail={'min_ear_amplitude': M[:120] if M else None})

    # ---- attenuation and the mono fold-down (shape of SpatialData::spatialize)
    if sb is not None:
        from ..paths import switch_info
        mul = [(x, t) for x, t in sb.calls() if (callee_path(t) or '').split('::')[-1] in ('mul_assign', 'mul') and 'frame::Frame' in (callee_path(t) or '')]
        att = [(x, t) for x, t in mul if 'Sub(1.0, track::sub::spatial_builder::SpatialTrackDistances::relative_distance(' in describe(sb, t['args'][1], depth=14, at=x)
               and 'Decibels::as_amplitude(' in describe(sb, t['args'][1], depth=14, at=x)
               and 'interpolate(const decibels::Decibels::SILENCE, const decibels::Decibels::IDENTITY' in describe(sb, t['args'][1], depth=14, at=x)]
        sw = [x for x in range(sb.n) if sb.blocks[x]['term']['k'] == 'switch' and not sb.blocks[x]['cleanup']
              and (switch_info(sb, x)[2] or '').endswith('attenuation_function')]
        ok = len(att) == 1 and len(sw) == 1
        if ok:
            t = sb.blocks[sw[0]]['term']
            desc, labels, dplace = switch_info(sb, sw[0])
            tg = dict((labels.get(v, v), b2) for v, b2 in t['targets'])
            some_t = tg.get('Some', t['otherwise'] if 'None' in tg else None)
            none_t = tg.get('None', t['otherwise'] if 'Some' in tg else None)
            after = [x for x in sb.reachable([none_t]) if not sb.blocks[x]['cleanup']] if none_t is not None else []
            # with an attenuation function, the code after the branch is reached only through the multiplication
            from ..rules import must_pass
            ok = some_t is not None and must_pass(sb, [some_t], after, [att[0][0]])
        R.check(ok, 'B.C15.atten', 'spatialize',
                'with an attenuation function the signal is not multiplied, on every path, by the amplitude derived from '
                'relative_distance(|listener - emitter|) (the distance would not change the level)',
                detail='if let Some(f) = attenuation_function { output *= amplitude(f(1 - relative_distance)) }', where=sb.file)
        mono = [x for x, t in sb.calls() if (callee_path(t) or '') == 'frame::Frame::as_mono']
        okm = False
        if len(mono) == 1:
            for x in range(sb.n):
                t = sb.blocks[x]['term']
                if t['k'] == 'switch' and sb.dominates(x, mono[0]) and x != mono[0]:
                    d = describe(sb, t['op'], depth=6, at=x)
                    if d.startswith(('Ne(', 'Eq(')) and 'spatialization_strength' in d and (d.rstrip(')').endswith('0.0') or d.startswith(('Ne(0.0, ', 'Eq(0.0, '))):
                        nz = t['otherwise'] if d.startswith('Ne(') else dict(t['targets']).get('0')
                        z = dict(t['targets']).get('0') if d.startswith('Ne(') else t['otherwise']
                        # folded to mono (and panned) exactly on the non-zero side; the zero side returns the stereo signal
                        okm = nz is not None and sb.dominates(nz, mono[0]) and (z is None or mono[0] not in sb.reachable([z], stop=[x]))
        R.check(okm, 'B.C15.strength', 'mono-iff-panned',
                'the signal is not folded to mono exactly when the spatialisation strength is non-zero (at strength 0 the stereo signal must pass unpanned)',
                detail='if strength != 0.0 { output = output.as_mono(); pan }')

    distance_range(F, R)

    # ---- finite output: no normalisation of a vector that can be zero
    nn = 0
    for b in F.bodies:
        if b.krate != 'kira' or not b.path.startswith(('track::sub', 'listener', 'info::')):
            continue
        for bb, t in b.calls():
            cp = callee_path(t) or ''
            if cp.startswith('glam::') and cp.split('::')[-1] in ('normalize', 'normalize_or_zero', 'try_normalize', 'normalize_or'):
                nn += 1
                R.check(cp.split('::')[-1] != 'normalize', 'B.C15.finite', '%s|%s#%d' % (b.path, cp.split('::')[-1], nn),
                        '%s normalises %s with glam\'s normalize(), which yields NaN for a zero vector (emitter exactly on an ear or on the '
                        'listener); the zero-safe normalize_or_zero() is required for "finite for every finite position"'
                        % (b.path, describe(b, t['args'][0], depth=3, at=bb)[:80]), detail={'call': cp}, where=b.where(bb))
    R.floor('B.C15.finite', nn, 2)
    # ---- inheritance
    sub = calls_to(tb, TRACK + '::process', suffix=False)
    info = calls_to(tb, "info::Info::<'a>::new", suffix=False)
    ok = len(sub) == 1 and len(info) == 1
    if ok:
        d_child = describe(tb, sub[0][1]['args'][6], depth=4, at=sub[0][0]) if len(sub[0][1]['args']) > 6 else '?'
        d_info = describe(tb, info[0][1]['args'][3], depth=4, at=info[0][0])
        ok = d_child == d_info and 'Option::<T>::or(' in d_info and 'parent_spatial_track_info' in d_info
        R.check(ok, 'B.C15.inherit', 'Track::process', 'spatial info passed to children (%s) / Info (%s) is not own.or(parent)' % (d_child[:100], d_info[:100]),
                detail={'spatial_track_info': d_info[:160]})
    ld = F.body("info::Info::<'a>::listener_distance")
    if R.check(ld is not None, 'B.C15.inherit', 'anchor:listener_distance', 'not found'):
        z = calls_to(ld, 'std::option::Option::<T>::zip', suffix=False)
        okz = len(z) == 1 and 'spatial_track_info' in describe(ld, z[0][1]['args'][0]) and 'listener_info(' in describe(ld, z[0][1]['args'][1])
        if not okz:
            # written out with `?`: the distance between a position taken from listener_info() and the one taken from the
            # (inherited) spatial_track_info
            for bb, t in ld.calls():
                if (callee_path(t) or '') == 'glam::Vec3::distance':
                    ds = [describe(ld, a, depth=8, at=bb) + ' ' + ' '.join(sources(ld, a)) for a in t['args']]
                    okz = any('listener_info' in x for x in ds) and any('spatial_track_info' in x for x in ds)
        R.check(okz, 'B.C15.inherit', 'listener_distance', 'listener_distance does not combine the (inherited) spatial info with listener_info()',
                detail='spatial_track_info.zip(self.listener_info())')


def sources(body, op, limit=40):
    """What a value is computed from, transitively: the callees and the `self` places its backward slice passes through
    (through copies, projections, the payloads `?` unwraps, conversions)."""
    from ..facts import op_local
    out = set()
    work = [op_local(op)] if isinstance(op, dict) and 'pl' in op else []
    if isinstance(op, dict) and 'pl' in op and op['pl']['p']:
        out.add(pretty_place(body, op['pl']))
    seen = set()
    while work and len(seen) < limit:
        l = work.pop()
        if l is None or l in seen:
            continue
        seen.add(l)
        for d in body.defs().get(l, []):
            if d[0] == 'call':
                out.add(callee_path(d[2]) or '?')
                ops = d[2]['args']
            else:
                rv = d[3]['rv']
                ops = [rv[k] for k in ('op', 'a', 'b') if isinstance(rv.get(k), dict)] + list(rv.get('ops') or [])
                if rv.get('pl'):
                    ops.append({'k': 'copy', 'pl': rv['pl']})
            for o in ops:
                if isinstance(o, dict) and 'pl' in o:
                    if o['pl']['p']:
                        out.add(pretty_place(body, o['pl']))
                    work.append(o['pl']['l'])
    return sorted(out)


def follows_distance(F, R):
    """A parameter linked to the listener distance keeps following it: it never becomes stagnant (only fixed targets do),
    and Value::raw_value reads Info::listener_distance for that variant."""
    from . import c06, c17
    c06.finish(F, R)
    c17.hold(F, R)


def constructors_ordered(F):
    """Every function that builds SpatialTrackDistances from two runtime values compares them first."""
    n = 0
    for b in F.bodies:
        if b.krate != 'kira':
            continue
        for bb, si, s in b.stmts():
            if s['k'] == 'assign' and s['rv']['k'] == 'agg' and s['rv'].get('adt') == 'track::sub::spatial_builder::SpatialTrackDistances':
                ds = [describe(b, o, at=bb) for o in s['rv']['ops']]
                try:
                    float(ds[0]); float(ds[1])
                    if float(ds[0]) < float(ds[1]):
                        continue
                except ValueError:
                    pass
                n += 1
                cmp_ = False
                for x in range(b.n):
                    t = b.blocks[x]['term']
                    if t['k'] == 'switch' and b.dominates(x, bb):
                        d = describe(b, t['op'], depth=4, at=x)
                        if d.split('(')[0] in ('Lt', 'Le', 'Gt', 'Ge'):
                            cmp_ = True
                mm = any((callee_path(t) or '').endswith(('::min', '::max')) for _, t in b.calls())
                if not (cmp_ or mm):
                    return False
    return n > 0


def gate_bb(tb):
    adv = calls_to(tb, 'sound::PlaybackState::is_advancing')
    return adv[0][0] if adv else 0


def rigid(F, R):
    """"Unchanged by a rigid motion applied to listener and emitter together": the ears are fixed to the head - each ear
    direction is the listener's orientation applied to a constant vector, each ear position is the listener's position plus
    the orientation applied to a constant offset.  (Any other composition, e.g. a constant rotation applied AFTER the
    orientation, turns the ears about a world axis and breaks the invariance for listeners that pitch or roll.)"""
    from ..paths import parse_term
    from ..rules import constant_term
    QM = '<glam::Quat as std::ops::Mul<glam::Vec3>>::mul'
    for fn, what in (('track::sub::listener_ear_directions', 'dir'), ('track::sub::listener_ear_positions', 'pos')):
        b = F.body(fn)
        if not R.check(b is not None, 'B.C15.rigid', 'anchor:' + what, '%s not found' % fn):
            continue
        rets = [str(p.ret) for p in explore(b) if p.end == 'return']
        bad = None
        if len(rets) != 1:
            bad = '%d return paths' % len(rets)
        else:
            name, parts = parse_term(rets[0])
            if name != 'tuple' or not parts or len(parts) != 2:
                bad = 'returns %s' % rets[0][:80]
            else:
                for part in parts:
                    n2, a2 = parse_term(part)
                    if what == 'pos':
                        if n2 != '<glam::Vec3 as std::ops::Add>::add' or not a2 or len(a2) != 2 or 'listener_position' not in a2:
                            bad = 'an ear position is %s, not listener_position + orientation * offset' % part[:100]
                            break
                        rot = [x for x in a2 if x != 'listener_position'][0]
                        n2, a2 = parse_term(rot)
                    if n2 != QM or not a2 or a2[0] != 'listener_orientation' or not constant_term(a2[1]):
                        bad = 'an ear %s is %s, not the listener orientation applied to a head-fixed constant vector' % (
                            'direction' if what == 'dir' else 'offset', part[:120])
                        break
        R.check(bad is None, 'B.C15.rigid', what, '%s: %s' % (fn, bad), detail='orientation * constant (+ position)', where=b.file)


def distance_range(F, R):
    """The distance range: ordered bounds before clamp / division, and the falloff (clamp(d, min, max) - min) / (max - min) -
    which is also what keeps the argument of the attenuation easing inside [0, 1]."""
    # ---- distance range
    rb = F.body('track::sub::spatial_builder::SpatialTrackDistances::relative_distance')
    if R.check(rb is not None, 'B.C15.range', 'anchor', 'relative_distance not found'):
        cl = calls_to(rb, 'core::f32::<impl f32>::clamp', suffix=False)
        divs = [(bb, s) for bb, si, s in rb.stmts() if s['k'] == 'assign' and s['rv']['k'] == 'bin' and s['rv']['op'] == 'Div']
        sinks = [(bb, 'clamp(min,max)') for bb, t in cl if 'min_distance' in describe(rb, t['args'][1]) and 'max_distance' in describe(rb, t['args'][2])]
        sinks += [(bb, '/(max-min)') for bb, s in divs if 'max_distance' in describe(rb, s['rv']['b'], at=bb) and 'min_distance' in describe(rb, s['rv']['b'], at=bb)]
        guarded_here = True
        for bb, what in sinks:
            g = False
            for x in range(rb.n):
                t = rb.blocks[x]['term']
                if t['k'] == 'switch' and x != bb and rb.dominates(x, bb):
                    d = describe(rb, t['op'], depth=4, at=x)
                    from ..paths import parse_term
                    gn, ga = parse_term(d)
                    # only the TRUE side of a strict `min < max` (or `max > min`) establishes an ordered, non-NaN pair:
                    # `<=` admits min == max (0/0), and the false side of `>=` admits NaN (f32::clamp panics)
                    strict = ga is not None and len(ga) == 2 and (
                        (gn == 'Lt' and 'min_distance' in ga[0] and 'max_distance' in ga[1]) or
                        (gn == 'Gt' and 'max_distance' in ga[0] and 'min_distance' in ga[1]))
                    if strict:
                        true_t = t['otherwise']
                        false_t = dict(t['targets']).get('0')
                        if rb.dominates(true_t, bb) and (false_t is None or bb not in rb.reachable([false_t], stop=[x])):
                            g = True
            if not g:
                guarded_here = False
        # or: every constructor orders / validates the pair
        ctor_ok = constructors_ordered(F)
        R.check(bool(sinks) and (guarded_here or ctor_ok) if sinks else True, 'B.C15.range', 'relative_distance',
                'SpatialTrackDistances::relative_distance uses f32::clamp(min_distance, max_distance) and divides by (max_distance - '
                'min_distance) but nothing establishes min < max, neither here nor where the struct is built from user input '
                '(From<(f32,f32)>, From<[f32;2]>, From<RangeInclusive<f32>>, public fields): distances((10.0, 1.0)) panics inside '
                'f32::clamp on the audio thread, distances((5.0, 5.0)) divides 0/0 and emits NaN',
                detail={'sinks': [w for _, w in sinks], 'guarded_in_fn': guarded_here, 'constructors_order_bounds': ctor_ok},
                where=rb.file)
        if not sinks:
            R.ok('B.C15.range', 'relative_distance', detail='no clamp(min,max) / division by (max-min) on raw bounds')
        # the falloff itself: (clamp(distance, min, max) - min) / (max - min), 0 at the minimum distance and 1 at the maximum
        rets = [str(p.ret) for p in explore(rb) if p.end == 'return']
        want = 'Div(Sub(core::f32::<impl f32>::clamp(distance, (*self).min_distance, (*self).max_distance), (*self).min_distance), Sub((*self).max_distance, (*self).min_distance))'
        rets = [r.replace('(*self)', 'self') for r in rets]
        want = want.replace('(*self)', 'self')
        R.check(want in rets, 'B.C15.range', 'formula',
                'relative_distance does not return (clamp(distance, min, max) - min) / (max - min) (returns %s): unity within the minimum '
                'distance and zero at the maximum would not hold' % [r[:90] for r in rets], detail={'returns': [r[:120] for r in rets]})



def in_chunk(F, R):
    """Listener pose and emitter position are read at the same in-chunk time: ListenerInfo::interpolated_position /
    _orientation are, on every path, the lerp from the previous to the current value (the lerp of the orientation is what
    re-normalises it), and SpatialData::spatialize reads the emitter position with
    `position.interpolated_value(time_in_chunk)` - not the end-of-chunk `value()`, which would move the emitter a chunk ahead
    of the listener when both are shifted together."""
    for fn, op in (('info::ListenerInfo::interpolated_position', 'glam::Vec3::lerp'), ('info::ListenerInfo::interpolated_orientation', 'glam::Quat::lerp')):
        b = F.body(fn)
        if not R.check(b is not None, 'B.C15.in-chunk', 'anchor:' + fn.split('::')[-1], '%s not found' % fn):
            continue
        rets = [str(p.ret) for p in explore(b) if p.end == 'return']
        okr = bool(rets) and all((op + '(') in r and 'previous_' in r and 'amount' in r and r.count('::lerp(') == 1 for r in rets)
        R.check(okr, 'B.C15.in-chunk', fn.split('::')[-1], '%s returns %s: not the lerp of previous and current on every path' % (fn, [r[:70] for r in rets][:3]),
                detail={'returns': [r[:90] for r in rets]}, where=b.file)
    sb = F.body('track::sub::SpatialData::spatialize')
    if R.check(sb is not None, 'B.C15.in-chunk', 'anchor:spatialize', 'spatialize not found'):
        reads = [(x, (callee_path(t) or '').split('::')[-1], describe(sb, t['args'][0], depth=3, at=x)) for x, t in sb.calls()
                 if (callee_path(t) or '').startswith('parameter::Parameter::<T>::') and (callee_path(t) or '').split('::')[-1] in ('value', 'previous_value', 'interpolated_value')]
        bad = [(nm, d) for x, nm, d in reads if nm != 'interpolated_value']
        pos = [d for x, nm, d in reads if d.endswith('.position')]
        R.check(not bad and bool(pos), 'B.C15.in-chunk', 'spatialize', 'spatialize reads %s with an end-of-chunk getter instead of interpolated_value(time_in_chunk)' % bad,
                detail={'reads': [(nm, d) for _, nm, d in reads]}, where=sb.file)
