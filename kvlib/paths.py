"""Path-sensitive structural exploration of one MIR body.

`explore(body, ...)` walks every (block, abstract state) pair reachable from the
entry.  The abstract state tracks, for a set of *tracked enum places*, the set of
variants the place may hold, plus the decisions taken on the way (which value a
`SwitchInt` operand had, with a structural description of that operand).  No
arithmetic is interpreted and no solver is involved: infeasible paths are pruned
only through the discriminants of tracked places.
"""
from .facts import (trace, is_const, is_place, const_value, callee_path, resolve_place_str,
                    op_local)


def arg_names(body):
    m = {}
    for l, n in body.names.items():
        m[l] = n
    return m


def reaching_def(body, l, at_bb):
    """The unique definition of local `l` that reaches the end of block `at_bb`
    (for user variables that are reassigned: `let mut x = a; x = f(x);`), or None."""
    ds = body.defs().get(l, [])
    lim = getattr(at_bb, 'si', None)
    at_bb = int(at_bb)
    same = [d for d in ds if d[1] == at_bb and d[0] == 'stmt' and (lim is None or d[2] < lim)]
    if same:
        return max(same, key=lambda d: d[2])
    doms = [d for d in ds if d[1] != at_bb and body.dominates(d[1], at_bb)]
    if not doms:
        return None
    best = None
    for d in doms:
        if all(body.dominates(o[1], d[1]) for o in doms):
            best = d
    if best is None:
        return None
    for o in ds:
        if o is best or o in doms:
            continue
        after = body.reach_after(best[1])
        if o[1] in after and at_bb in body.reach_after(o[1]) | {o[1]}:
            return None
    return best


def _agg_field(body, pl, at, depth=5):
    """(operand, block) stored into the field `pl` names, when `pl` is `(l as V).i` / `l.i` and the value of `l` that
    reaches the use is an aggregate of that variant built in this function (through plain moves), never modified in
    place or lent out mutably afterwards; None otherwise."""
    pr = pl['p']
    variant = None
    if pr[0][0] == 'downcast':
        if len(pr) != 2 or pr[1][0] != 'field':
            return None
        variant, fld = pr[0][1], pr[1]
    elif len(pr) == 1:
        fld = pr[0]
    else:
        return None
    l = pl['l']
    seen = []
    while depth > 0:
        depth -= 1
        if 1 <= l <= body.arg_count:
            return None
        seen.append(l)
        ds = body.defs().get(l, [])
        d = ds[0] if len(ds) == 1 else (reaching_def(body, l, at) if at is not None else None)
        if d is None or d[0] != 'stmt':
            return None
        rv = d[3]['rv']
        if rv['k'] == 'use' and is_place(rv['op']) and not rv['op']['pl']['p']:
            l, at = rv['op']['pl']['l'], d[1]
            continue
        if rv['k'] != 'agg' or rv.get('ak') not in ('adt', 'tuple'):
            return None
        if rv.get('ak') == 'adt' and (rv.get('variant') if variant is not None else None) != variant:
            return None
        if variant is None and rv.get('ak') == 'adt' and body_adt_is_enum(body, rv):
            return None
        ops = rv.get('ops') or []
        idx = fld[1]
        if rv.get('ak') == 'adt' and rv.get('fields') and len(fld) > 2 and fld[2] in rv['fields']:
            idx = rv['fields'].index(fld[2])
        if not isinstance(idx, int) or idx >= len(ops):
            return None
        # nothing writes into the aggregate or borrows it mutably between its construction and the read
        if not _never_modified(body, seen):
            return None
        return ops[idx], d[1]
    return None


def _root_local(body, l, depth=6):
    """The local a value was copied from, through plain whole-local copies / moves with a single definition."""
    for _ in range(depth):
        if 1 <= l <= body.arg_count:
            break
        ds = body.defs().get(l, [])
        if len(ds) != 1 or ds[0][0] != 'stmt':
            break
        rv = ds[0][3]['rv']
        if rv['k'] == 'use' and is_place(rv['op']) and not rv['op']['pl']['p']:
            l = rv['op']['pl']['l']
            continue
        break
    return l


def _partially_assigned(body):
    """Locals that have a field (not behind a dereference) assigned somewhere."""
    pa = getattr(body, '_partial', None)
    if pa is None:
        pa = set()
        for bb, si, st in body.stmts():
            if st['k'] == 'assign' and st['lhs']['p'] and st['lhs']['p'][0][0] in ('field', 'downcast'):
                pa.add(st['lhs']['l'])
        body._partial = pa
    return pa


def _stable_during_helpers(body, l):
    """The caller's local `l` is written only by the caller's own statements (never inside a spliced-in helper body) and is
    never lent out mutably: what a helper was handed by value is what `l` holds for as long as the helper runs."""
    for bi, blk in enumerate(body.blocks):
        for st in blk['stmts']:
            if st['k'] != 'assign':
                continue
            if st['lhs']['l'] == l and blk.get('inl'):
                return False
            if st['rv']['k'] in ('ref', 'rawptr') and st['rv'].get('bk') != 'shared' and st['rv']['pl']['l'] == l:
                return False
        t = blk['term']
        if t['k'] == 'call' and not t['dest']['p'] and t['dest']['l'] == l and blk.get('inl'):
            return False
    return True


def _never_modified(body, locals_):
    """No statement assigns to a part of one of these locals or borrows one of them mutably: each holds what it was given."""
    for bb, si, st in body.stmts():
        if st['k'] == 'assign' and st['lhs']['p'] and st['lhs']['l'] in locals_ and st['lhs']['p'][0][0] != 'deref':
            return False
        if st['k'] == 'assign' and st['rv']['k'] in ('ref', 'rawptr') and st['rv'].get('bk') != 'shared' and st['rv']['pl']['l'] in locals_:
            return False
    return True


def body_adt_is_enum(body, rv):
    return rv.get('variant') is not None and (getattr(body, 'adt_discr', None) or {}).get((rv.get('adt'), rv.get('variant'))) is not None \
        and len([1 for (a, v) in body.adt_discr if a == rv.get('adt')]) > 1


CONSTS = {}   # named constants of the crate: path -> text of the initialiser (set by Facts)


def expand_consts(d, depth=3):
    """Replace every `const <path>` of a named constant whose initialiser is a single expression by that expression, so
    that `Self::IDENTITY` and the literal `Decibels(0.0)` it stands for read the same."""
    import re
    for _ in range(depth):
        changed = False
        for path, text in CONSTS.items():
            if ('const ' + path) in d:
                d = re.sub(r'const ' + re.escape(path) + r'(?![A-Za-z0-9_])', lambda m: text, d)
                changed = True
        if not changed:
            break
    return d


COMMUTATIVE = ('Add', 'Mul', 'Eq', 'Ne', 'AddWithOverflow', 'MulWithOverflow', 'AddUnchecked', 'MulUnchecked', 'BitAnd', 'BitOr', 'BitXor')
SCALAR_TYS = ('f32', 'f64', 'bool', 'usize', 'isize', 'u8', 'u16', 'u32', 'u64', 'u128', 'i8', 'i16', 'i32', 'i64', 'i128', 'char')


def describe(body, op, depth=6, at=None):
    """Structural description of an operand (a string that is stable under
    renumbering of temporaries).  `at` = block of the use, to resolve reassigned variables."""
    if depth <= 0:
        return '?'
    if is_const(op):
        if op.get('promoted'):
            return 'promoted[%s]' % op.get('ptext', '?')
        if 'def' in op and not (op.get('ty') in SCALAR_TYS and 'bits' in op):
            return 'const ' + op['def']
        # (a named constant of primitive type is transparent: `const MIN: f32 = -1.0` reads as -1.0)
        v = const_value(op)
        if v is not None:
            return repr(v)
        return op.get('text', '?')
    if not is_place(op):
        return '?'
    pl = op['pl']
    l = pl['l']
    if pl['p'] and pl['p'][0][0] in ('field', 'downcast') and l in getattr(body, 'inl_params', ()):
        # a by-value parameter of a spliced-in helper, bound once to a place of the caller (`write_mono(channels, frame)`): while
        # the helper runs the caller does nothing, so a field of the parameter is that field of the caller's place
        ds0 = body.defs().get(l, [])
        if len(ds0) == 1 and ds0[0][0] == 'stmt' and ds0[0][3]['rv']['k'] == 'use' and is_place(ds0[0][3]['rv']['op']) \
                and _never_modified(body, [l]) and _stable_during_helpers(body, ds0[0][3]['rv']['op']['pl']['l']):
            src = ds0[0][3]['rv']['op']['pl']
            return describe(body, {'k': 'copy', 'pl': {'l': src['l'], 'p': list(src['p']) + list(pl['p']), 'ty': pl.get('ty')}}, depth, at=ds0[0][1])
    if pl['p'] and pl['p'][0][0] in ('field', 'downcast') and not (1 <= l <= body.arg_count):
        # a field of an aggregate built in this very function (a command enum constructed by the caller and matched in a
        # spliced-in helper, a tuple bound to a local and then taken apart): the operand that was put there
        got = _agg_field(body, pl, at)
        if got is not None:
            return describe(body, got[0], depth - 1, at=got[1])
    if pl['p'] and pl['p'][0][0] in ('field', 'downcast') and not (1 <= l <= body.arg_count) \
            and (body.local_name(l) is None or (l in getattr(body, 'inl_params', ()) and _never_modified(body, [l]))) and len(body.defs().get(l, [])) == 1:
        # projection of a temporary holding a value: describe the value, then the projection
        base = describe(body, {'k': 'copy', 'pl': {'l': l, 'p': []}}, depth - 1, at=at)
        d0 = body.defs().get(l, [None])[0]
        if d0 and d0[0] == 'stmt' and d0[3]['rv']['k'] == 'bin' and d0[3]['rv']['op'].endswith('WithOverflow') \
                and len(pl['p']) == 1 and pl['p'][0][0] == 'field' and pl['p'][0][1] == 0:
            return base       # the value half of a checked operation
        suf = ''
        for pr in pl['p']:
            if pr[0] == 'field':
                suf += '.' + pr[2]
            elif pr[0] == 'downcast':
                suf += ' as ' + pr[1]
            elif pr[0] == 'deref':
                suf = '(*' + suf + ')'
            else:
                suf += '.<%s>' % pr[0]
        return base + suf
    if pl['p'] or 1 <= l <= body.arg_count:
        return pretty_place(body, pl)
    ds = body.defs().get(l, [])
    if len(ds) == 1 and l in _partially_assigned(body):
        # a local that is built once and then has fields overwritten (`let mut frame = buf[i]; frame.left = ..`): its first
        # value does not describe it any more - it is described by its name
        return pretty_place(body, pl)
    if len(ds) != 1:
        d = reaching_def(body, l, at) if at is not None else None
        if d is None:
            n = body.local_name(l)
            return n if n else 'multi(_%d)' % l
        at2 = d[1]
    else:
        d = ds[0]
        at2 = d[1]
    if d[0] == 'call':
        t = d[2]
        return '%s(%s)' % (callee_path(t), ', '.join(describe(body, a, depth - 1, at=at2) for a in t['args']))
    rv = d[3]['rv']
    if len(ds) != 1 and d[0] == 'stmt':
        # a reassignment `x = g(x)`: the operands are evaluated before this statement; look them up
        # from the predecessors' point of view by excluding this very definition
        return describe_rv(body, rv, depth, at=('before', d[1], d[2]))
    return describe_rv(body, rv, depth, at=at2)


def describe_rv(body, rv, depth=6, at=None):
    k = rv['k']
    if isinstance(at, tuple):
        # operands of the reassignment at (bb, si): resolve reads of the same variable to the previous definition
        _, bbx, six = at
        at = _PrevPoint(bbx, six)
    if k == 'use':
        return describe(body, rv['op'], depth, at=at)
    if k in ('ref', 'rawptr'):
        pl = rv['pl']
        if not pl['p'] and not (1 <= pl['l'] <= body.arg_count) and body.single_def(pl['l']) is not None:
            return '&' + describe(body, {'k': 'copy', 'pl': pl}, depth - 1)
        if pl['p'] and pl['p'][0][0] == 'deref' and len(pl['p']) == 1:
            d = body.single_def(pl['l'])
            if d and d[0] == 'stmt' and d[3]['rv']['k'] == 'use' and is_const(d[3]['rv']['op']):
                return '&' + describe(body, d[3]['rv']['op'], depth - 1)
            if d and d[0] == 'call':
                # reborrow of a reference returned by a call: &*f(..) is f(..)
                return describe(body, {'k': 'copy', 'pl': {'l': pl['l'], 'p': []}}, depth - 1)
            if d and d[0] == 'stmt' and d[3]['rv']['k'] in ('ref', 'rawptr', 'use', 'cast') and not (1 <= pl['l'] <= body.arg_count):
                # reborrow of a reference held in a temporary: &*(&X) is &X
                return describe_rv(body, d[3]['rv'], depth - 1)
        return '&' + pretty_place(body, pl)
    if k == 'cast':
        return describe(body, rv['op'], depth - 1, at=at)
    if k == 'bin':
        # canonical form: the operands of a commutative operator are sorted, `a > b` reads `b < a`, `a >= b` reads `b <= a`
        # (so that `x + 1` and `1 + x`, `t >= d` and `d <= t` are one description)
        op = rv['op']
        # with overflow checks on, `a - b` is `SubWithOverflow(a, b).0` behind an assert: the same value
        op = {'AddWithOverflow': 'Add', 'SubWithOverflow': 'Sub', 'MulWithOverflow': 'Mul'}.get(op, op)
        a = describe(body, rv['a'], depth - 1, at=at)
        b = describe(body, rv['b'], depth - 1, at=at)
        if op in ('Eq', 'Ne') and (a in ('True', 'False') or b in ('True', 'False')):
            # `x == false`, `x != true`: a (possibly negated) copy of x - read like `!x` / `x`
            c, x = (b, a) if b in ('True', 'False') else (a, b)
            return 'Not(%s)' % x if (c == 'False') != (op == 'Ne') else x
        if op in COMMUTATIVE:
            a, b = sorted((a, b))
        elif op in ('Gt', 'Ge'):
            op = {'Gt': 'Lt', 'Ge': 'Le'}[op]
            a, b = b, a
        return '%s(%s, %s)' % (op, a, b)
    if k == 'un':
        return '%s(%s)' % (rv['op'], describe(body, rv['a'], depth - 1, at=at))
    if k == 'discr':
        vo = value_origin(body, rv['pl'])
        if not vo['p'] and not (1 <= vo['l'] <= body.arg_count) and body.local_name(vo['l']) is None:
            d = body.single_def(vo['l'])
            if d and d[0] == 'call':
                return 'discr(%s)' % describe(body, {'k': 'copy', 'pl': vo}, depth - 1, at=at)
        return 'discr(%s)' % pretty_place(body, vo)
    if k == 'agg':
        if rv.get('ak') == 'adt':
            name = '%s::%s' % (rv['adt'], rv['variant'])
            if rv['ops']:
                return '%s(%s)' % (name, ', '.join(describe(body, o, depth - 1) for o in rv['ops']))
            return name
        return '%s(%s)' % (rv.get('ak'), ', '.join(describe(body, o, depth - 1) for o in rv['ops']))
    return k


def value_origin(body, pl, depth=4):
    """A bare temporary that is a plain copy of another place denotes that place's value:
    `_6 = copy _2; discriminant(_6)` tests _2."""
    for _ in range(depth):
        if pl['p'] or (1 <= pl['l'] <= body.arg_count) or body.local_name(pl['l']):
            return pl
        d = body.single_def(pl['l'])
        if d and d[0] == 'stmt' and d[3]['rv']['k'] == 'use' and is_place(d[3]['rv']['op']):
            pl = d[3]['rv']['op']['pl']
            continue
        return pl
    return pl


def pretty_place(body, pl):
    """Place string with temporaries holding references expanded and argument
    locals replaced by their source names."""
    s = resolve_place_str(body, pl)
    import re
    names = body.names

    def rep(m):
        l = int(m.group(1))
        if l in names and (1 <= l <= body.arg_count):
            return names[l]
        return m.group(0)
    return re.sub(r'_(\d+)(?![0-9])', rep, s)


def switch_info(body, bb):
    """For a switch terminator: (description of the operand, {value: label}, discr place or None)."""
    t = body.blocks[bb]['term']
    op = t['op']
    labels = {}
    discr_place = None
    l = op_local(op)
    if l is not None:
        ds = body.defs().get(l, [])
        if len(ds) == 1 and ds[0][0] == 'stmt' and ds[0][3]['rv']['k'] == 'discr':
            rv = ds[0][3]['rv']
            discr_place = pretty_place(body, value_origin(body, rv['pl']))
            for val, name in rv['variants']:
                labels[val] = name
    return describe(body, op), labels, discr_place


class _PrevPoint(int):
    """A use point strictly before statement `si` of block `bb` (int value = bb)."""
    def __new__(cls, bb, si):
        o = int.__new__(cls, bb)
        o.si = si
        return o


class PathResult:
    __slots__ = ('end', 'env', 'decisions', 'blocks', 'ret', 'calls')

    def __init__(self, end, env, decisions, blocks, ret, calls):
        self.end = end          # 'return' | 'diverge' | 'unreachable'
        self.env = env          # {place: frozenset(variants)}
        self.decisions = decisions  # tuple of (bb, desc, label)
        self.blocks = blocks
        self.ret = ret          # description of the returned value (or None)
        self.calls = calls      # tuple of (bb, callee path) in path order


STD_VARIANT = {'Ok': 0, 'Err': 1, 'None': 0, 'Some': 1, 'Continue': 0, 'Break': 1}


def explore(body, tracked=None, summaries=None, max_states=20000, on_call=None):
    """Enumerate all acyclic entry->exit paths of `body` (loops are cut at the
    back edge: each block at most once per path).

    tracked   {place string: (enum path, frozenset(initial variants))}
    summaries {callee path: function(env, term, body) -> list of env} applied at calls
    Returns list of PathResult."""
    tracked = tracked or {}
    env0 = {p: v[1] for p, v in tracked.items()}
    results = []
    n_states = [0]

    def assign_effect(env, s):
        """Effect of an assignment statement on tracked places."""
        if s['k'] == 'setdiscr':
            p = pretty_place(body, s['lhs'])
            if p in env:
                return p, None  # variant index only; resolved by caller
            return None, None
        if s['k'] != 'assign':
            return None, None
        p = pretty_place(body, s['lhs'])
        if p not in env:
            return None, None
        rv = s['rv']
        var = variant_of_rv(body, rv)
        return p, var

    def variant_of_rv(body, rv, depth=5):
        if rv['k'] == 'agg' and rv.get('ak') == 'adt':
            return rv['variant']
        if rv['k'] == 'use' and depth > 0:
            op = rv['op']
            l = op_local(op)
            if l is not None:
                ds = body.defs().get(l, [])
                if len(ds) == 1 and ds[0][0] == 'stmt':
                    return variant_of_rv(body, ds[0][3]['rv'], depth - 1)
        return None

    stack = [(0, env0, (), (), (), None)]
    while stack:
        bb, env, decisions, blocks, calls, ret = stack.pop()
        n_states[0] += 1
        if n_states[0] > max_states:
            raise RuntimeError('path explosion in %s' % body.path)
        if bb in blocks:
            # loop cut: report the iteration path that returns to an already visited block
            results.append(PathResult('backedge:%d' % bb, env, decisions, blocks, ret, calls))
            continue
        blocks = blocks + (bb,)
        blk = body.blocks[bb]
        env = dict(env)
        for s in blk['stmts']:
            if s['k'] == 'assign' and not s['lhs']['p'] and s['rv']['k'] == 'agg' and s['rv'].get('ak') == 'adt':
                env[('v', s['lhs']['l'])] = s['rv']['variant']
                env[('va', s['lhs']['l'])] = s['rv'].get('adt')
            elif s['k'] == 'assign' and not s['lhs']['p'] and s['rv']['k'] == 'use' and is_place(s['rv']['op']) and not s['rv']['op']['pl']['p']:
                # a copy / move of a local whose variant is known on this path (the return slot of a spliced-in helper)
                lv0 = op_local(s['rv']['op'])
                if ('v', lv0) in env:
                    env[('v', s['lhs']['l'])] = env[('v', lv0)]
                    env[('va', s['lhs']['l'])] = env.get(('va', lv0))
                elif ('v', s['lhs']['l']) in env:
                    del env[('v', s['lhs']['l'])]
                    env.pop(('va', s['lhs']['l']), None)
            p, var = assign_effect(env, s)
            if p is not None and var is None and s['k'] == 'assign' and s['rv']['k'] == 'use':
                lv = op_local(s['rv']['op'])
                if lv is not None and ('v', lv) in env:
                    var = env[('v', lv)]
            if p is not None:
                if s['k'] == 'setdiscr':
                    # map index -> name through the tracked enum's variant order
                    names = tracked[p][2] if len(tracked[p]) > 2 else None
                    if names and s['variant'] < len(names):
                        env[p] = frozenset([names[s['variant']]])
                    else:
                        env[p] = frozenset(['?'])
                elif var is not None:
                    env[p] = frozenset([var])
                else:
                    env[p] = frozenset(['?'])
            if s['k'] == 'assign' and not s['lhs']['p']:
                # path-local value of temporaries assigned on several branches (e.g. the return slot of a spliced-in
                # helper: `_r = A` in one arm, `_r = B` in another, then `_0 = move _r`)
                L = s['lhs']['l']
                rv0 = s['rv']
                src = op_local(rv0['op']) if rv0['k'] == 'use' and is_place(rv0['op']) and not rv0['op']['pl']['p'] else None
                if src is not None and ('d', src) in env:
                    dv = env[('d', src)]
                elif L == 0 or len(body.defs().get(L, [])) > 1:
                    dv = describe_rv(body, rv0)
                else:
                    dv = None
                if dv is not None:
                    env[('d', L)] = dv
                    if L == 0:
                        ret = dv
                elif ('d', L) in env:
                    del env[('d', L)]
            if s['k'] == 'assign' and not s['lhs']['p']:
                # path-local constant propagation for temporaries assigned on several branches
                # (`matches!`, `&&`, `||` lower to `_t = const true` / `_t = const false` + switch)
                ck = ('c', s['lhs']['l'])
                rv = s['rv']
                if rv['k'] == 'discr' and not rv['pl']['p']:
                    # the local whose discriminant this temporary holds (through plain copies: `other = copy b` of a spliced-in
                    # helper): a later switch on it teaches the path the variant of that local
                    r0 = _root_local(body, rv['pl']['l'])
                    if len(body.defs().get(r0, [])) <= 1 and _never_modified(body, [r0]):
                        env[('dl', s['lhs']['l'])] = r0       # (a local that keeps one value for the whole call)
                    else:
                        env.pop(('dl', s['lhs']['l']), None)
                    if ('v', rv['pl']['l']) not in env and ('v', r0) in env:
                        env[('v', rv['pl']['l'])] = env[('v', r0)]
                        env[('va', rv['pl']['l'])] = env.get(('va', r0))
                elif ('dl', s['lhs']['l']) in env:
                    del env[('dl', s['lhs']['l'])]
                if rv['k'] == 'use' and is_const(rv['op']) and const_value(rv['op']) is not None \
                        and len(body.defs().get(s['lhs']['l'], [])) > 1:
                    env[ck] = int(const_value(rv['op'])) if not isinstance(const_value(rv['op']), float) else None
                elif rv['k'] == 'use' and is_place(rv['op']) and not rv['op']['pl']['p'] \
                        and env.get(('c', rv['op']['pl']['l'])) is not None:
                    # a copy of such a temporary (e.g. the result of a spliced-in `matches!` helper)
                    env[ck] = env[('c', rv['op']['pl']['l'])]
                elif rv['k'] == 'un' and rv.get('op') == 'Not' and is_place(rv['a']) and not rv['a']['pl']['p'] \
                        and env.get(('c', rv['a']['pl']['l'])) in (0, 1):
                    env[ck] = 1 - env[('c', rv['a']['pl']['l'])]
                elif rv['k'] == 'discr' and not rv['pl']['p'] and env.get(('v', rv['pl']['l'])) in STD_VARIANT:
                    # the discriminant of a local whose variant is known on this path (a `?` on the result of a
                    # spliced-in helper: the helper's `Err(..)?` arm and the caller's Continue arm do not combine)
                    env[ck] = STD_VARIANT[env[('v', rv['pl']['l'])]]
                elif rv['k'] == 'discr' and not rv['pl']['p'] and env.get(('v', rv['pl']['l'])) is not None \
                        and (getattr(body, 'adt_discr', None) or {}).get((env.get(('va', rv['pl']['l'])), env[('v', rv['pl']['l'])])) is not None:
                    # ... of any enum of the crate (a command enum built by the caller of a spliced-in helper that matches on it)
                    env[ck] = body.adt_discr[(env[('va', rv['pl']['l'])], env[('v', rv['pl']['l'])])]
                elif ck in env:
                    del env[ck]
        t = blk['term']
        k = t['k']
        if k == 'return':
            results.append(PathResult('return', env, decisions, blocks, ret, calls))
            continue
        if k == 'unreachable':
            continue
        if k in ('goto',):
            stack.append((t['t'], env, decisions, blocks, calls, ret))
            continue
        if k == 'drop':
            stack.append((t['t'], env, decisions, blocks, calls, ret))
            continue
        if k == 'assert':
            stack.append((t['t'], env, decisions, blocks, calls, ret))
            continue
        if k in ('call', 'tailcall'):
            cp = callee_path(t)
            calls2 = calls + ((bb, cp),)
            if t.get('t') is None:
                results.append(PathResult('diverge', env, decisions, blocks, ret, calls2))
                continue
            if not t['dest']['p']:
                # `?`: Try::branch maps Ok / Some to Continue (0) and Err / None to Break (1); from_residual builds the Err / None
                env = dict(env)
                dl = t['dest']['l']
                env.pop(('v', dl), None)
                env.pop(('c', dl), None)
                cps = cp or ''
                a0 = op_local(t['args'][0]) if t['args'] and is_place(t['args'][0]) and not t['args'][0]['pl']['p'] else None
                if cps.endswith('as std::ops::Try>::branch') and a0 is not None and env.get(('v', a0)) in ('Ok', 'Err', 'Some', 'None'):
                    env[('v', dl)] = 'Continue' if env[('v', a0)] in ('Ok', 'Some') else 'Break'
                elif '::from_residual' in cps and cps.startswith('<std::result::Result<'):
                    env[('v', dl)] = 'Err'
                elif '::from_residual' in cps and cps.startswith('<std::option::Option<'):
                    env[('v', dl)] = 'None'
            if not t['dest']['p'] and t['dest']['l'] == 0:
                ret = '%s(%s)' % (cp, ', '.join(describe(body, a, 4, at=bb) for a in t['args']))
            elif not t['dest']['p'] and len(body.defs().get(t['dest']['l'], [])) > 1:
                env = dict(env)
                env[('d', t['dest']['l'])] = '%s(%s)' % (cp, ', '.join(describe(body, a, 4, at=bb) for a in t['args']))
            envs = [env]
            if summaries and cp in summaries:
                envs = summaries[cp](env, t, body)
            # a call that takes &mut of a tracked place (not summarised) clobbers it
            elif tracked:
                env = dict(env)
                for a in t['args']:
                    if is_place(a):
                        for st in trace(body, a):
                            if st['kind'] == 'rv' and st['rv']['k'] == 'ref' and st['rv'].get('bk') == 'mut':
                                p = pretty_place(body, st['rv']['pl'])
                                if p in env:
                                    env[p] = frozenset(['?'])
                envs = [env]
            for e2 in envs:
                stack.append((t['t'], e2, decisions, blocks, calls2, ret))
            continue
        if k == 'switch':
            desc, labels, dplace = switch_info(body, bb)
            sl0 = op_local(t['op'])
            if sl0 is not None and ('d', sl0) in env and dplace is None:
                # the switched temporary was assigned on this path (e.g. the result of a spliced-in predicate helper)
                desc = env[('d', sl0)]
            targets = [(v, b) for v, b in t['targets']]
            listed = set(v for v, _ in targets)
            if desc in env and dplace is None and '?' not in env[desc]:
                # a tracked boolean place (e.g. a configuration flag of `self`)
                cur = env[desc]
                for v, b in targets + [('otherwise', t['otherwise'])]:
                    nm = 'false' if v == '0' else 'true'
                    if nm in cur:
                        e2 = dict(env)
                        e2[desc] = frozenset([nm])
                        stack.append((b, e2, decisions + ((bb, desc, v),), blocks, calls, ret))
                continue
            sl = op_local(t['op'])
            if sl is not None and env.get(('c', sl)) is not None:
                cv = str(env[('c', sl)])
                tgt = dict(targets).get(cv, t['otherwise'])
                lab = labels.get(cv, cv) if cv in listed else 'otherwise'
                if lab == 'otherwise' and not labels:
                    lab = 'otherwise'
                stack.append((tgt, env, decisions + ((bb, desc, lab if cv in listed else 'otherwise'),), blocks, calls, ret))
                continue
            if dplace is not None and dplace in env and '?' not in env[dplace]:
                cur = env[dplace]
                name_of = labels
                for v, b in targets:
                    nm = name_of.get(v, v)
                    if nm in cur:
                        e2 = dict(env)
                        e2[dplace] = frozenset([nm])
                        stack.append((b, e2, decisions + ((bb, desc, nm),), blocks, calls, ret))
                rest = frozenset(x for x in cur if x not in set(name_of.get(v, v) for v in listed))
                if rest:
                    e2 = dict(env)
                    e2[dplace] = rest
                    stack.append((t['otherwise'], e2, decisions + ((bb, desc, 'otherwise'),), blocks, calls, ret))
                continue
            olab = 'otherwise'
            if labels:
                rest = [n for v, n in labels.items() if v not in listed]
                if len(rest) == 1:
                    olab = rest[0]
            # a switch on the discriminant of a plain local teaches the path that local's variant (a second match on the same
            # value - in a spliced-in helper and in its caller - then takes the same arm)
            root = env.get(('dl', sl)) if sl is not None else None
            adt_of_root = None
            if root is not None and labels:
                ty = (body.locals[root].get('ty') or '') if root < len(body.locals) else ''
                adt_of_root = ty.split('<')[0]
            for v, b in targets:
                lab = labels.get(v, v)
                e2 = env
                if root is not None and labels and v in labels:
                    e2 = dict(env)
                    e2[('v', root)] = labels[v]
                    e2[('va', root)] = adt_of_root
                stack.append((b, e2, decisions + ((bb, desc, lab),), blocks, calls, ret))
            e2 = env
            if root is not None and labels and olab != 'otherwise':
                e2 = dict(env)
                e2[('v', root)] = olab
                e2[('va', root)] = adt_of_root
            stack.append((t['otherwise'], e2, decisions + ((bb, desc, olab),), blocks, calls, ret))
            continue
        # other terminators: follow successors
        for s in body.succ(bb):
            stack.append((s, env, decisions, blocks, calls, ret))
    return results


def bool_label(lab):
    """Normalise a SwitchInt label on a bool operand: '0' -> False, otherwise -> True."""
    if lab == '0':
        return False
    if lab == 'otherwise' or lab == '1':
        return True
    return None


def origin_def(body, op, depth=8):
    """Definition of the value an operand carries, through plain copies of temporaries:
    -> ('call', bb, term) | ('rv', bb, rv) | ('place', pl) | ('const', op) | None, plus the local finally reached."""
    cur = op
    for _ in range(depth):
        if is_const(cur):
            return ('const', cur), None
        if not is_place(cur):
            return None, None
        pl = cur['pl']
        if pl['p'] or 1 <= pl['l'] <= body.arg_count:
            return ('place', pl), pl['l']
        d = body.single_def(pl['l'])
        if d is None:
            return None, pl['l']
        if d[0] == 'call':
            return ('call', d[1], d[2]), pl['l']
        rv = d[3]['rv']
        if rv['k'] == 'use' and is_place(rv['op']) and not rv['op']['pl']['p']:
            cur = rv['op']
            continue
        return ('rv', d[1], rv), pl['l']
    return None, None


def parse_term(d):
    """Parse a description string `Name(arg, arg, ...)` -> (name, [arg strings]); a string without a top-level
    argument list gives (d, None).  Brackets are balanced over () [] <>-free text (generic arguments of paths contain
    `<..>` with commas, which are kept inside the name)."""
    d = d.strip()
    if not d.endswith(')'):
        return d, None
    # find the '(' matching the final ')'
    depth = 0
    start = None
    for i in range(len(d) - 1, -1, -1):
        c = d[i]
        if c == ')':
            depth += 1
        elif c == '(':
            depth -= 1
            if depth == 0:
                start = i
                break
    if start is None:
        return d, None
    name = d[:start]
    inner = d[start + 1:-1]
    args = []
    depth = 0
    ang = 0
    cur = ''
    for c in inner:
        if c in '([':
            depth += 1
        elif c in ')]':
            depth -= 1
        elif c == '<':
            ang += 1
        elif c == '>' and ang > 0:
            ang -= 1
        if c == ',' and depth == 0 and ang == 0:
            args.append(cur.strip())
            cur = ''
        else:
            cur += c
    if cur.strip():
        args.append(cur.strip())
    return name, args
