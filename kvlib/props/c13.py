"""C13 — effect laws (necessary structure only)."""
from ..paths import explore, describe, describe_rv, pretty_place, bool_label
from ..rules import calls_to, calls_where, blocks_of
from ..facts import callee_path

TEXT = ('Sibling agreement of the wet/dry tail of the five mixing effects (mix clamped to [0,1]; wet·sqrt(mix) + dry·sqrt(1-mix) with dry the unmodified input frame); user parameters reach the stability-critical sinks (tan argument, resonance, q divisors) only through constant-bound clamps; no float division by a value derived from Decibels::as_amplitude (which returns exactly 0.0 at or below -60 dB) without a zero test; may-panic obligations of effect code come from Engine A. Identity, linearity, finiteness and slicing independence as equalities of samples are not decided. Divisions by an amplitude are guarded by a zero test of the very value that divides. Every singular float operation in effect code (division, root, logarithm, power) has its domain proved by interval evaluation or an exact table entry (A.singular). Linearity typing (abstract interpretation of the per-sample code) of filter, EQ filter, delay, reverb, volume and panning control: the input is combined only by sums, differences and products with signal-independent coefficients, no branch tests a signal value, no offset is added; distortion and compressor must come out non-linear (non-vacuity control); with an all-zero input every effect writes exactly zero (silence to silence from a cleared state). Effects do not blend chunk-end parameter values themselves (no Parameter::previous_value); Parameter::new falls back to the default of its own setting. Every effect of every track (also nested ones, also after the track\'s handle is gone) is reached by the per-callback fan-out that lets it poll its commands. The delay uses its scratch buffer only inside the pass (over chunks of the delay line\'s length) that filled it. Effect builders store their arguments unconditionally, effects start their parameters from the configured values, and Value::from_modulator / the mapping operators keep a mapping\'s bounds in place.')
TECHNIQUE = 'MIR operand-flow (taint) and sibling-agreement rules + effect analysis for panics + linearity typing (abstract interpretation) + interval evaluation of singular float operations'

MIXING = ['effect::filter::Filter', 'effect::delay::Delay', 'effect::reverb::Reverb', 'effect::compressor::Compressor',
          'effect::distortion::Distortion']


def run(ctx, R, tier):
    F = ctx.facts('default')
    mix(F, R)
    clamps(F, R)
    zero_div(F, R)
    delay_scratch(F, R)
    # 'when set fully dry': the effect runs with the mix (and every other setting) it was configured with
    from .c02 import setters
    setters(F, R, rule='B.C13.setter', fn_filter=lambda q: q.startswith('effect::'), floor=20)
    from .c06 import config_verbatim
    config_verbatim(F, R, rule='B.C13.config', fn_filter=lambda q: q.startswith('effect::') or '<effect::' in q, floor=20)
    from .c17 import value_constructors
    value_constructors(F, R, rule='B.C13.link')
    from .c02 import nested_slices
    R.floor('B.C13.slice', nested_slices(F, R, rule='B.C13.slice'), 1)
    # 'independent of how the input is split into process calls': a tweened parameter is read per frame with
    # interpolated_value(time_in_chunk) (or once per call with value()); an effect never blends chunk-end values itself
    pv = sorted(set(b.path for b in F.bodies if b.krate == 'kira' and 'effect::' in b.path for _, t in b.calls() if (callee_path(t) or '') == 'parameter::Parameter::<T>::previous_value'))
    R.check(not pv, 'B.C13.slicing', 'no-chunk-end-blend', '%s reads Parameter::previous_value(): its own interpolation between chunk ends depends on the chunk length' % pv, detail='effects use interpolated_value / value only')
    linear(F, R)
    # an effect's handle works for as long as the effect runs: every effect of a track is given its on_start_processing (where it
    # reads its commands) on every path of every callback (the C16 fan-out rule)
    from .c16 import cover as fanout
    fanout(F, R)
    from .c06 import defaults_match
    defaults_match(F, R, rule='B.C13.defaults')
    from ..enginea import run_engine_a
    run_engine_a(R, F, groups=('rt',), effects=('panic',), loops=False, rule_prefix='A', fn_filter=lambda fn: 'effect::' in fn,
                 singular=True, singular_floor=32)


def mix(F, R):
    from ..paths import origin_def
    n = 0
    for e in MIXING:
        b = F.body('<%s as effect::Effect>::process' % e)
        if not R.check(b is not None, 'B.C13.mix', 'anchor:' + e, 'process not found'):
            continue
        tails = []
        for bb, si, s in b.stmts():
            if s['k'] == 'assign' and s['lhs']['p'] and s['lhs']['p'][0][0] == 'deref' and s['rv']['k'] == 'use':
                d, _ = origin_def(b, s['rv']['op'])
                if d and d[0] == 'call' and callee_path(d[2]) == '<frame::Frame as std::ops::Add>::add':
                    tails.append((bb, s, d[2]))
        tails = [t for t in tails if has_sqrt(b, t[2])]
        if not R.check(len(tails) == 1, 'B.C13.mix', e + ':tail-site', '%d wet/dry stores found in %s' % (len(tails), e)):
            continue
        n += 1
        bb, s, add = tails[0]
        dst = pretty_place(b, s['lhs'])
        why = check_tail(b, add, dst)
        R.check(why is None, 'B.C13.mix', e, '%s: %s' % (e, why), detail={'effect': e, 'blend': 'wet*sqrt(mix) + dry*sqrt(1-mix), mix = self.mix.clamp(0,1)'},
                where=b.where(bb))
    R.floor('B.C13.mix', n, 5)


def has_sqrt(b, add):
    from ..paths import origin_def
    for a in add['args']:
        d, _ = origin_def(b, a)
        if d and d[0] == 'call' and (callee_path(d[2]) or '').endswith('Mul<f32>>::mul'):
            d2, _ = origin_def(b, d[2]['args'][1])
            if d2 and d2[0] == 'call' and (callee_path(d2[2]) or '').endswith('f32>::sqrt'):
                return True
    return False


def check_tail(b, add, dst):
    """None if `add` is wet*sqrt(mix) + dst*sqrt(1 - mix) with mix = interpolated_value(self.mix).0.clamp(0,1)."""
    from ..paths import origin_def
    terms = []
    for a in add['args']:
        d, _ = origin_def(b, a)
        if not (d and d[0] == 'call' and (callee_path(d[2]) or '') == '<frame::Frame as std::ops::Mul<f32>>::mul'):
            return 'a blend term is not Frame * f32'
        sq, _ = origin_def(b, d[2]['args'][1])
        if not (sq and sq[0] == 'call' and (callee_path(sq[2]) or '').endswith('f32>::sqrt')):
            return 'a blend factor is not a square root'
        terms.append((d[2]['args'][0], sq[2]['args'][0]))
    (wet_src, wet_arg), (dry_src, dry_arg) = terms
    wd, mix_local = origin_def(b, wet_arg)
    if not (wd and wd[0] == 'call' and (callee_path(wd[2]) or '') == 'core::f32::<impl f32>::clamp'):
        return 'the wet factor is not sqrt(mix.clamp(..))'
    lo, hi = describe(b, wd[2]['args'][1]), describe(b, wd[2]['args'][2])
    if (lo, hi) != ('0.0', '1.0'):
        return 'mix is clamped to [%s, %s]' % (lo, hi)
    src = describe(b, wd[2]['args'][0], depth=4)
    if not (src.startswith('parameter::Parameter::<T>::interpolated_value(&(*self).mix') and src.endswith('.0')):
        return 'mix is %s, not self.mix.interpolated_value(..).0' % src[:80]
    dd, _ = origin_def(b, dry_arg)
    if not (dd and dd[0] == 'rv' and dd[2]['k'] == 'bin' and dd[2]['op'] == 'Sub' and describe(b, dd[2]['a']) == '1.0'):
        return 'the dry factor is not sqrt(1.0 - mix)'
    _, m2 = origin_def(b, dd[2]['b'])
    if m2 != mix_local:
        return 'the dry factor uses a different mix value than the wet factor'
    dsrc = describe(b, dry_src, depth=3)
    if dsrc != dst:
        return 'the dry term is %s, not the input frame %s' % (dsrc[:60], dst)
    return None


def clamps(F, R):
    n = 0
    fb = F.body('<effect::filter::Filter as effect::Effect>::process')
    if R.check(fb is not None, 'B.C13.clamp', 'anchor:filter', 'Filter::process not found'):
        tans = calls_to(fb, 'std::f64::<impl f64>::tan', suffix=False)
        for bb, t in tans:
            n += 1
            d = describe(fb, t['args'][0], depth=8, at=bb)
            R.check('core::f64::<impl f64>::clamp(' in d and d.endswith(', 0.0001, 0.5))') and 'cutoff' in d, 'B.C13.clamp', 'filter:tan',
                    'the tan() argument is %s: the cutoff ratio does not pass clamp(0.0001, 0.5)' % d[:200], detail={'arg': d[:160]})
        # k = 2 - 1.9 * resonance with resonance clamped to [0,1]
        ks = [describe_rv(fb, s['rv'], depth=8, at=bb) for bb, si, s in fb.stmts()
              if s['k'] == 'assign' and s['rv']['k'] == 'bin' and s['rv']['op'] == 'Sub' and describe(fb, s['rv']['a']) == '2.0']
        n += 1
        R.check(len(ks) == 1 and 'clamp(' in ks[0] and ks[0].endswith(', 0.0, 1.0)))') and 'resonance' in ks[0], 'B.C13.clamp', 'filter:k',
                'resonance reaches k without clamp(0, 1): %s' % ks, detail={'k': ks[0][:160] if ks else None})
    cb = F.body('effect::eq_filter::Coefficients::calculate')
    if R.check(cb is not None, 'B.C13.clamp', 'anchor:eq', 'Coefficients::calculate not found'):
        tans = calls_to(cb, 'std::f64::<impl f64>::tan', suffix=False)
        for i, (bb, t) in enumerate(tans):
            n += 1
            d = describe(cb, t['args'][0], depth=8, at=bb)
            R.check('clamp(Mul(dt, frequency), 0.0001, 0.5)' in d, 'B.C13.clamp', 'eq:tan#%d' % i,
                    'EQ tan() argument %s does not pass clamp(0.0001, 0.5)' % d[:200], detail={'arg': d[:160]})
        divs = [(bb, s) for bb, si, s in cb.stmts() if s['k'] == 'assign' and s['rv']['k'] == 'bin' and s['rv']['op'] == 'Div'
                and describe(cb, s['rv']['a']) == '1.0']
        for i, (bb, s) in enumerate(divs):
            d = describe(cb, s['rv']['b'], depth=3, at=bb)
            import re
            if not re.search(r'(?<![A-Za-z0-9_:])q(?![A-Za-z0-9_])', d):
                continue
            n += 1
            # q passes max(<positive literal>) (MIN_Q) before it divides
            bare = re.sub(r'core::f64::<impl f64>::max\(q, (?:const (?:[A-Za-z0-9_]+::)*MIN_Q|(?:0\.0*[1-9][0-9]*|[1-9][0-9]*(?:\.[0-9]+)?(?:e-?[0-9]+)?))\)', 'QMAX', d)
            R.check('QMAX' in bare and not re.search(r'(?<![A-Za-z0-9_:])q(?![A-Za-z0-9_])', bare), 'B.C13.clamp', 'eq:1/q#%d' % i,
                    'EQ divides by %s: q does not pass max(MIN_Q)' % d[:160], detail={'divisor': d[:160]})
    # fail closed per kind of site (the three EQ kinds may share one tan() / one divisor after a tidy-up)
    kinds = set(k.split('|')[-1].split('#')[0] for k in R.keys('B.C13.clamp'))
    for want in ('filter:tan', 'filter:k', 'eq:tan', 'eq:1/q'):
        R.check(want in kinds, 'B.C13.clamp', 'anchor-kind:' + want, 'no %s site recognised (fail closed)' % want)


def delay_scratch(F, R, rule='B.C13.slicing'):
    """The delay walks its input in passes no longer than the delay line and keeps the wet frames of a pass in a scratch buffer
    that the next pass overwrites: every use of that scratch buffer lies inside the pass loop (the loop over
    `chunks_mut(buffer.len())`).  A use after the loop sees the last pass only - right while a call fits into one pass (any
    ordinary delay time), wrong for a delay line shorter than the call, i.e. dependent on how the input is split."""
    b = F.body('<effect::delay::Delay as effect::Effect>::process')
    if not R.check(b is not None, rule, 'anchor:delay-scratch', 'Delay::process not found'):
        return
    from .c02 import iter_source
    passes = [l for l in b.loops() if 'chunks_mut' in (iter_source(b, l) or '')]
    # the scratch buffer: the frame vector of the delay that is not the delay line (the line's length sizes the passes)
    a = F.adt('effect::delay::Delay')
    vecs = [f['name'] for f in (a['variants'][0]['fields'] if a else []) if f['ty'].replace(' ', '') in ('std::vec::Vec<frame::Frame>', 'std::vec::Vec<frame::Frame,std::alloc::Global>')]
    src = iter_source(b, passes[0]) if passes else ''
    scratch = [v for v in vecs if ('.' + v) not in src]
    uses = set()
    from ..paths import pretty_place
    for bb, pl, kind in b.all_places():
        # (also through the `self` of a private method spliced into process)
        if len(scratch) == 1 and pl['p'] and pretty_place(b, pl).startswith('(*self).%s' % scratch[0]):
            uses.add(bb)
    if not R.check(len(passes) == 1 and bool(uses), rule, 'anchor:delay-scratch:shape', 'the pass loop over chunks_mut(..) / the scratch buffer of Delay::process was not found'):
        return
    outside = sorted(x for x in uses if x not in passes[0]['blocks'])
    R.check(not outside, rule, 'delay:scratch-in-pass', 'Delay::process uses its scratch buffer outside the pass that filled it (at %s): with a delay line '
            'shorter than the call the output depends on how the input is split' % (b.where(outside[0]) if outside else ''),
            detail={'uses': len(uses)}, where=b.file)


def _positive_by_shape(d):
    """`c + |x|` with a positive literal c: at least c, whatever x is (the soft clip's `1 + |x|`)."""
    from ..paths import parse_term
    nm, args = parse_term(d)
    if nm != 'Add' or not args or len(args) != 2:
        return False
    for c, x in (args, args[::-1]):
        try:
            if float(c) > 0.0 and parse_term(x)[0].endswith('::abs'):
                return True
        except ValueError:
            pass
    return False


def zero_div(F, R):
    """No float division whose divisor derives from Decibels::as_amplitude without a zero test."""
    n = 0
    for im in F.impls:
        if im['trait'] != 'effect::Effect' or im['self_ty'].startswith('std::boxed::Box'):
            continue
        items = {it['name']: it['path'] for it in im['items']}
        b = F.body(items.get('process', ''))
        if b is None:
            continue
        n += 1
        sites = []
        div_ops = {}
        for bb, t in b.calls():
            cp = callee_path(t) or ''
            if cp.endswith('::div_assign') or cp.endswith('::div'):
                d = describe(b, t['args'][1], depth=6, at=bb)
                if 'Decibels::as_amplitude(' in d and not _positive_by_shape(d):
                    sites.append((bb, d))
                    div_ops[bb] = t['args'][1]
        for bb, si, s in b.stmts():
            if s['k'] == 'assign' and s['rv']['k'] == 'bin' and s['rv']['op'] == 'Div':
                d = describe(b, s['rv']['b'], depth=6, at=bb)
                if 'Decibels::as_amplitude(' in d and not _positive_by_shape(d):
                    sites.append((bb, d))
                    div_ops[bb] = s['rv']['b']
        if not sites:
            R.ok('B.C13.zero-div', im['self_ty'], detail='no division by an amplitude derived from decibels')
            continue
        for bb, d in sites:
            guarded = False
            for g in range(b.n):
                t = b.blocks[g]['term']
                if t['k'] == 'switch' and b.dominates(g, bb) and g != bb:
                    # the test must be about the very value that divides (same definition), against literal zero,
                    # and the division must sit on its non-zero side
                    from ..paths import origin_def
                    gdf, _ = origin_def(b, t['op'])
                    if not gdf or gdf[0] != 'rv' or gdf[2]['k'] != 'bin' or gdf[2]['op'] not in ('Gt', 'Ne', 'Eq', 'Lt', 'Le', 'Ge'):
                        continue
                    gn = gdf[2]['op']
                    da, db = describe(b, gdf[2]['a']), describe(b, gdf[2]['b'])

                    def same_value(op):
                        x, lx = origin_def(b, op)
                        y, ly = origin_def(b, div_ops[bb])
                        return x is not None and y is not None and x[0] == y[0] and x[0] in ('call', 'rv') and x[1] == y[1] and lx == ly
                    if db in ('0.0', '-0.0') and same_value(gdf[2]['a']):
                        nonzero_true = gn in ('Gt', 'Ne', 'Lt')
                    elif da in ('0.0', '-0.0') and same_value(gdf[2]['b']):
                        nonzero_true = gn in ('Lt', 'Ne', 'Gt')
                    else:
                        continue
                    tgt0 = dict(t['targets']).get('0')
                    side = t['otherwise'] if nonzero_true else tgt0
                    other = tgt0 if nonzero_true else t['otherwise']
                    if side is not None and b.dominates(side, bb) and (other is None or bb not in b.reachable([other], stop=[g])):
                        guarded = True
            R.check(guarded, 'B.C13.zero-div', im['self_ty'],
                    '%s::process divides by %s; Decibels::as_amplitude returns exactly 0.0 at or below -60 dB (Decibels::SILENCE), '
                    'so the division is 0/0 = NaN on every sample and NaN passes the renderer\'s final clamp' % (im['self_ty'], d[:120]),
                    detail={'divisor': d[:120]}, where=b.where(bb))
    R.floor('B.C13.zero-div', n, 8)


LINEAR = ['effect::filter::Filter', 'effect::eq_filter::EqFilter', 'effect::delay::Delay', 'effect::reverb::Reverb',
          'effect::volume_control::VolumeControl', 'effect::panning_control::PanningControl']
NONLINEAR = ['effect::distortion::Distortion', 'effect::compressor::Compressor']


def linear(F, R):
    """"The linear effects obey superposition and scaling for fixed parameters": linearity typing (kvlib.lintype) of the
    per-sample code of filter, EQ filter, delay, reverb (with its comb and all-pass filters), volume and panning control:
    every value derived from the input is combined only by operations of a linear map (sum, difference, product with a
    signal-independent coefficient), no branch tests a signal value, nothing signal-independent is mixed into the signal.
    The two effects that are documented as non-linear (distortion, compressor) must come out non-linear: the analysis is
    not vacuous."""
    from ..lintype import Lin, S, NAMES
    n = 0
    for e in LINEAR + NONLINEAR:
        p = '<%s as effect::Effect>::process' % e
        if not R.check(F.body(p) is not None, 'B.C13.linear', 'anchor:' + e, '%s not found' % p):
            continue
        L = Lin(F, [p], {p: [2]})
        vs = L.violations()
        sig_ops = len([1 for ed in L.edges if ed[0] in ('mul', 'add', 'div') and any(L.val(x) == S for x in ed[2])])
        short = e.split('::')[-1]
        if e in NONLINEAR:
            R.check(bool(vs), 'B.C13.linear', 'control:' + short, 'the linearity analysis finds no non-linear step in %s (which clips / '
                    'follows the level of its input): the analysis has gone blind' % short, detail={'nonlinear_sites': len(vs)}, nontrivial=False)
            continue
        n += 1
        R.check(sig_ops >= 1, 'B.C13.linear', short + ':reached', 'no operation on the input signal was found in %s' % short,
                detail={'signal_operations': sig_ops, 'bodies': sorted(L.bodies)}, nontrivial=False)
        keyed = {}
        for bp, bb, what, line in vs:
            keyed.setdefault((bp, what.split(' is not ')[0].split(' (')[0][:60]), []).append((bb, line, what))
        if not vs:
            R.ok('B.C13.linear', short, detail={'signal_operations': sig_ops, 'state_fields': sorted('%s.%s' % k[1:] for k, v in L.cls.items() if k[0] == 'F' and v == S),
                                                'bodies': sorted(L.bodies)}, where=F.body(p).file)
        for (bp, w), lst in sorted(keyed.items()):
            b = F.body(bp)
            R.bad('B.C13.linear', '%s|%s' % (short, w), '%s is not linear in its input: in %s, %s' % (short, bp, lst[0][2]),
                  where=b.where(lst[0][0]) if b is not None else None)
    R.floor('B.C13.linear', n, 6)
    # "maps silence to silence from a cleared state": the same typing with the input declared exactly zero - everything the
    # effect writes back into its input (and, for the six linear effects, into its state) must come out exactly zero, i.e.
    # be built from the input by zero-preserving steps (x*c, x/c, x+x, clamp across 0, abs, sqrt, ...), never from a
    # constant or an unknown function.  (0 * inf is excluded by A.singular.)
    from ..lintype import Z
    ns = 0
    for e in LINEAR + NONLINEAR:
        p = '<%s as effect::Effect>::process' % e
        if F.body(p) is None:
            continue
        L = Lin(F, [p], {p: [2]}, source_class=Z)
        short = e.split('::')[-1]
        ns += 1
        out = L.cls.get((p, 2))
        dirty = sorted('%s.%s' % k[1:] for k, v in L.cls.items() if k[0] == 'F' and v != Z) if e in LINEAR else []
        R.check(out == Z and not dirty, 'B.C13.silence', short,
                '%s does not map silence to silence from a cleared state: with an all-zero input its output is %s%s (a constant or an '
                'unknown function of zero reaches the signal)' % (short, NAMES.get(out, '?'), (', state ' + ', '.join(dirty)) if dirty else ''),
                detail={'output': NAMES.get(out, '?'), 'state': sorted('%s.%s=%s' % (k[1].split('::')[-1], k[2], NAMES[v]) for k, v in L.cls.items() if k[0] == 'F')},
                where=F.body(p).file)
    R.floor('B.C13.silence', ns, 8)
