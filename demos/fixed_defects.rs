//! Demonstrations for the defects repaired by the `fix:` commits (see /verif/known_findings.jsonl).
//! Not part of any check: copy to crates/kira/tests/ in a scratch copy of the repository and run
//! `cargo test --offline -p kira --test fixed_defects`. Every test fails (panic / hang / NaN) on the
//! pinned snapshot and passes with the fix commits.
use kira::{
	backend::mock::{MockBackend, MockBackendSettings},
	clock::{ClockSpeed, ClockTime},
	effect::{delay::DelayBuilder, distortion::DistortionBuilder, reverb::ReverbBuilder, EffectBuilder},
	info::MockInfoBuilder,
	sound::static_sound::{StaticSoundData, StaticSoundSettings},
	sound::streaming::{Decoder, StreamingSoundData, StreamingSoundSettings},
	track::{MainTrackBuilder, SpatialTrackBuilder, TrackBuilder, TrackPlaybackState},
	AudioManager, AudioManagerSettings, Capacities, Decibels, Easing, Frame, StartTime, Tween,
};
use std::sync::{
	atomic::{AtomicBool, Ordering},
	Arc,
};
use std::time::Duration;

fn manager(settings: AudioManagerSettings<MockBackend>) -> AudioManager<MockBackend> {
	AudioManager::<MockBackend>::new(settings).unwrap()
}

fn default_manager() -> AudioManager<MockBackend> {
	manager(AudioManagerSettings {
		backend_settings: MockBackendSettings { sample_rate: 48000 },
		..Default::default()
	})
}

fn callbacks(m: &mut AudioManager<MockBackend>, n: usize) {
	for _ in 0..n {
		m.backend_mut().on_start_processing();
		m.backend_mut().process();
	}
}

fn sound(n: usize) -> StaticSoundData {
	StaticSoundData {
		sample_rate: 48000,
		frames: (0..n).map(|i| Frame::from_mono(i as f32 / n as f32)).collect(),
		settings: StaticSoundSettings::default(),
		slice: None,
	}
}

#[test]
fn clock_time_sub_u64_saturates() {
	let mut m = default_manager();
	let clock = m.add_clock(ClockSpeed::TicksPerSecond(1.0)).unwrap();
	let t = ClockTime { clock: clock.id(), ticks: 1, fraction: 0.0 };
	assert_eq!((t - 2u64).ticks, 0);
	let mut t2 = t;
	t2 -= 5u64;
	assert_eq!(t2.ticks, 0);
}

#[test]
fn slice_past_the_end() {
	let mut m = default_manager();
	m.play(sound(10).slice(0.0..100.0)).unwrap();
	callbacks(&mut m, 40);
	let mut inverted = sound(10);
	inverted.slice = Some((8, 2));
	assert_eq!(inverted.num_frames(), 0);
	m.play(inverted).unwrap();
	callbacks(&mut m, 40);
}

#[test]
fn empty_loop_region_terminates() {
	let mut m = default_manager();
	m.play(sound(48000).loop_region(0.5..0.5)).unwrap();
	let mut h = m.play(sound(48000)).unwrap();
	callbacks(&mut m, 10);
	h.set_loop_region(0.75..0.25);
	callbacks(&mut m, 48100);
}

#[test]
fn zero_length_delay() {
	let mut m = default_manager();
	let mut b = TrackBuilder::new();
	b.add_effect(DelayBuilder::new().delay_time(Duration::ZERO));
	let mut t = m.add_sub_track(b).unwrap();
	t.play(sound(100)).unwrap();
	callbacks(&mut m, 10);
}

#[test]
fn reverb_at_one_hertz() {
	// MockBackendSettings::default() is 1 Hz
	let mut m = manager(AudioManagerSettings::default());
	let mut b = TrackBuilder::new();
	b.add_effect(ReverbBuilder::new());
	let mut t = m.add_sub_track(b).unwrap();
	t.play(sound(100)).unwrap();
	callbacks(&mut m, 10);
}

#[test]
fn inverted_and_empty_distance_ranges() {
	let mut m = default_manager();
	let listener = m
		.add_listener(glam::Vec3::ZERO, glam::Quat::IDENTITY)
		.unwrap();
	for d in [(10.0, 1.0), (5.0, 5.0)] {
		let mut t = m
			.add_spatial_sub_track(&listener, glam::Vec3::new(3.0, 0.0, 0.0), SpatialTrackBuilder::new().distances(d))
			.unwrap();
		t.play(sound(100)).unwrap();
		callbacks(&mut m, 10);
	}
}

#[test]
fn distortion_at_silence_is_finite() {
	let mut effect = DistortionBuilder::new().drive(Decibels::SILENCE).build().0;
	effect.init(48000, 16);
	let mut buf = [Frame::from_mono(0.25); 16];
	effect.on_start_processing();
	effect.process(&mut buf, 1.0 / 48000.0, &MockInfoBuilder::new().build());
	assert!(buf.iter().all(|f| f.left.is_finite() && f.right.is_finite()));
}

#[test]
fn duration_tween_with_negative_power() {
	use kira::effect::compressor::CompressorBuilder;
	let mut m = default_manager();
	let mut b = TrackBuilder::new();
	let mut comp = b.add_effect(CompressorBuilder::new());
	let _t = m.add_sub_track(b).unwrap();
	comp.set_attack_duration(
		Duration::from_micros(1),
		Tween { start_time: StartTime::Immediate, duration: Duration::from_secs(1), easing: Easing::InPowf(-1.0) },
	);
	callbacks(&mut m, 4);
}

#[test]
fn zero_capacity_gives_the_limit_error() {
	let mut m = manager(AudioManagerSettings {
		capacities: Capacities { clock_capacity: 0, sub_track_capacity: 0, ..Default::default() },
		main_track_builder: MainTrackBuilder::new().sound_capacity(0),
		..Default::default()
	});
	assert!(m.add_clock(ClockSpeed::TicksPerSecond(1.0)).is_err());
	assert!(m.add_sub_track(TrackBuilder::new()).is_err());
	assert!(m.play(sound(4)).is_err());
}

struct FlagDecoder {
	dropped: Arc<AtomicBool>,
	fail: bool,
}
impl Decoder for FlagDecoder {
	type Error = ();
	fn sample_rate(&self) -> u32 { 48000 }
	fn num_frames(&self) -> usize { 1_000_000 }
	fn decode(&mut self) -> Result<Vec<Frame>, ()> {
		if self.fail { Err(()) } else { Ok(vec![Frame::ZERO; 64]) }
	}
	fn seek(&mut self, index: usize) -> Result<usize, ()> { Ok(index) }
}
impl Drop for FlagDecoder {
	fn drop(&mut self) { self.dropped.store(true, Ordering::SeqCst); }
}

fn wait_for(flag: &AtomicBool) -> bool {
	for _ in 0..200 {
		if flag.load(Ordering::SeqCst) { return true; }
		std::thread::sleep(Duration::from_millis(10));
	}
	false
}

#[test]
fn rejected_streaming_sound_releases_its_decoder() {
	let mut m = manager(AudioManagerSettings {
		main_track_builder: MainTrackBuilder::new().sound_capacity(1),
		..Default::default()
	});
	let _keep = m.play(sound(1_000_000).loop_region(..)).unwrap();
	let dropped = Arc::new(AtomicBool::new(false));
	let data = StreamingSoundData::from_decoder(FlagDecoder { dropped: dropped.clone(), fail: false });
	assert!(m.play(data).is_err());
	assert!(wait_for(&dropped), "decoder thread still alive 2 s after the sound was rejected");
}

#[test]
fn failing_decoder_thread_ends_without_the_audio_thread() {
	let mut m = default_manager();
	let dropped = Arc::new(AtomicBool::new(false));
	let data = StreamingSoundData::from_decoder(FlagDecoder { dropped: dropped.clone(), fail: true })
		.with_settings(StreamingSoundSettings::default());
	let _h = m.play(data).unwrap();
	// no callback is ever run: the thread must end by itself after reporting the error
	assert!(wait_for(&dropped), "decoder thread still running (spinning) 2 s after a decode error");
}

#[test]
fn track_waiting_on_a_removed_clock_reports_a_valid_state() {
	let mut m = default_manager();
	let clock = m.add_clock(ClockSpeed::TicksPerSecond(1.0)).unwrap();
	let mut t = m.add_sub_track(TrackBuilder::new()).unwrap();
	t.pause(Tween::default());
	t.resume_at(StartTime::ClockTime(ClockTime { clock: clock.id(), ticks: 100, fraction: 0.0 }), Tween::default());
	callbacks(&mut m, 4);
	drop(clock);
	callbacks(&mut m, 4);
	assert_eq!(t.state(), TrackPlaybackState::Paused);
	t.resume(Tween { duration: Duration::ZERO, ..Default::default() });
	callbacks(&mut m, 4);
	assert_eq!(t.state(), TrackPlaybackState::Playing);
}


// C19 (fixed in 4f85308): from_ticks_f64 with a negative amount produced a negative fraction
#[test]
fn from_ticks_f64_negative_keeps_fraction_in_unit_interval() {
	use kira::clock::{ClockSpeed, ClockTime};
	let mut manager = kira::AudioManager::<kira::backend::mock::MockBackend>::new(Default::default()).unwrap();
	let clock = manager.add_clock(ClockSpeed::TicksPerSecond(1.0)).unwrap();
	let t = ClockTime::from_ticks_f64(&clock, -0.25);
	assert!(t.fraction >= 0.0 && t.fraction < 1.0, "fraction = {}", t.fraction);
}
