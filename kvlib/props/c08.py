"""C08 — resource life cycle: capacity accounting, removal, no stale ids, destruction off the audio thread."""
from ..paths import explore, describe, describe_rv, pretty_place, bool_label
from ..rules import calls_to, calls_where, blocks_of, order_ok, must_pass, returns, self_field_of_call
from ..facts import callee_path, is_place, op_local
from .c18 import consumers

TEXT = ("Resources are never destroyed on the audio thread (Engine A: no deallocation reachable from the callback roots; every drop site discharged); every value taken out of an arena on the audio thread is moved into the unused-resource ring; the caller drains that ring before every insert and the rings share the arena's capacity; creation sites propagate the limit error (never unwrap); every path that returns after a successful try_reserve hands the key to insert_with_key (no leaked slot); every handle with a removal flag sets it on drop and the audio-side predicate of the matching storage reads it; keys inside the public ids flow only into generation-checked arena APIs; handles are not Clone (thorough: compile-fail witnesses) and creation paths cannot panic (thorough: effect analysis from creation roots). Exact accounting over long histories and the two-thread handshake are not decided. A sound that play() reports as created was inserted. Each storage is created with the capacity of its own kind. The track removal predicate is the documented one (never early, not later than the handle flag allows). The index loop of remove_unused visits every key and both storages test what they hold before they pick up new resources; a creating function consults one controller; storages are sized with the plain configured capacity of their own kind; removal predicates are the flag test and nothing else; every handle's Drop raises the flag on every path. Every shipped Modulator::finished is the removal flag and nothing else; a streaming sound whose decoder failed is finished in every state (the error test is the first thing process does, on every path). A static sound is marked as stopped in the step that consumes its last source frame (the end test lies between a push into the resampler and the next turn of its loop); the decoder raises reached_end in the step that stops the transport. A resource picked up in a callback takes part in that callback's hand-over itself (new resources are taken over before the owner's items are polled).")
TECHNIQUE = 'MIR effect analysis (free) + move-flow / must-pass / error-discipline / drop-pairing rules'

RS = 'backend::resources::ResourceStorage::<T>'
SR = 'backend::resources::SelfReferentialResourceStorage::<T>'
RC = 'backend::resources::ResourceController::<T>'

HANDLES = [
    ('clock::handle::ClockHandle', 'ClockShared::mark_for_removal', 'backend::resources::clocks::Clocks::on_start_processing', 'is_marked_for_removal'),
    ('track::sub::handle::TrackHandle', 'TrackShared::mark_for_removal', 'backend::resources::mixer::Mixer::on_start_processing', 'should_be_removed'),
    ('track::sub::spatial_handle::SpatialTrackHandle', 'TrackShared::mark_for_removal', 'track::sub::Track::on_start_processing', 'should_be_removed'),
    ('track::send::handle::SendTrackHandle', 'TrackShared::mark_for_removal', 'backend::resources::mixer::Mixer::on_start_processing', 'is_marked_for_removal'),
    ('listener::handle::ListenerHandle', 'ListenerShared::mark_for_removal', 'backend::resources::listeners::Listeners::on_start_processing', 'is_marked_for_removal'),
    ('modulator::tweener::handle::TweenerHandle', None, 'backend::resources::modulators::Modulators::on_start_processing', 'Modulator::finished'),
    ('modulator::lfo::handle::LfoHandle', None, 'backend::resources::modulators::Modulators::on_start_processing', 'Modulator::finished'),
]


def run(ctx, R, tier):
    F = ctx.facts('default')
    from ..enginea import run_engine_a
    run_engine_a(R, F, groups=('rt',), effects=('free',), loops=False, rule_prefix='A')
    recycle(F, R)
    sweep(F, R)
    drain(F, R)
    errs(F, R)
    drops(F, R)
    modulator_finished(F, R)
    # 'a sound finishing frees its slot at the next callback': a streaming sound whose decoder failed is finished in every state
    from .c10 import err_gate_first
    err_gate_first(F, R, rule='B.C08.finish')
    static_end_in_step(F, R)
    # 'a sound finishing frees its slot': a stopped sound is finished only once Stopping -> Stopped is taken, which needs the
    # fade-out tween to have been started when Stopping was entered, whatever the state stop() found the sound in
    from .c03 import fade_start
    fade_start(F, R, rule='B.C08.finish')
    # '(at the one after, if the audio thread had not yet picked the resource up)': a resource picked up in a callback takes part in
    # that callback's hand-over itself (new resources are taken over before the owner's items are polled)
    from .c07 import first as picked_up_before_polled
    picked_up_before_polled(F, R)
    from .c09 import end_rule
    end_rule(F, R, rule='B.C08.finish')
    keys(F, R)
    reserve(F, R)
    play_inserts(F, R)
    capacities(F, R)
    storage_loops(F, R)
    one_controller(F, R)
    # prompt removal / never early: the track removal predicate (shared with C12)
    from .c12 import remove_rule
    remove_rule(F, R, rule='B.C08.remove')
    if tier == 'thorough':
        from ..witness import run_witnesses
        run_witnesses(R, 'C08')
        from ..creation import run_creation
        run_creation(ctx, R)


def static_end_in_step(F, R, rule='B.C08.finish'):
    """A static sound is over in the very step that consumes its last source frame: between a push into the resampler
    inside the frame loop and the next turn of the loop that holds the push, the end test (`!transport.playing && ..`) is
    passed, and it leads to mark_as_stopped.  A test that sits anywhere later (the top of the next output frame, the next
    callback) keeps a sound that ends on the last frame of a callback loaded, its handle saying Playing and its slot taken,
    for one more callback."""
    ST = 'sound::static_sound::sound::StaticSound'
    v = F.inlined_view('<%s as sound::Sound>::process' % ST, depth=3, pred=lambda hp: hp.startswith(ST + '::'))
    if not R.check(v is not None, rule, 'anchor:static-end', 'StaticSound::process not found'):
        return
    pushes = [x for x, t in v.calls() if (callee_path(t) or '').endswith('resampler::Resampler::push_frame') and v.in_loop(x)]
    tests = [g for g in range(v.n) if v.blocks[g]['term']['k'] == 'switch' and not v.blocks[g].get('cleanup')
             and describe(v, v.blocks[g]['term']['op'], depth=3, at=g).endswith('transport.playing')]
    marks = [x for x, t in v.calls() if (callee_path(t) or '').endswith('PlaybackStateManager::mark_as_stopped') and v.in_loop(x)]
    ok = bool(pushes) and bool(tests) and bool(marks)
    why = 'no push into the resampler / no end test / no mark_as_stopped inside the frame loop' if not ok else ''
    for p in pushes if ok else []:
        inner = min((l for l in v.loops() if p in l['blocks']), key=lambda l: len(l['blocks']))
        nxt = [x for x in v.succ(p)]
        after = [t for t in tests if t in inner['blocks']]
        if not after or not must_pass(v, nxt, [inner['header']], after):
            ok = False
            why = 'after a frame is pushed into the resampler the loop can go round without testing whether that was the last one'
            break
        if not any(v.dominates(t, m) and m in inner['blocks'] for t in after for m in marks):
            ok = False
            why = 'the end test of the stepping loop does not lead to mark_as_stopped'
            break
    R.check(ok, rule, 'static:end-in-step', 'StaticSound: %s (a sound that ends on the last frame of a callback stays loaded one more callback)' % why,
            detail={'pushes': len(pushes), 'tests': len(tests)}, where=v.file)


def capacities(F, R):
    """Exact accounting per kind: in the track builders the `sounds` storage (and its controller) is created with
    `sound_capacity` and the `sub_tracks` storage with `sub_track_capacity`."""
    n = 0
    for b in F.bodies:
        if b.krate != 'kira' or '{closure' in b.path or not b.path.startswith('track::') or 'uilder' not in b.path or not b.path.endswith('::build'):
            continue
        news = [(bb, describe(b, t['args'][0], depth=4, at=bb)) for bb, t in b.calls() if (callee_path(t) or '') == RS + '::new']
        if not news:
            continue
        # which field of the built track does each storage end up in?
        for bb, si, s in b.stmts():
            if s['k'] == 'assign' and s['rv']['k'] == 'agg' and s['rv'].get('ak') == 'adt' and 'sounds' in (s['rv'].get('fields') or []):
                for fld, cap in (('sounds', 'sound_capacity'), ('sub_tracks', 'sub_track_capacity')):
                    if fld not in s['rv']['fields']:
                        continue
                    n += 1
                    d = describe(b, s['rv']['ops'][s['rv']['fields'].index(fld)], depth=8, at=bb)
                    R.check(RS + '::new(' in d and cap in d and not any(c2 in d for c2 in ('sound_capacity', 'sub_track_capacity') if c2 != cap),
                            'B.C08.capacity', '%s.%s' % (b.path.split('::')[-2], fld),
                            '%s creates the %s storage as %s, not with %s: the limit of one kind would apply to another' % (b.path, fld, d[:90], cap),
                            detail={'storage': fld, 'capacity': cap}, where=b.where(bb))
    # ... and at the manager level: each kind of resource is given the capacity of its own kind
    cr = F.body('backend::resources::create_resources')
    if R.check(cr is not None, 'B.C08.capacity', 'anchor:create_resources', 'create_resources not found'):
        want = {'backend::resources::clocks::Clocks::new': ['clock_capacity'], 'backend::resources::modulators::Modulators::new': ['modulator_capacity'],
                'backend::resources::listeners::Listeners::new': ['listener_capacity'],
                'backend::resources::mixer::Mixer::new': ['sub_track_capacity', 'send_track_capacity']}
        caps = ('clock_capacity', 'modulator_capacity', 'listener_capacity', 'sub_track_capacity', 'send_track_capacity', 'sound_capacity')
        for bb, t in cr.calls():
            cp = callee_path(t) or ''
            if cp in want:
                for i, cap in enumerate(want[cp]):
                    n += 1
                    d = describe(cr, t['args'][i], depth=4, at=bb)
                    R.check(cap in d and not any(c2 in d for c2 in caps if c2 != cap), 'B.C08.capacity', '%s#%d' % (cp.split('::')[-2], i),
                            'create_resources builds %s with %s instead of capacities.%s: the limit of one kind applies to another' % (cp.split('::')[-2], d[:60], cap),
                            detail={'constructor': cp, 'capacity': cap}, where=cr.where(bb))
    mn = F.body('backend::resources::mixer::Mixer::new')
    if R.check(mn is not None, 'B.C08.capacity', 'anchor:Mixer::new', 'Mixer::new not found'):
        names = [mn.names.get(i, '') for i in range(1, mn.arg_count + 1)]
        for bb, si, s in mn.stmts():
            if s['k'] == 'assign' and s['rv']['k'] == 'agg' and s['rv'].get('adt') == 'backend::resources::mixer::Mixer':
                for fld, cap in (('sub_tracks', 'sub_track_capacity'), ('send_tracks', 'send_track_capacity')):
                    if fld in s['rv']['fields']:
                        n += 1
                        d = describe(mn, s['rv']['ops'][s['rv']['fields'].index(fld)], depth=8, at=bb)
                        R.check(cap in d and not any(c2 in d for c2 in ('sub_track_capacity', 'send_track_capacity') if c2 != cap), 'B.C08.capacity', 'Mixer.' + fld,
                                'Mixer::new creates %s as %s, not with %s' % (fld, d[:80], cap), detail={'storage': fld, 'capacity': cap})
    # ... passed on as it is: every storage / controller constructor in the crate receives a plain capacity (a parameter or a
    # field), never a rounded or otherwise computed one
    for b in F.bodies:
        if b.krate != 'kira':
            continue
        for bb, t in b.calls():
            cp = callee_path(t) or ''
            if cp in (RS + '::new', 'backend::resources::SelfReferentialResourceStorage::<T>::new', 'atomic_arena::Arena::<T>::with_capacity', 'atomic_arena::Arena::<T>::new'):
                d = describe(b, t['args'][0], depth=4, at=bb)
                n += 1
                R.check('(' not in d.replace('(*self)', 'self'), 'B.C08.capacity', 'plain:%s@%s' % (cp.split('::')[-3] if '<T>' in cp else cp, b.path.split('::')[-2] + '::' + b.path.split('::')[-1]),
                        '%s sizes a resource storage with %s instead of the configured capacity itself' % (b.path, d[:80]), detail={'capacity': d[:80]}, where=b.where(bb), nontrivial=False)
    R.floor('B.C08.capacity', n, 9)


def play_inserts(F, R):
    """A sound that `play` reports as created is handed to the audio thread: in every function that turns sound data into a
    sound (`SoundData::into_sound`), each path that returns Ok passes ResourceController::insert (or insert_with_key)."""
    n = 0
    for b in F.bodies:
        if b.krate != 'kira' or '{closure' in b.path:
            continue
        isd = [bb for bb, t in b.calls() if (callee_path(t) or '') == 'sound::SoundData::into_sound']
        if not isd or b.path.endswith('::into_sound'):
            continue
        ins = set(bb for bb, t in b.calls() if (callee_path(t) or '').startswith('backend::resources::ResourceController::<T>::insert'))
        n += 1
        bad = None
        for p in explore(b):
            if p.end != 'return':
                continue
            r = str(p.ret)
            if ('Result::Ok' in r or '::Ok(' in r) and not (set(p.blocks) & ins):
                bad = r[:80]
        R.check(bad is None and bool(ins), 'B.C08.play', b.path,
                '%s can return Ok (%s) without inserting the sound: the handle refers to a sound that never reaches the audio thread' % (b.path, bad),
                detail='into_sound()? ; controller.insert(sound)? ; Ok(handle)', where=b.file)
    R.floor('B.C08.play', n, 3)


def reserve(F, R):
    """Exact accounting: a reserved slot is always filled.  In every function that reserves a key
    (`ResourceController::try_reserve`), each path that returns after the reservation SUCCEEDED hands the key to
    `insert_with_key`; a fallible step between the two (an early `?` return) would leak the slot for ever: the count
    stays above created - removed and creation fails with nothing alive."""
    n = 0
    for b in F.bodies:
        if b.krate != 'kira' or '{closure' in b.path:
            continue
        tr = [bb for bb, t in b.calls() if (callee_path(t) or '').endswith('ResourceController::<T>::try_reserve')]
        if not tr:
            continue
        ins = set(bb for bb, t in b.calls() if (callee_path(t) or '').endswith('ResourceController::<T>::insert_with_key'))
        n += 1
        bad = None
        for p in explore(b):
            if p.end != 'return':
                continue
            blocks = set(p.blocks)
            if not (blocks & set(tr)) or (blocks & ins):
                continue
            failed = any('try_reserve' in d and lab in ('Break', 'Err') for _, d, lab in p.decisions)
            if not failed:
                bad = str(p.ret)[:100]
        R.check(bad is None, 'B.C08.reserve', b.path,
                '%s can return (%s) after a successful try_reserve without inserting: the reserved slot leaks' % (b.path, bad),
                detail='try_reserve()? ... insert_with_key(key, _) on every path', where=b.file)
    R.floor('B.C08.reserve', n, 5)


def recycle(F, R):
    b = F.body(RS + '::remove_and_add')
    if R.check(b is not None, 'B.C08.recycle', 'anchor:ResourceStorage', 'remove_and_add not found'):
        df = calls_to(b, 'atomic_arena::Arena::<T>::drain_filter', suffix=False)
        push = [(bb, t) for bb, t in calls_to(b, 'rtrb::Producer::<T>::push', suffix=False)
                if 'unused_resource_producer' in (self_field_of_call(b, t, 0) or '')]
        ok = len(df) == 1 and len(push) == 1
        why = 'drain_filter / push into the unused ring not found once'
        if len(df) == 1 and not push:
            # `drain_filter(test).for_each(|(_, resource)| producer.push(resource)..)`: the consumer visits every item the
            # iterator yields; its closure pushes its argument's resource on every path and drops none
            from ..rules import closure_args
            fe = [(bb, t) for bb, t in b.calls() if (callee_path(t) or '').endswith('Iterator::for_each')
                  and 'drain_filter(' in describe(b, t['args'][0], depth=5, at=bb)]
            cl = [c for bb, t in fe for c in closure_args(F, b, t)]
            if len(fe) == 1 and len(cl) == 1:
                c = cl[0]
                cp_ = [(x, t) for x, t in calls_to(c, 'rtrb::Producer::<T>::push', suffix=False)]
                ok = len(cp_) == 1 and 'unused_resource_producer' in describe(c, cp_[0][1]['args'][0], depth=6, at=cp_[0][0])
                why = 'the closure handed to for_each does not push into the unused ring once'
                if ok:
                    dv = describe(c, cp_[0][1]['args'][1], depth=5, at=cp_[0][0])
                    params = [nm for l, nm in c.names.items() if 2 <= l <= c.arg_count]
                    ok = (dv.endswith('.1') and dv.split('.')[0].strip('()* ') in ('_2',)) or dv in params or dv == '_2.1'
                    why = 'the value pushed to the unused ring is %s, not the item handed to the closure' % dv[:100]
                if ok:
                    ok = must_pass(c, [0], returns(c), [cp_[0][0]]) and not c.in_loop(cp_[0][0])
                    why = 'an item removed from the arena can leave the closure without being pushed to the unused ring'
                drops = [x for x in range(c.n) if c.blocks[x]['term']['k'] == 'drop' and not c.blocks[x].get('cleanup')
                         and c.blocks[x]['term']['pl']['ty'] in ('T', '(atomic_arena::Key, T)')]
                if ok and drops:
                    ok, why = False, 'the closure drops a resource (%s)' % c.where(drops[0])
                R.check(ok, 'B.C08.recycle', 'ResourceStorage::remove_and_add', why, detail='drain_filter(..).for_each(|item| unused_resource_producer.push(item))', where=b.file)
                df = None
        if df is None:
            pass
        elif ok:
            from .c02 import loop_of
            L = loop_of(b, push[0][0])
            d = describe(b, push[0][1]['args'][1], depth=5, at=push[0][0])
            ok = L is not None and 'DrainFilter' in d and d.endswith('.1')
            why = 'the value pushed to the unused ring is %s, not the item yielded by drain_filter' % d[:140]
            if ok:
                # every iteration that yields an item pushes it: from the Some edge of next(), the push is passed before the header
                nx = [x for x in L['blocks'] if (callee_path(b.blocks[x]['term']) or '').endswith("DrainFilter<'_, T, F> as std::iter::Iterator>::next")]
                from ..rt import dead_end
                exits = [s for x in L['blocks'] for s in b.succ(x) if s not in L['blocks'] and not dead_end(b, s)]
                from ..rules import switch_on_call
                sw = switch_on_call(b, nx[0]) if nx else None
                if sw is None:
                    ok = False
                    why = 'unrecognised-shape: drain_filter loop'
                else:
                    sbb, edges, neg = sw
                    some_t = edges.get('1')
                    ok = some_t is not None and must_pass(b, [some_t], [L['header']], [push[0][0]])
                    why = 'an item removed from the arena can reach the next iteration without being pushed to the unused ring (it would be dropped on the audio thread)'
                # and nothing in the loop drops a T
                drops = [x for x in L['blocks'] if b.blocks[x]['term']['k'] == 'drop' and b.blocks[x]['term']['pl']['ty'] in ('T', '(atomic_arena::Key, T)')]
                if drops:
                    ok = False
                    why = 'the loop drops a resource (%s)' % b.where(drops[0])
        if df is not None:
            R.check(ok, 'B.C08.recycle', 'ResourceStorage::remove_and_add', why, detail='drain_filter item -> unused_resource_producer.push', where=b.file)
    u = F.body(SR + '::remove_unused')
    if R.check(u is not None, 'B.C08.recycle', 'anchor:SelfReferential', 'remove_unused not found'):
        rm = calls_to(u, 'atomic_arena::Arena::<T>::remove', suffix=False)
        push = [(bb, t) for bb, t in calls_to(u, 'rtrb::Producer::<T>::push', suffix=False)]
        ok = len(rm) == 1 and len(push) == 1
        if ok:
            d = describe(u, push[0][1]['args'][1], depth=5, at=push[0][0])
            ok = 'atomic_arena::Arena::<T>::remove(' in d and u.dominates(rm[0][0], push[0][0])
            # between the removal and the push nothing can skip the push
            ok = ok and must_pass(u, [rm[0][1]['t']], [x for l in u.loops() for x in [l['header']]] + returns(u), [push[0][0]])
        R.check(ok, 'B.C08.recycle', 'SelfReferential::remove_unused', 'a removed resource is not handed to the unused ring on every path',
                detail='resources.remove(key) -> unused_resource_producer.push', where=u.file)


def sweep(F, R):
    """Every storage owner refills/sweeps its storage on every callback: remove_and_add lies on every path of on_start_processing."""
    from .c07 import OWNERS
    n = 0
    for fn, field, _ in OWNERS:
        b = F.body(fn)
        if b is None:
            continue
        ra = [bb for bb, t in calls_where(b, lambda p, t: p.endswith('ResourceStorage::<T>::remove_and_add'))
              if (self_field_of_call(b, b.blocks[bb]['term'], 0) or '').endswith('.' + field)]
        if not ra:
            continue
        n += 1
        R.check(all(b.dominates(ra[0], r) for r in b.return_blocks()) and not b.in_loop(ra[0]), 'B.C08.sweep', '%s.%s' % (fn.rsplit('::', 1)[0], field),
                '%s can return without sweeping %s: finished or dropped resources keep their slots and new ones are not adopted '
                '(creation keeps failing with the limit error although fewer than capacity are alive)' % (fn, field),
                detail={'owner': fn, 'storage': field}, where=b.where(ra[0]))
    R.floor('B.C08.sweep', n, 8)


def drain(F, R):
    b = F.body(RC + '::insert_with_key')
    if R.check(b is not None, 'B.C08.drain', 'anchor', 'ResourceController::insert_with_key not found'):
        ru = blocks_of(calls_to(b, RC + '::remove_unused', suffix=False))
        ps = blocks_of(calls_to(b, 'rtrb::Producer::<T>::push', suffix=False))
        ok = len(ru) == 1 and len(ps) == 1 and b.dominates(ru[0], ps[0])
        R.check(ok, 'B.C08.drain', 'insert_with_key', 'the unused ring is not drained before every insert (its capacity argument relies on it)',
                detail='remove_unused() ≺ new_resource_producer.push', where=b.file)
    ru = F.body(RC + '::remove_unused')
    if R.check(ru is not None, 'B.C08.drain', 'anchor:remove_unused', 'not found'):
        pops = calls_to(ru, 'rtrb::Consumer::<T>::pop', suffix=False)
        gm = [bb for bb, t in ru.calls() if (callee_path(t) or '').endswith('Mutex::<T>::get_mut')
              and 'unused_resource_consumer' in describe(ru, t['args'][0], depth=4)]
        ok = len(pops) == 1 and bool(ru.in_loop(pops[0][0])) and len(gm) == 1 and ru.dominates(gm[0], pops[0][0])
        if ok:
            from ..rt import classify_loop
            ok = classify_loop(ru, ru.in_loop(pops[0][0])[0])[0] in ('ring-drain', 'other') and len(ru.loops()) == 1
        R.check(ok, 'B.C08.drain', 'remove_unused', 'remove_unused does not pop the unused ring until it is empty', detail='while consumer.pop().is_ok() {}')
    # same capacity for the two rings and the arena
    for owner in (RS, SR):
        nb = F.body(owner + '::new')
        if not R.check(nb is not None, 'B.C08.drain', 'anchor:new:' + owner, 'constructor not found'):
            continue
        caps = []
        for bb, t in nb.calls():
            cp = callee_path(t) or ''
            if cp in ('rtrb::RingBuffer::<T>::new', 'atomic_arena::Arena::<T>::new'):
                caps.append((cp.split('::')[-3], describe(nb, t['args'][0])))
        ok = len(caps) == 3 and all(c == 'capacity' for _, c in caps)
        R.check(ok, 'B.C08.drain', 'capacity:' + owner.split('::')[-2], 'rings/arena capacities: %s (must all be the `capacity` argument)' % caps,
                detail={'capacities': caps})


def errs(F, R):
    n = 0
    for b in F.bodies:
        if b.krate != 'kira' or b.path.startswith('backend::resources'):
            continue
        for bb, t in b.calls():
            cp = callee_path(t) or ''
            if cp in (RC + '::insert', RC + '::try_reserve'):
                n += 1
                key = '%s|%s' % (b.path, cp.split('::')[-1])
                if t['dest']['p'] or t['dest']['l'] == 0:
                    R.ok('B.C08.err', key, detail='returned')
                    continue
                u = consumers(b, t['dest']['l'])
                good = bool(u & {'branch', 'match', 'return', 'ok_or'}) and 'unwrap' not in u and not any(x.startswith('swallow') for x in u)
                R.check(good, 'B.C08.err', key, '%s: the limit Result of %s is %s instead of being propagated as the documented error'
                        % (b.path, cp, sorted(u) or 'dropped'), detail={'site': b.path, 'consumed_by': sorted(u)}, where=b.where(bb))
    R.floor('B.C08.err', n, 11)
    tr = F.body(RC + '::try_reserve')
    if R.check(tr is not None, 'B.C08.err', 'anchor:try_reserve', 'not found'):
        ok = bool(calls_to(tr, 'atomic_arena::Controller::try_reserve', suffix=False)) and bool(calls_where(tr, lambda p, t: t['callee'].get('name') == 'map_err'))
        R.check(ok, 'B.C08.err', 'try_reserve', 'try_reserve does not map the arena-full error', detail='controller.try_reserve().map_err(..)')


def drops(F, R):
    n = 0
    for h, marker, owner_osp, pred in HANDLES:
        b = F.body('<%s as std::ops::Drop>::drop' % h)
        if not R.check(b is not None, 'B.C08.drop', 'anchor:' + h, 'no Drop impl for %s: dropping the handle would never remove the resource' % h):
            continue
        n += 1
        if marker:
            ok = bool(calls_to(b, marker))
        else:
            st = [t for bb, t in b.calls() if (callee_path(t) or '').endswith('::store')]
            ok = len(st) == 1 and 'removed' in describe(b, st[0]['args'][0], depth=6) and describe(b, st[0]['args'][1]) == 'True'
        R.check(ok, 'B.C08.drop', h, 'Drop for %s does not set the removal flag' % h, detail='drop => removal flag', where=b.file)
        # ... on every path (a handle dropped while its thread unwinds from a panic the application survives is a dropped handle)
        marks = [bb for bb, t in b.calls() if (marker and (callee_path(t) or '').endswith(marker)) or (not marker and (callee_path(t) or '').endswith('::store'))]
        R.check(bool(marks) and any(all(b.dominates(m_, r) for r in b.return_blocks()) for m_ in marks), 'B.C08.drop', h + ':every-path',
                'Drop for %s can return without setting the removal flag' % h, detail='the flag is set on every path of drop()', where=b.file)
        ob = F.body(owner_osp)
        if R.check(ob is not None, 'B.C08.drop', 'anchor:pred:' + h, '%s not found' % owner_osp):
            # the predicate: a closure of the function, or a function item handed over by name
            cands = list(F.closures_of(ob.path)) + [fb for fb in (F.body(a['fn']) for _, t in ob.calls() for a in t['args'] if isinstance(a, dict) and a.get('fn'))
                                                    if fb is not None and fb.krate == 'kira']
            hit = [c for c in cands if any((callee_path(t) or '').endswith(pred) or pred in (callee_path(t) or '') for _, t in c.calls())]
            R.check(bool(hit), 'B.C08.drop', 'pred:' + h, '%s does not remove with a predicate reading the flag (%s)' % (owner_osp, pred),
                    detail={'predicate': pred})
            # ... and nothing else: the predicate IS the flag (a budget such as "at most four removals per callback" leaves
            # dropped resources in place and their slots taken)
            for c in hit:
                rets = [str(p_.ret) for p_ in explore(c) if p_.end == 'return']
                pure = bool(rets) and all((pred in r or pred.split('::')[-1] in r) and not r.startswith(('BitAnd(', 'BitOr(', 'And(')) for r in rets) \
                    and not any(s2['k'] == 'assign' and s2['lhs']['p'] and pretty_place(c, s2['lhs']).startswith('(*_1)') for _, _, s2 in c.stmts()) \
                    and len([1 for x in range(c.n) if c.blocks[x]['term']['k'] == 'switch' and not c.blocks[x]['cleanup']]) == 0
                R.check(pure, 'B.C08.drop', 'pred-pure:' + h, 'the removal predicate of %s is not just the flag test (returns %s)' % (owner_osp, [r[:70] for r in rets]),
                        detail={'returns': [r[:90] for r in rets]}, nontrivial=False)
    # the marker really raises the flag, and the reader reads the same one
    from .c07 import origin_pl, last_field
    for sh in ('clock::ClockShared', 'track::TrackShared', 'listener::ListenerShared'):
        mb = F.body(sh + '::mark_for_removal')
        rb = F.body(sh + '::is_marked_for_removal')
        if not R.check(mb is not None and rb is not None, 'B.C08.drop', 'anchor:flag:' + sh, '%s::mark_for_removal / is_marked_for_removal not found' % sh):
            continue
        st = [(last_field(origin_pl(mb, t['args'][0]) or {}), describe(mb, t['args'][1])) for bb, t in mb.calls()
              if (callee_path(t) or '').endswith('::store') and 'Atomic' in (callee_path(t) or '')]
        ld = [last_field(origin_pl(rb, t['args'][0]) or {}) for bb, t in rb.calls()
              if (callee_path(t) or '').endswith('::load') and 'Atomic' in (callee_path(t) or '')]
        ok = len(st) == 1 and st[0][1] == 'True' and len(ld) == 1 and st[0][0] is not None and st[0][0] == ld[0] \
            and all(mb.dominates(bb, r) for bb, t in mb.calls() if (callee_path(t) or '').endswith('::store') for r in mb.return_blocks())
        R.check(ok, 'B.C08.drop', 'flag:' + sh,
                '%s::mark_for_removal does not store `true` into the flag that is_marked_for_removal loads (stores: %s, loads: %s): dropping '
                'the handle would never remove the resource' % (sh, st, ld), detail={'flag': st[0][0] if st else None})
    R.floor('B.C08.drop', n, 7)
    # modulators: finished() reads the same flag the handle sets
    for m in ('modulator::tweener::Tweener', 'modulator::lfo::Lfo'):
        fb = F.body('<%s as modulator::Modulator>::finished' % m)
        if R.check(fb is not None, 'B.C08.drop', 'anchor:finished:' + m, 'finished() not found'):
            ld = [t for bb, t in fb.calls() if (callee_path(t) or '').endswith('::load')]
            R.check(len(ld) == 1 and 'removed' in describe(fb, ld[0]['args'][0], depth=6), 'B.C08.drop', 'finished:' + m,
                    '%s::finished does not read the removal flag' % m, detail='finished() == shared.removed')


ID_TYPES = ('clock::ClockId', 'modulator::ModulatorId', 'listener::ListenerId', 'track::send::SendTrackId')
KEY_OK = ('atomic_arena::Arena::<T>::get', 'atomic_arena::Arena::<T>::get_mut', 'backend::resources::ResourceStorage::<T>::get_mut',
          'backend::resources::ResourceController::<T>::insert_with_key', 'atomic_arena::Arena::<T>::insert_with_key')


def modulator_finished(F, R, rule='B.C08.drop'):
    """The modulators' removal predicate asks `Modulator::finished`: for every modulator kira ships, that IS the removal flag
    its handle raises on drop (one outcome: the load of `removed`) - not the flag *and* something about the modulator's own
    state, which leaves a dropped modulator (and its slot) alive for as long as that state lasts."""
    n = 0
    for b in F.bodies:
        if b.krate != 'kira' or not b.path.endswith(' as modulator::Modulator>::finished') or 'DummyModulator' in b.path or 'Placeholder' in b.path:
            continue
        n += 1
        rets = [str(p.ret) for p in explore(b) if p.end == 'return']
        switches = [x for x in range(b.n) if b.blocks[x]['term']['k'] == 'switch' and not b.blocks[x]['cleanup']]
        ok = len(rets) == 1 and '::load(' in rets[0] and '.removed' in rets[0] and not switches
        ty = b.path[1:].split(' as ')[0]
        R.check(ok, rule, 'finished:' + ty, '%s::finished is %s: not just the removal flag' % (ty, [r[:70] for r in rets][:3]), detail={'returns': [r[:90] for r in rets]}, where=b.file)
    R.floor(rule + '.finished', n, 2)


def keys(F, R):
    n = 0
    bad = []
    for b in F.bodies:
        if b.krate != 'kira':
            continue
        for bb, t in b.calls():
            for a in t['args']:
                if not is_place(a):
                    continue
                ty = a['pl'].get('ty') or ''
                if ty != 'atomic_arena::Key':
                    continue
                d = describe(b, a, depth=4, at=bb)
                # a Key read out of a public id (x.0 where x: ClockId/...)
                from ..facts import operand_place
                pl = a['pl']
                is_id = False
                for pr in pl['p']:
                    if pr[0] == 'field' and len(pr) > 3 and pr[3] in ID_TYPES:
                        is_id = True
                if not is_id:
                    # through a copy of the field into a temp
                    dl = b.single_def(pl['l']) if not pl['p'] else None
                    if dl and dl[0] == 'stmt' and dl[3]['rv']['k'] == 'use' and is_place(dl[3]['rv']['op']):
                        for pr in dl[3]['rv']['op']['pl']['p']:
                            if pr[0] == 'field' and len(pr) > 3 and pr[3] in ID_TYPES:
                                is_id = True
                if not is_id:
                    continue
                n += 1
                cp = callee_path(t) or ''
                if cp not in KEY_OK and not cp.endswith(('::eq', '::ne', '::hash', '::clone', '::fmt')):
                    bad.append('%s passes an id\'s key to %s (%s)' % (b.path, cp, b.where(bb)))
    R.check(not bad, 'B.C08.key', 'id-keys', '; '.join(bad[:4]), detail={'uses_checked': n})
    R.floor('B.C08.key', n, 4)
    # no index-based access to the arenas with a Key outside the storage's own key list
    idx = []
    for b in F.bodies:
        if b.krate != 'kira':
            continue
        for bb, t in b.calls():
            cp = callee_path(t) or ''
            if 'atomic_arena::Arena<T> as std::ops::Index' in cp and not b.path.startswith(SR):
                idx.append('%s (%s)' % (b.path, b.where(bb)))
    R.check(not idx, 'B.C08.key', 'no-index', 'arena indexed by key (panics on stale ids): %s' % idx[:3], detail='only SelfReferentialResourceStorage indexes its arena, with its own key list')


def storage_loops(F, R):
    """Prompt removal, never early: (1) the index loop of SelfReferentialResourceStorage::remove_unused visits every key -
    on the path that removes `keys[i]` the index is not advanced (the next key has moved into position i), on the other
    path it advances by one; (2) both storages test the resources they already hold BEFORE they pick up the new ones from
    the queue (a resource that has just arrived has not picked up its own children / sounds yet, so its removal test would
    see it empty: a persisting track dropped right after creation would vanish, a parent would go before its child)."""
    from ..rules import order_ok
    SR = 'backend::resources::SelfReferentialResourceStorage::<T>'
    b = F.inlined_view(SR + '::remove_and_add', depth=1, pred=lambda hp: hp.startswith(SR + '::')) or F.body(SR + '::remove_unused')
    ru = F.body(SR + '::remove_unused') or b
    if R.check(ru is not None, 'B.C08.loops', 'anchor:remove_unused', 'remove_unused not found'):
        rem = [x for x, t in ru.calls() if (callee_path(t) or '').endswith('std::vec::Vec::<T, A>::remove') or (callee_path(t) or '').endswith('Vec::<T, A>::swap_remove')]
        incs = [(x, si) for x, si, s in ru.stmts() if s['k'] == 'assign' and s['rv']['k'] == 'bin' and s['rv']['op'] in ('Add', 'AddWithOverflow', 'AddUnchecked')
                and ru.local_name(s['lhs']['l']) is not None and describe(ru, s['rv']['b']) in ('1', 'const 1_usize')]
        ok = len(rem) == 1 and len(incs) >= 1
        why = 'no keys.remove(i) / i += 1 pair found'
        if ok:
            L = [l for l in ru.loops() if rem[0] in l['blocks']]
            ok = bool(L)
            if ok:
                hdr = max(L, key=lambda l: len(l['blocks']))['header']
                after_rem = ru.reachable([rem[0]], stop=[hdr])
                ok = not any(x in after_rem for x, _ in incs) and len(incs) == 1
                why = 'the index is advanced on the path that has just removed keys[i], or by more than one on the other (keys are skipped until a later callback)'
        R.check(ok, 'B.C08.loops', 'remove_unused:index', 'SelfReferentialResourceStorage::remove_unused: %s' % why,
                detail='if removed { keys.remove(i) } else { i += 1 }', where=ru.file)
    for st in ('backend::resources::ResourceStorage::<T>', SR):
        v = F.inlined_view(st + '::remove_and_add', depth=1, pred=lambda hp: hp.startswith(st + '::')) or F.body(st + '::remove_and_add')
        if not R.check(v is not None, 'B.C08.loops', 'anchor:' + st.split('::')[-2], 'remove_and_add not found'):
            continue
        from ..rules import op_sites
        pushes = op_sites(F, v, lambda p, t: p.endswith('rtrb::Producer::<T>::push'))
        pops = [x for x, t in v.calls() if (callee_path(t) or '').endswith('rtrb::Consumer::<T>::pop')]
        R.check(bool(pushes) and bool(pops) and order_ok(v, pushes, pops), 'B.C08.loops', st.split('::')[-2] + ':remove-then-add',
                '%s::remove_and_add does not finish testing / removing what it holds before it takes new resources from the queue' % st,
                detail='removal loop ≺ new_resource_consumer.pop loop', where=v.file)


def one_controller(F, R):
    """"Creation succeeds exactly when fewer than capacity OF THAT KIND are alive": a function that creates a resource
    consults one controller only - the one it reserves / inserts with.  (A fail-fast `is_full()` test on a sibling
    controller, e.g. the sound controller of a track that is about to get a child track, refuses creation for the wrong
    reason.)"""
    from ..rules import self_field_of_call
    n = 0
    for b in F.bodies:
        if b.krate != 'kira' or '{closure' in b.path:
            continue
        rec = {}
        for bb, t in b.calls():
            cp = callee_path(t) or ''
            if cp.startswith('backend::resources::ResourceController::<T>::'):
                f = (self_field_of_call(b, t, 0) or describe(b, t['args'][0], depth=4, at=bb)).split('.')[-1]
                rec.setdefault(f, []).append(cp.split('::')[-1])
        creates = [f for f, ms in rec.items() if any(m in ('try_reserve', 'insert', 'insert_with_key') for m in ms)]
        if not creates:
            continue
        n += 1
        R.check(len(rec) == 1, 'B.C08.one-controller', b.path, '%s creates a resource through %s but also consults %s' % (b.path, creates, sorted(set(rec) - set(creates))),
                detail={'controllers': {k: sorted(set(v)) for k, v in rec.items()}}, where=b.file, nontrivial=False)
    R.floor('B.C08.one-controller', n, 10)
