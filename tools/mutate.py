#!/usr/bin/env python3
"""Systematic single-line mutation of kira's source, used to look for gaps in the checks (Engine D, exploratory; not part
of any registered check).  For every mutant: build + unit tests in a scratch copy (outside /repo and /verif); a mutant
that still compiles and passes the unit tests ("survivor") is then run against all 16 checks.  Survivors that no check
reports are written to the output file for triage: each is either equivalent / outside every property, or a gap.

usage: tools/mutate.py --files a.rs,b.rs [--max N] [--workers 8] [--out /tmp/mut.jsonl] [--seed 1]
"""
import concurrent.futures, json, os, random, re, shutil, subprocess, sys, tempfile, time
VERIF = os.path.dirname(os.path.dirname(os.path.abspath(__file__)))
SRC = 'crates/kira/src'
PROPS = ['C01', 'C02', 'C03', 'C05', 'C06', 'C07', 'C08', 'C09', 'C10', 'C12', 'C13', 'C15', 'C16', 'C17', 'C18', 'C19']


def candidates(path, text):
    """[(lineno, new line, operator)] single-line mutants of one file (outside tests, comments, attributes)."""
    out = []
    lines = text.split('\n')
    in_test = False
    depth_fn = 0
    for i, l in enumerate(lines):
        st = l.strip()
        if re.match(r'^(pub )?mod tests? \{', st):
            in_test = True
        if in_test:
            continue
        if not st or st.startswith(('//', '#[', '/*', '*', 'use ', 'pub use', 'mod ', 'pub mod')):
            continue
        ind = l[:len(l) - len(l.lstrip())]
        # statement deletion: a complete single-line statement that is not a declaration
        if st.endswith(';') and not st.startswith(('let ', 'pub ', 'const ', 'static ', 'type ', 'fn ', 'return', 'break', 'continue', '}', ')', ']')) \
                and st.count('(') == st.count(')') and st.count('{') == st.count('}') and ind.startswith('\t\t'):
            out.append((i, ind + '// (deleted)', 'del-stmt'))
        # early exits
        if st == 'continue;':
            out.append((i, ind + 'break;', 'continue->break'))
        if st == 'break;':
            out.append((i, ind + 'continue;', 'break->continue'))
        if st == 'return;':
            out.append((i, ind + '// (deleted return)', 'del-return'))
        # condition negation
        m = re.match(r'^(\s*(?:\} else )?if )(?!let )(.*)( \{)\s*$', l)
        if m:
            out.append((i, '%s!(%s)%s' % (m.group(1), m.group(2), m.group(3)), 'negate-if'))
        m = re.match(r'^(\s*while )(?!let )(.*)( \{)\s*$', l)
        if m and 'true' not in m.group(2):
            pass  # negating a loop guard mostly hangs or is equivalent to deleting the loop; skipped
        # relational / logical operator swaps (first occurrence on the line)
        if not st.startswith(('fn ', 'pub fn', 'impl', 'pub(crate) fn', 'pub(super) fn', 'where', 'type ')) and '->' not in st and '=>' not in st:
            for a, b in ((' >= ', ' > '), (' > ', ' >= '), (' <= ', ' < '), (' < ', ' <= '), (' == ', ' != '), (' != ', ' == '),
                         (' && ', ' || '), (' || ', ' && ')):
                if a in l and '<' + a.strip() not in l:
                    out.append((i, l.replace(a, b, 1), 'op%s->%s' % (a.strip(), b.strip())))
                    break
            for a, b in ((' + 1', ' + 0'), (' - 1', ' - 0'), (' += ', ' -= '), (' -= ', ' += ')):
                if a in l and st.endswith((';', '{', ',')) and not st.startswith('let mut i'):
                    out.append((i, l.replace(a, b, 1), 'arith%s->%s' % (a.strip(), b.strip())))
                    break
        # boolean literals in assignments / arguments
        if re.search(r'\b(true|false)\b', st) and st.endswith((';', ',')) and '//' not in st and 'assert' not in st:
            out.append((i, re.sub(r'\btrue\b', 'FALSE_', re.sub(r'\bfalse\b', 'true', l, 1), 1).replace('FALSE_', 'false'), 'flip-bool'))
    # ---- second operator set
    for i, l in enumerate(lines):
        st = l.strip()
        if not st or st.startswith(('//', '#[', '/*', '*', 'use ', 'pub use', 'mod ', 'pub mod', '# ')):
            continue
        if re.match(r'^(pub )?mod tests? \{', st):
            break
        for a, b in (('.min(', '.max('), ('.max(', '.min('), ('.is_some()', '.is_none()'), ('.is_none()', '.is_some()'),
                     ('.is_ok()', '.is_err()'), ('.is_err()', '.is_ok()'), ('.saturating_sub(', '.wrapping_sub('),
                     ('.left', '.right'), ('.right', '.left'), ('Ordering::SeqCst', 'Ordering::Relaxed'),
                     ('.is_empty()', '.is_empty() == false'), ('.then(', '.then_some(()).and_then(|_| None::<()>).or(None).map(|_: ()| unreachable!()).or_else('),
                     ):
            if a in l and not st.startswith(('fn ', 'pub fn', 'impl', 'pub(crate) fn', 'where')) and 'then_some(())' not in b:
                out.append((i, l.replace(a, b, 1), 'swap%s->%s' % (a.strip('.('), b.strip('.(')[:12])))
                break
        # drop error propagation
        if st.endswith('?;') and st.count('(') == st.count(')') and l.startswith('\t\t') and not st.startswith('let '):
            out.append((i, l[:-2] + '.ok();', 'drop-?'))
        # Some(x) on a line of its own as a tail expression / match arm value -> None
        m = re.match(r'^(\s*)Some\((.*)\)(,?)\s*$', l)
        if m and m.group(2).count('(') == m.group(2).count(')'):
            out.append((i, '%sNone%s' % (m.group(1), m.group(3)), 'some->none'))
        # numeric literal tweaks in arguments / comparisons
        m = re.search(r'(?<![\w.])(0\.0|1\.0|2\.0)(?![\w.])', l)
        if m and st.endswith((';', '{', ',')) and not st.startswith(('const ', 'pub const', 'static ')) and 'assert' not in st:
            rep = {'0.0': '1.0', '1.0': '0.0', '2.0': '1.0'}[m.group(1)]
            out.append((i, l[:m.start()] + rep + l[m.end():], 'lit%s->%s' % (m.group(1), rep)))
    # multi-line statement deletion: a statement that starts on a line not ending in ; { } , and ends at the first later
    # line ending in ';' with balanced brackets
    i = 0
    while i < len(lines):
        l = lines[i]
        st = l.strip()
        if re.match(r'^(pub )?mod tests? \{', st):
            break
        if l.startswith('\t\t') and st and not st.startswith(('//', 'let ', 'if ', 'match ', 'for ', 'while ', 'loop', 'return', '}', '.', '#', '*', '/*', 'else')) \
                and not st.endswith((';', '{', '}', ',', '(')) and re.match(r'^[a-z_\.\*\(&]', st):
            depth = st.count('(') + st.count('{') + st.count('[') - st.count(')') - st.count('}') - st.count(']')
            j = i + 1
            ok = False
            while j < len(lines) and j < i + 12:
                sj = lines[j].strip()
                depth += sj.count('(') + sj.count('{') + sj.count('[') - sj.count(')') - sj.count('}') - sj.count(']')
                if sj.endswith(';') and depth == 0:
                    ok = True
                    break
                if depth < 0:
                    break
                j += 1
            if ok and all(lines[k].startswith(l[:len(l) - len(l.lstrip())]) for k in range(i, j + 1)):
                out.append(((i, j), None, 'del-multiline-stmt'))
                i = j
        i += 1
    # ---- third operator set: copy-paste slips -- `self.<field>` replaced by a sibling field of the same type,
    # and two adjacent arguments of a call exchanged
    sib = sibling_fields()
    for i, l in enumerate(lines):
        st = l.strip()
        if re.match(r'^(pub )?mod tests? \{', st):
            break
        if not l.startswith('\t\t') or st.startswith(('//', '#', '*', '/*', '# ')):
            continue
        for m in re.finditer(r'self\.([a-z_][a-z0-9_]*)\b(?!\()', l):
            f = m.group(1)
            alts = sib.get(f)
            if alts:
                g = alts[(i + len(f)) % len(alts)]
                out.append((i, l[:m.start(1)] + g + l[m.end(1):], 'field-swap:%s->%s' % (f, g)))
                break
        m = re.search(r'\(([a-z_][\w\.]*), ([a-z_][\w\.]*)\)', l)
        if m and m.group(1) != m.group(2) and not st.startswith(('fn ', 'pub fn', 'let (', 'for (', 'Some((', 'Ok((')) and '|' not in l:
            out.append((i, l[:m.start()] + '(%s, %s)' % (m.group(2), m.group(1)) + l[m.end():], 'arg-swap'))
    # ---- fourth operator set: a statement executed twice, two adjacent statements exchanged ("exactly once", "in order")
    def simple_stmt(l):
        st = l.strip()
        return (st.endswith(';') and not st.startswith(('let ', 'pub ', 'const ', 'static ', 'type ', 'fn ', 'return', 'break', 'continue', '}', ')', ']', '//', '.', 'use '))
                and st.count('(') == st.count(')') and st.count('{') == st.count('}') and l.startswith('\t\t'))
    for i, l in enumerate(lines):
        if re.match(r'^(pub )?mod tests? \{', l.strip()):
            break
        if simple_stmt(l):
            out.append((i, l + '\n' + l, 'dup-stmt'))
            if i + 1 < len(lines) and simple_stmt(lines[i + 1]) and lines[i + 1] != l and \
                    (len(l) - len(l.lstrip())) == (len(lines[i + 1]) - len(lines[i + 1].lstrip())):
                out.append(((i, i + 1), lines[i + 1] + '\n' + l, 'swap-adjacent'))
    # dedupe no-ops
    return [(i, n, op) for i, n, op in out if n is None or isinstance(i, tuple) or n != lines[i]]


_SIB = None


def sibling_fields():
    """{field name: [other field names of the same struct with the same type]} over kira's structs (from the facts)."""
    global _SIB
    if _SIB is None:
        _SIB = {}
        try:
            sys.path.insert(0, VERIF)
            from kvlib.core import build_facts
            j = json.load(open(build_facts('default')))
            for a in j['adts']:
                if a['kind'] != 'Struct' or not a.get('file', '').startswith('crates/kira/'):
                    continue
                fs = a['variants'][0]['fields']
                for f in fs:
                    alts = [g['name'] for g in fs if g['name'] != f['name'] and g['ty'] == f['ty'] and not g['name'].isdigit()]
                    if alts and not f['name'].isdigit():
                        _SIB.setdefault(f['name'], [])
                        for x in alts:
                            if x not in _SIB[f['name']]:
                                _SIB[f['name']].append(x)
        except Exception as e:
            print('sibling_fields failed:', e)
    return _SIB


def sh(cmd, cwd, env, timeout):
    try:
        r = subprocess.run(cmd, cwd=cwd, env=env, shell=True, stdout=subprocess.PIPE, stderr=subprocess.STDOUT, text=True, timeout=timeout)
        return r.returncode, r.stdout
    except subprocess.TimeoutExpired:
        return 124, 'timeout'


class Worker:
    def __init__(self, n):
        self.n = n
        self.dir = '/tmp/mut-w%d' % n
        if not os.path.isdir(self.dir):
            os.makedirs(self.dir)
            for item in ('crates', 'Cargo.toml', 'Cargo.lock'):
                s = os.path.join('/repo', item)
                d = os.path.join(self.dir, item)
                if os.path.isdir(s):
                    shutil.copytree(s, d, ignore=shutil.ignore_patterns('target'))
                else:
                    shutil.copy(s, d)
        self.env = dict(os.environ, CARGO_NET_OFFLINE='true', CARGO_TARGET_DIR=os.path.join(self.dir, 'target'), RUST_BACKTRACE='0')

    def run(self, mu):
        f = os.path.join(self.dir, SRC, mu['file'])
        orig = open(os.path.join('/repo', SRC, mu['file'])).read()
        lines = orig.split('\n')
        lines[mu['line']] = mu['new']
        for k in range(mu['line'] + 1, mu.get('end', mu['line']) + 1):
            lines[k] = '// (deleted)'
        res = dict(mu)
        try:
            open(f, 'w').write('\n'.join(lines))
            rc, o = sh('cargo build --offline -p kira 2>&1 | tail -3', self.dir, self.env, 600)
            if 'Finished' not in o:
                res['status'] = 'no-compile'
                return res
            rc, o = sh('timeout 240 cargo test --offline -p kira --lib 2>&1 | grep -E "test result|panicked|FAILED" | head -5', self.dir, self.env, 900)
            if 'test result: ok' not in o:
                res['status'] = 'killed-by-tests'
                return res
            # survivor: run the checks on this tree
            ev = tempfile.mkdtemp(prefix='mutev-')
            env = dict(os.environ, KV_REPO=self.dir, KV_EVIDENCE=ev, KV_NO_SELFTEST='1', KV_KEEP_FACTS='1',
                       KV_TARGET=os.path.join(VERIF, '.cache', 'target-scratch-%d' % self.n))
            caught = {}
            for p in PROPS:
                r = subprocess.run([os.path.join(VERIF, 'kv'), 'check', p], env=env, stdout=subprocess.PIPE, stderr=subprocess.STDOUT, text=True)
                if r.returncode == 1:
                    caught[p] = [l.split('key=')[1].strip() for l in r.stdout.splitlines() if l.strip().startswith('rule=')][:3]
                elif r.returncode != 0:
                    caught[p] = ['CRASH: ' + r.stdout[-200:]]
            shutil.rmtree(ev, ignore_errors=True)
            for x in os.listdir(self.dir):
                if x.startswith('.kvfacts-'):
                    os.remove(os.path.join(self.dir, x))
            res['status'] = 'caught' if caught else 'SURVIVED-UNCAUGHT'
            res['caught'] = caught
            return res
        finally:
            open(f, 'w').write(orig)


def main():
    a = sys.argv[1:]
    def opt(name, default=None):
        if name in a:
            return a[a.index(name) + 1]
        return default
    files = opt('--files').split(',')
    mx = int(opt('--max', '100000'))
    nw = int(opt('--workers', '8'))
    out = opt('--out', '/tmp/mut.jsonl')
    random.seed(int(opt('--seed', '1')))
    ops = opt('--ops').split(',') if opt('--ops') else None
    mus = []
    for fn in files:
        text = open(os.path.join('/repo', SRC, fn)).read()
        for i, new, op in candidates(fn, text):
            if ops and not any(op.startswith(o) for o in ops):
                continue
            if isinstance(i, tuple):
                ls = text.split('\n')
                mus.append({'file': fn, 'line': i[0], 'end': i[1], 'old': ls[i[0]],
                            'new': new if new is not None else ls[i[0]][:len(ls[i[0]]) - len(ls[i[0]].lstrip())] + '// (deleted statement)', 'op': op})
            else:
                mus.append({'file': fn, 'line': i, 'old': text.split('\n')[i], 'new': new, 'op': op})
    random.shuffle(mus)
    mus = mus[:mx]
    print('%d mutants' % len(mus), flush=True)
    import queue
    q = queue.Queue()
    for i in range(nw):
        q.put(Worker(i))

    def work(mu):
        w = q.get()
        try:
            return w.run(mu)
        finally:
            q.put(w)
    stats = {}
    with open(out, 'a') as fo, concurrent.futures.ThreadPoolExecutor(max_workers=nw) as ex:
        for r in ex.map(work, mus):
            stats[r['status']] = stats.get(r['status'], 0) + 1
            fo.write(json.dumps(r) + '\n')
            fo.flush()
            if r['status'] in ('SURVIVED-UNCAUGHT',):
                print('UNCAUGHT %s:%d [%s] %s  ->  %s' % (r['file'], r['line'] + 1, r['op'], r['old'].strip()[:70], r['new'].strip()[:70]), flush=True)
    print(stats)


if __name__ == '__main__':
    main()
