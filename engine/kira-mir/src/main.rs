//! kira-mir: a rustc_private driver that exports, for the crate being compiled,
//!   * ADT / impl / trait tables,
//!   * per-body MIR facts (polymorphic, mir-opt-level=0),
//!   * a monomorphic call graph (instances + resolved edges, with virtual
//!     fan-out and drop glue) from a configurable set of roots.
//! It decides nothing: all rules live in /verif/kvlib (Python) and are
//! evaluated over the exported facts.
//!
//! Invocation: as RUSTC_WORKSPACE_WRAPPER (argv[1] = real rustc, dropped).
//! Environment:
//!   KIRA_FACTS_OUT   path of the JSON file to write (one write per process)
//!   KIRA_FACTS_CRATE crate name to analyse (default "kira")
//!   KIRA_ROOTS       path of a roots file; one spec per line:
//!                      fn <def_path_str>                exact path of a non-generic fn
//!                      closure-arg <caller path> | <callee path substring> | <arg index>
//!                      prefix <def path prefix>         every non-generic fn under the prefix
//!   KIRA_NONCE       copied into the output
#![feature(rustc_private)]
#![allow(unused)]

extern crate rustc_abi;
extern crate rustc_data_structures;
extern crate rustc_driver;
extern crate rustc_hir;
extern crate rustc_index;
extern crate rustc_interface;
extern crate rustc_middle;
extern crate rustc_session;
extern crate rustc_span;

mod json;
use json::J;

use rustc_hir::def::DefKind;
use rustc_hir::def_id::{DefId, LOCAL_CRATE};
use rustc_middle::mir::{
    self, BasicBlock, Body, Local, Operand, Place, PlaceElem, Rvalue, StatementKind,
    TerminatorKind,
};
use rustc_middle::ty::{self, GenericArgsRef, Instance, InstanceKind, Ty, TyCtxt, TypingEnv, TypeVisitableExt};
use rustc_span::Span;
use std::collections::{HashMap, HashSet, VecDeque};

struct Cb;

impl rustc_driver::Callbacks for Cb {
    fn after_analysis<'tcx>(
        &mut self,
        _compiler: &rustc_interface::interface::Compiler,
        tcx: TyCtxt<'tcx>,
    ) -> rustc_driver::Compilation {
        let want = std::env::var("KIRA_FACTS_CRATE").unwrap_or_else(|_| "kira".to_string());
        let name = tcx.crate_name(LOCAL_CRATE).to_string();
        if name == want {
            if let Ok(out) = std::env::var("KIRA_FACTS_OUT") {
                rustc_middle::ty::print::with_no_trimmed_paths!({
                    let mut cx = Cx::new(tcx);
                    cx.run();
                    cx.write(&out);
                });
            }
        }
        rustc_driver::Compilation::Continue
    }
}

fn main() {
    let mut args: Vec<String> = std::env::args().collect();
    // RUSTC_WORKSPACE_WRAPPER passes the real rustc as argv[1]
    if args.len() > 1 && (args[1].ends_with("rustc") || args[1].contains("/rustc")) {
        args.remove(1);
    }
    // overflow checks for the analysed crate only (dependencies keep release semantics)
    if std::env::var("KIRA_OVERFLOW").as_deref() == Ok("1") {
        let want = std::env::var("KIRA_FACTS_CRATE").unwrap_or_else(|_| "kira".to_string());
        let is_target = args.windows(2).any(|w| w[0] == "--crate-name" && w[1] == want);
        if is_target {
            args.push("-Coverflow-checks=on".to_string());
        }
    }
    rustc_driver::run_compiler(&args, &mut Cb);
}

struct Cx<'tcx> {
    tcx: TyCtxt<'tcx>,
    bodies: Vec<J>,
    body_ids: HashMap<String, usize>,
    instances: Vec<J>,
    inst_ids: HashMap<Instance<'tcx>, usize>,
    inst_list: Vec<Instance<'tcx>>,
    edges: Vec<J>,
    roots: Vec<J>,
    adts: Vec<J>,
    impls: Vec<J>,
    traits: Vec<J>,
    fns: Vec<J>,
    consts: Vec<J>,
    notes: Vec<J>,
}

fn span_file_line(tcx: TyCtxt<'_>, span: Span) -> (String, usize, bool) {
    let exp = span.from_expansion();
    let sp = if exp { span.source_callsite() } else { span };
    let sm = tcx.sess.source_map();
    let loc = sm.lookup_char_pos(sp.lo());
    let fname = format!("{}", loc.file.name.prefer_local_unconditionally());
    (fname, loc.line, exp)
}

impl<'tcx> Cx<'tcx> {
    fn new(tcx: TyCtxt<'tcx>) -> Self {
        Cx {
            tcx,
            bodies: vec![],
            body_ids: HashMap::new(),
            instances: vec![],
            inst_ids: HashMap::new(),
            inst_list: vec![],
            edges: vec![],
            roots: vec![],
            adts: vec![],
            impls: vec![],
            traits: vec![],
            fns: vec![],
            consts: vec![],
            notes: vec![],
        }
    }

    fn write(&self, out: &str) {
        let top = J::Obj(vec![
            ("nonce", J::s(std::env::var("KIRA_NONCE").unwrap_or_default())),
            ("crate", J::s(self.tcx.crate_name(LOCAL_CRATE).to_string())),
            ("overflow_checks", J::Bool(self.tcx.sess.overflow_checks())),
            ("adts", J::Arr(self.adts.clone())),
            ("impls", J::Arr(self.impls.clone())),
            ("traits", J::Arr(self.traits.clone())),
            ("fns", J::Arr(self.fns.clone())),
            ("consts", J::Arr(self.consts.clone())),
            ("bodies", J::Arr(self.bodies.clone())),
            ("instances", J::Arr(self.instances.clone())),
            ("edges", J::Arr(self.edges.clone())),
            ("roots", J::Arr(self.roots.clone())),
            ("notes", J::Arr(self.notes.clone())),
        ]);
        let mut s = String::with_capacity(64 << 20);
        top.write(&mut s);
        let tmp = format!("{}.tmp", out);
        std::fs::write(&tmp, s).expect("write facts");
        std::fs::rename(&tmp, out).expect("rename facts");
    }

    fn path(&self, d: DefId) -> String {
        self.tcx.def_path_str(d)
    }

    fn defid_key(&self, d: DefId) -> String {
        format!("{}:{}", self.tcx.crate_name(d.krate), d.index.as_u32())
    }

    fn run(&mut self) {
        self.dump_items();
        self.dump_local_bodies();
        self.dump_consts();
        self.walk_roots();
    }

    // ---------------------------------------------------------------- items

    fn dump_items(&mut self) {
        let tcx = self.tcx;
        let defs: Vec<_> = tcx.hir_crate_items(()).definitions().collect();
        for ld in defs {
            let d = ld.to_def_id();
            let kind = tcx.def_kind(d);
            let (file, line, _) = span_file_line(tcx, tcx.def_span(d));
            match kind {
                DefKind::Struct | DefKind::Enum | DefKind::Union => {
                    let adt = tcx.adt_def(d);
                    let mut variants = vec![];
                    for (vi, v) in adt.variants().iter_enumerated() {
                        let discr = if adt.is_enum() {
                            J::s(format!("{}", adt.discriminant_for_variant(tcx, vi).val))
                        } else {
                            J::Null
                        };
                        let mut fields = vec![];
                        for f in v.fields.iter() {
                            let fty = tcx.type_of(f.did).instantiate_identity().skip_norm_wip();
                            fields.push(J::Obj(vec![
                                ("name", J::s(f.name.to_string())),
                                ("ty", J::s(format!("{}", fty))),
                                ("pub", J::Bool(f.vis.is_public())),
                            ]));
                        }
                        variants.push(J::Obj(vec![
                            ("name", J::s(v.name.to_string())),
                            ("discr", discr),
                            ("fields", J::Arr(fields)),
                        ]));
                    }
                    self.adts.push(J::Obj(vec![
                        ("path", J::s(self.path(d))),
                        ("kind", J::s(format!("{:?}", kind))),
                        ("file", J::s(file)),
                        ("line", J::i(line)),
                        ("variants", J::Arr(variants)),
                    ]));
                }
                DefKind::Impl { .. } => {
                    let self_ty = tcx.type_of(d).instantiate_identity().skip_norm_wip();
                    let (tr, tr_args) = match tcx.impl_opt_trait_ref(d) {
                        Some(tref) => {
                            let tref = tref.instantiate_identity().skip_norm_wip();
                            (J::s(self.path(tref.def_id)), J::s(format!("{}", tref)))
                        }
                        None => (J::Null, J::Null),
                    };
                    let mut items = vec![];
                    for it in tcx.associated_items(d).in_definition_order() {
                        items.push(J::Obj(vec![
                            ("name", J::s(it.name().to_string())),
                            ("path", J::s(self.path(it.def_id))),
                            ("id", J::s(self.defid_key(it.def_id))),
                            ("kind", J::s(format!("{:?}", tcx.def_kind(it.def_id)))),
                        ]));
                    }
                    self.impls.push(J::Obj(vec![
                        ("self_ty", J::s(format!("{}", self_ty))),
                        ("trait", tr),
                        ("trait_ref", tr_args),
                        ("items", J::Arr(items)),
                        ("file", J::s(file)),
                        ("line", J::i(line)),
                    ]));
                }
                DefKind::Trait => {
                    let mut items = vec![];
                    for it in tcx.associated_items(d).in_definition_order() {
                        items.push(J::Obj(vec![
                            ("name", J::s(it.name().to_string())),
                            ("path", J::s(self.path(it.def_id))),
                            ("default", J::Bool(it.defaultness(tcx).has_value())),
                            ("kind", J::s(format!("{:?}", tcx.def_kind(it.def_id)))),
                        ]));
                    }
                    self.traits.push(J::Obj(vec![
                        ("path", J::s(self.path(d))),
                        ("items", J::Arr(items)),
                        ("file", J::s(file)),
                        ("line", J::i(line)),
                    ]));
                }
                DefKind::Fn | DefKind::AssocFn => {
                    let vis = tcx.visibility(d);
                    let g = tcx.generics_of(d);
                    let ntypes = count_type_params(tcx, d);
                    let parent = tcx.parent(d);
                    let pk = tcx.def_kind(parent);
                    let (impl_self, impl_trait) = if matches!(pk, DefKind::Impl { .. }) {
                        let st = tcx.type_of(parent).instantiate_identity().skip_norm_wip();
                        let tr = tcx
                            .impl_opt_trait_ref(parent)
                            .map(|t| self.path(t.instantiate_identity().skip_norm_wip().def_id));
                        (J::s(format!("{}", st)), J::opt_s(tr))
                    } else {
                        (J::Null, J::Null)
                    };
                    let sig = tcx.fn_sig(d).instantiate_identity().skip_norm_wip();
                    self.fns.push(J::Obj(vec![
                        ("path", J::s(self.path(d))),
                        ("id", J::s(self.defid_key(d))),
                        ("name", J::s(tcx.item_name(d).to_string())),
                        ("pub", J::Bool(vis.is_public())),
                        ("type_params", J::i(ntypes)),
                        ("impl_self", impl_self),
                        ("impl_trait", impl_trait),
                        ("sig", J::s(format!("{}", sig))),
                        ("file", J::s(file)),
                        ("line", J::i(line)),
                    ]));
                }
                _ => {}
            }
        }
    }

    fn dump_local_bodies(&mut self) {
        let tcx = self.tcx;
        let owners: Vec<_> = tcx.hir_body_owners().collect();
        for ld in owners {
            let d = ld.to_def_id();
            match tcx.def_kind(d) {
                DefKind::Fn | DefKind::AssocFn | DefKind::Closure => {}
                _ => continue,
            }
            if !tcx.is_mir_available(d) {
                continue;
            }
            let key = format!("D:{}", self.defid_key(d));
            if self.body_ids.contains_key(&key) {
                continue;
            }
            let body = tcx.optimized_mir(d);
            let j = self.dump_body(body, d, &key, None);
            self.body_ids.insert(key, self.bodies.len());
            self.bodies.push(j);
        }
    }

    /// Named constants of the crate with the statements of their initialiser (so that `Self::IDENTITY` and the literal
    /// `Decibels(0.0)` it stands for can be recognised as the same value).
    fn dump_consts(&mut self) {
        let tcx = self.tcx;
        let owners: Vec<_> = tcx.hir_body_owners().collect();
        for ld in owners {
            let d = ld.to_def_id();
            match tcx.def_kind(d) {
                DefKind::Const { .. } | DefKind::AssocConst { .. } => {}
                _ => continue,
            }
            let body = tcx.mir_for_ctfe(d);
            let mut parts: Vec<String> = vec![];
            let mut simple = body.basic_blocks.len() == 1;
            for data in body.basic_blocks.iter() {
                for st in data.statements.iter() {
                    if let StatementKind::Assign(b) = &st.kind {
                        parts.push(format!("{:?} = {:?}", b.0, b.1));
                    }
                }
                if !matches!(data.terminator().kind, TerminatorKind::Return) {
                    simple = false;
                }
            }
            self.consts.push(J::Obj(vec![
                ("path", J::s(self.path(d))),
                ("ty", J::s(self.ty_s(tcx.type_of(d).instantiate_identity().skip_norm_wip()))),
                ("simple", J::Bool(simple)),
                ("text", J::s(parts.join("; "))),
            ]));
        }
    }

    // ---------------------------------------------------------------- bodies

    fn ty_s(&self, t: Ty<'tcx>) -> String {
        format!("{}", t)
    }

    fn field_name(&self, pty: mir::PlaceTy<'tcx>, f: rustc_abi::FieldIdx) -> String {
        match pty.ty.kind() {
            ty::Adt(def, _) => {
                let vi = pty.variant_index.unwrap_or(rustc_abi::FIRST_VARIANT);
                if def.is_union() || vi.as_usize() < def.variants().len() {
                    let v = def.variant(vi);
                    if f.as_usize() < v.fields.len() {
                        return v.fields[f].name.to_string();
                    }
                }
                format!("{}", f.as_usize())
            }
            ty::Closure(def_id, _) => {
                if let Some(ld) = def_id.as_local() {
                    let caps = self.tcx.closure_captures(ld);
                    if f.as_usize() < caps.len() {
                        return format!("^{}", caps[f.as_usize()].to_symbol());
                    }
                }
                format!("^{}", f.as_usize())
            }
            _ => format!("{}", f.as_usize()),
        }
    }

    fn place_j(&self, body: &Body<'tcx>, p: &Place<'tcx>) -> J {
        let tcx = self.tcx;
        let mut pty = mir::PlaceTy::from_ty(body.local_decls[p.local].ty);
        let mut s = format!("_{}", p.local.as_usize());
        let mut proj = vec![];
        for elem in p.projection.iter() {
            match elem {
                PlaceElem::Deref => {
                    s = format!("(*{})", s);
                    proj.push(J::Arr(vec![J::s("deref")]));
                }
                PlaceElem::Field(f, _) => {
                    let n = self.field_name(pty, f);
                    s = format!("{}.{}", s, n);
                    let base = match pty.ty.kind() {
                        ty::Adt(def, _) => J::s(self.path(def.did())),
                        _ => J::Null,
                    };
                    proj.push(J::Arr(vec![J::s("field"), J::i(f.as_usize()), J::s(n), base]));
                }
                PlaceElem::Index(l) => {
                    s = format!("{}[_{}]", s, l.as_usize());
                    proj.push(J::Arr(vec![J::s("index"), J::i(l.as_usize())]));
                }
                PlaceElem::ConstantIndex { offset, min_length, from_end } => {
                    s = format!("{}[{}{}]", s, if from_end { "-" } else { "c" }, offset);
                    proj.push(J::Arr(vec![
                        J::s("cidx"),
                        J::i(offset),
                        J::Bool(from_end),
                        J::i(min_length),
                    ]));
                }
                PlaceElem::Subslice { from, to, from_end } => {
                    s = format!("{}[{}..{}{}]", s, from, if from_end { "-" } else { "" }, to);
                    proj.push(J::Arr(vec![
                        J::s("subslice"),
                        J::i(from),
                        J::i(to),
                        J::Bool(from_end),
                    ]));
                }
                PlaceElem::Downcast(name, vi) => {
                    let n = match name {
                        Some(n) => n.to_string(),
                        None => format!("{}", vi.as_usize()),
                    };
                    s = format!("({} as {})", s, n);
                    proj.push(J::Arr(vec![J::s("downcast"), J::s(n), J::i(vi.as_usize())]));
                }
                _ => {
                    s = format!("{}.<?>", s);
                    proj.push(J::Arr(vec![J::s("other")]));
                }
            }
            pty = pty.projection_ty(tcx, elem);
        }
        J::Obj(vec![
            ("l", J::i(p.local.as_usize())),
            ("p", J::Arr(proj)),
            ("ty", J::s(self.ty_s(pty.ty))),
            ("s", J::s(s)),
        ])
    }

    fn const_j(&self, body_def: DefId, c: &mir::ConstOperand<'tcx>) -> J {
        let tcx = self.tcx;
        let ty = c.const_.ty();
        let mut v = vec![
            ("c", J::Bool(true)),
            ("ty", J::s(self.ty_s(ty))),
            ("text", J::s(format!("{}", c.const_))),
        ];
        if let mir::Const::Unevaluated(uv, _) = c.const_ {
            v.push(("def", J::s(self.path(uv.def))));
            if let Some(pi) = uv.promoted {
                v.push(("promoted", J::Bool(true)));
                // render the promoted body's statements so that rules can see what `&CONST` refers to
                if uv.def.is_local() || tcx.is_mir_available(uv.def) {
                    let proms = tcx.promoted_mir(uv.def);
                    if pi.as_usize() < proms.len() {
                        let pb = &proms[pi];
                        let mut parts: Vec<String> = vec![];
                        for data in pb.basic_blocks.iter() {
                            for st in data.statements.iter() {
                                if let StatementKind::Assign(b) = &st.kind {
                                    parts.push(format!("{:?} = {:?}", b.0, b.1));
                                }
                            }
                        }
                        v.push(("ptext", J::s(parts.join("; "))));
                    }
                }
            }
        }
        if let ty::FnDef(d, _) = ty.kind() {
            v.push(("fn", J::s(self.path(*d))));
        }
        let is_scalar = ty.is_integral() || ty.is_floating_point() || ty.is_bool() || ty.is_char();
        if is_scalar {
            let env = TypingEnv::post_analysis(tcx, body_def);
            if let Some(si) = c.const_.try_eval_scalar_int(tcx, env) {
                let size = si.size();
                v.push(("bits", J::s(format!("{}", si.to_bits(size)))));
                v.push(("size", J::i(size.bytes())));
            }
        }
        J::Obj(v)
    }

    fn op_j(&self, body: &Body<'tcx>, body_def: DefId, op: &Operand<'tcx>) -> J {
        match op {
            Operand::Copy(p) => J::Obj(vec![("k", J::s("copy")), ("pl", self.place_j(body, p))]),
            Operand::Move(p) => J::Obj(vec![("k", J::s("move")), ("pl", self.place_j(body, p))]),
            Operand::Constant(c) => self.const_j(body_def, c),
            #[allow(unreachable_patterns)]
            other => J::Obj(vec![("k", J::s("otherop")), ("s", J::s(format!("{:?}", other)))]),
        }
    }

    fn rvalue_j(&self, body: &Body<'tcx>, body_def: DefId, rv: &Rvalue<'tcx>) -> J {
        let tcx = self.tcx;
        match rv {
            Rvalue::Use(op, ..) => J::Obj(vec![("k", J::s("use")), ("op", self.op_j(body, body_def, op))]),
            Rvalue::Repeat(op, n) => J::Obj(vec![
                ("k", J::s("repeat")),
                ("op", self.op_j(body, body_def, op)),
                ("n", J::s(format!("{}", n))),
            ]),
            Rvalue::Ref(_, bk, p) => J::Obj(vec![
                ("k", J::s("ref")),
                (
                    "bk",
                    J::s(match bk {
                        mir::BorrowKind::Shared => "shared",
                        mir::BorrowKind::Mut { .. } => "mut",
                        _ => "fake",
                    }),
                ),
                ("pl", self.place_j(body, p)),
            ]),
            Rvalue::RawPtr(_, p) => J::Obj(vec![("k", J::s("rawptr")), ("pl", self.place_j(body, p))]),
            Rvalue::Cast(ck, op, ty) => J::Obj(vec![
                ("k", J::s("cast")),
                ("ck", J::s(format!("{:?}", ck))),
                ("op", self.op_j(body, body_def, op)),
                ("ty", J::s(self.ty_s(*ty))),
            ]),
            Rvalue::BinaryOp(bop, ab) => J::Obj(vec![
                ("k", J::s("bin")),
                ("op", J::s(format!("{:?}", bop))),
                ("a", self.op_j(body, body_def, &ab.0)),
                ("b", self.op_j(body, body_def, &ab.1)),
            ]),
            Rvalue::UnaryOp(uop, a) => J::Obj(vec![
                ("k", J::s("un")),
                ("op", J::s(format!("{:?}", uop))),
                ("a", self.op_j(body, body_def, a)),
            ]),
            Rvalue::Discriminant(p) => {
                let pty = p.ty(body, tcx).ty;
                let mut vars = vec![];
                let mut en = J::Null;
                if let ty::Adt(def, _) = pty.kind() {
                    en = J::s(self.path(def.did()));
                    if def.is_enum() {
                        for (vi, v) in def.variants().iter_enumerated() {
                            let dv = def.discriminant_for_variant(tcx, vi).val;
                            vars.push(J::Arr(vec![J::s(format!("{}", dv)), J::s(v.name.to_string())]));
                        }
                    }
                }
                J::Obj(vec![
                    ("k", J::s("discr")),
                    ("pl", self.place_j(body, p)),
                    ("enum", en),
                    ("variants", J::Arr(vars)),
                ])
            }
            Rvalue::Aggregate(ak, ops) => {
                let mut v = vec![("k", J::s("agg"))];
                match &**ak {
                    mir::AggregateKind::Adt(did, vi, _, _, _) => {
                        let def = tcx.adt_def(*did);
                        let var = def.variant(*vi);
                        v.push(("ak", J::s("adt")));
                        v.push(("adt", J::s(self.path(*did))));
                        v.push(("variant", J::s(var.name.to_string())));
                        v.push((
                            "fields",
                            J::Arr(var.fields.iter().map(|f| J::s(f.name.to_string())).collect()),
                        ));
                    }
                    mir::AggregateKind::Tuple => v.push(("ak", J::s("tuple"))),
                    mir::AggregateKind::Array(_) => v.push(("ak", J::s("array"))),
                    mir::AggregateKind::Closure(did, _) => {
                        v.push(("ak", J::s("closure")));
                        v.push(("closure", J::s(self.path(*did))));
                        v.push(("closure_id", J::s(self.defid_key(*did))));
                    }
                    other => v.push(("ak", J::s(format!("{:?}", other)))),
                }
                v.push((
                    "ops",
                    J::Arr(ops.iter().map(|o| self.op_j(body, body_def, o)).collect()),
                ));
                J::Obj(v)
            }
            Rvalue::CopyForDeref(p) => {
                J::Obj(vec![("k", J::s("use")), ("op", J::Obj(vec![("k", J::s("copy")), ("pl", self.place_j(body, p))]))])
            }
            other => J::Obj(vec![("k", J::s("other")), ("s", J::s(format!("{:?}", other)))]),
        }
    }

    fn callee_j(&self, body: &Body<'tcx>, body_def: DefId, func: &Operand<'tcx>) -> J {
        let tcx = self.tcx;
        let fty = func.ty(body, tcx);
        match fty.kind() {
            ty::FnDef(d, args) => {
                let mut v = vec![
                    ("path", J::s(self.path(*d))),
                    ("id", J::s(self.defid_key(*d))),
                    ("krate", J::s(tcx.crate_name(d.krate).to_string())),
                    ("name", J::s(tcx.item_name(*d).to_string())),
                    (
                        "args",
                        J::Arr(args.iter().map(|a| J::s(format!("{}", a))).collect()),
                    ),
                ];
                if let Some(tr) = tcx.trait_of_assoc(*d) {
                    v.push(("trait", J::s(self.path(tr))));
                }
                if fn_diverges(tcx, *d) {
                    v.push(("never", J::Bool(true)));
                }
                if let Some(imp) = tcx.impl_of_assoc(*d) {
                    let st = tcx.type_of(imp).instantiate_identity().skip_norm_wip();
                    v.push(("impl_self", J::s(self.ty_s(st))));
                }
                let env = TypingEnv::post_analysis(tcx, body_def);
                if let Ok(Some(inst)) = Instance::try_resolve(tcx, env, *d, args) {
                    v.push(("resolved", J::s(self.path(inst.def_id()))));
                    v.push(("resolved_id", J::s(self.defid_key(inst.def_id()))));
                    v.push(("resolved_kind", J::s(inst_kind_name(&inst.def))));
                }
                J::Obj(v)
            }
            _ => J::Obj(vec![
                ("indirect", J::Bool(true)),
                ("ty", J::s(self.ty_s(fty))),
                ("op", self.op_j(body, body_def, func)),
            ]),
        }
    }

    fn dump_body(&self, body: &Body<'tcx>, d: DefId, key: &str, shim: Option<String>) -> J {
        let tcx = self.tcx;
        let (file, line, _) = span_file_line(tcx, body.span);
        let mut locals = vec![];
        for (l, decl) in body.local_decls.iter_enumerated() {
            locals.push(J::Obj(vec![
                ("ty", J::s(self.ty_s(decl.ty))),
            ]));
        }
        let mut debug = vec![];
        for vdi in body.var_debug_info.iter() {
            let val = match &vdi.value {
                mir::VarDebugInfoContents::Place(p) => self.place_j(body, p),
                mir::VarDebugInfoContents::Const(c) => self.const_j(d, c),
            };
            debug.push(J::Obj(vec![("name", J::s(vdi.name.to_string())), ("v", val)]));
        }
        let mut blocks = vec![];
        let live = live_blocks(tcx, body, None, d);
        for (bb, data) in body.basic_blocks.iter_enumerated() {
            let mut stmts = vec![];
            for st in data.statements.iter() {
                let (_, sline, sexp) = span_file_line(tcx, st.source_info.span);
                match &st.kind {
                    StatementKind::Assign(b) => {
                        let (pl, rv) = &**b;
                        stmts.push(J::Obj(vec![
                            ("k", J::s("assign")),
                            ("lhs", self.place_j(body, pl)),
                            ("rv", self.rvalue_j(body, d, rv)),
                            ("line", J::i(sline)),
                            ("exp", J::Bool(sexp)),
                        ]));
                    }
                    StatementKind::SetDiscriminant { place, variant_index } => {
                        stmts.push(J::Obj(vec![
                            ("k", J::s("setdiscr")),
                            ("lhs", self.place_j(body, place)),
                            ("variant", J::i(variant_index.as_usize())),
                            ("line", J::i(sline)),
                        ]));
                    }
                    StatementKind::Intrinsic(i) => {
                        stmts.push(J::Obj(vec![
                            ("k", J::s("intrinsic")),
                            ("s", J::s(format!("{:?}", i))),
                            ("line", J::i(sline)),
                        ]));
                    }
                    _ => {}
                }
            }
            let term = data.terminator();
            let (tfile, tline, texp) = span_file_line(tcx, term.source_info.span);
            let mut t: Vec<(&'static str, J)> = vec![("line", J::i(tline)), ("exp", J::Bool(texp))];
            if tfile != file {
                t.push(("file", J::s(tfile)));
            }
            match &term.kind {
                TerminatorKind::Goto { target } => {
                    t.push(("k", J::s("goto")));
                    t.push(("t", J::i(target.as_usize())));
                }
                TerminatorKind::SwitchInt { discr, targets } => {
                    t.push(("k", J::s("switch")));
                    t.push(("op", self.op_j(body, d, discr)));
                    t.push(("opty", J::s(self.ty_s(discr.ty(body, tcx)))));
                    let mut ts = vec![];
                    for (val, bb) in targets.iter() {
                        ts.push(J::Arr(vec![J::s(format!("{}", val)), J::i(bb.as_usize())]));
                    }
                    t.push(("targets", J::Arr(ts)));
                    t.push(("otherwise", J::i(targets.otherwise().as_usize())));
                }
                TerminatorKind::Return => t.push(("k", J::s("return"))),
                TerminatorKind::Unreachable => t.push(("k", J::s("unreachable"))),
                TerminatorKind::UnwindResume => t.push(("k", J::s("resume"))),
                TerminatorKind::UnwindTerminate(_) => t.push(("k", J::s("terminate"))),
                TerminatorKind::Drop { place, target, .. } => {
                    t.push(("k", J::s("drop")));
                    t.push(("pl", self.place_j(body, place)));
                    t.push(("t", J::i(target.as_usize())));
                }
                TerminatorKind::Call { func, args, destination, target, fn_span, .. } => {
                    t.push(("k", J::s("call")));
                    t.push(("callee", self.callee_j(body, d, func)));
                    t.push((
                        "args",
                        J::Arr(args.iter().map(|a| self.op_j(body, d, &a.node)).collect()),
                    ));
                    t.push(("dest", self.place_j(body, destination)));
                    t.push((
                        "t",
                        match target {
                            Some(b) => J::i(b.as_usize()),
                            None => J::Null,
                        },
                    ));
                }
                TerminatorKind::TailCall { func, args, .. } => {
                    t.push(("k", J::s("tailcall")));
                    t.push(("callee", self.callee_j(body, d, func)));
                    t.push((
                        "args",
                        J::Arr(args.iter().map(|a| self.op_j(body, d, &a.node)).collect()),
                    ));
                }
                TerminatorKind::Assert { cond, expected, msg, target, .. } => {
                    t.push(("k", J::s("assert")));
                    t.push(("cond", self.op_j(body, d, cond)));
                    t.push(("expected", J::Bool(*expected)));
                    t.push(("t", J::i(target.as_usize())));
                    let (mk, ops): (String, Vec<(&'static str, J)>) = match &**msg {
                        mir::AssertKind::BoundsCheck { len, index } => (
                            "BoundsCheck".into(),
                            vec![("len", self.op_j(body, d, len)), ("index", self.op_j(body, d, index))],
                        ),
                        mir::AssertKind::Overflow(op, a, b) => (
                            format!("Overflow({:?})", op),
                            vec![("a", self.op_j(body, d, a)), ("b", self.op_j(body, d, b))],
                        ),
                        mir::AssertKind::OverflowNeg(a) => {
                            ("OverflowNeg".into(), vec![("a", self.op_j(body, d, a))])
                        }
                        mir::AssertKind::DivisionByZero(a) => {
                            ("DivisionByZero".into(), vec![("a", self.op_j(body, d, a))])
                        }
                        mir::AssertKind::RemainderByZero(a) => {
                            ("RemainderByZero".into(), vec![("a", self.op_j(body, d, a))])
                        }
                        other => (format!("{:?}", other).chars().take(60).collect(), vec![]),
                    };
                    t.push(("msg", J::s(mk)));
                    t.push(("mops", J::Obj(ops)));
                }
                TerminatorKind::InlineAsm { .. } => t.push(("k", J::s("asm"))),
                other => {
                    t.push(("k", J::s("otherterm")));
                    t.push(("s", J::s(format!("{:?}", other).chars().take(80).collect::<String>())));
                }
            }
            let mut succ = vec![];
            for s in term.successors() {
                succ.push(J::i(s.as_usize()));
            }
            // non-unwind successors
            let mut nsucc = vec![];
            for s in term.successors() {
                if !body.basic_blocks[s].is_cleanup {
                    nsucc.push(J::i(s.as_usize()));
                }
            }
            blocks.push(J::Obj(vec![
                ("cleanup", J::Bool(data.is_cleanup)),
                ("dead", J::Bool(!live[bb.as_usize()])),
                ("stmts", J::Arr(stmts)),
                ("term", J::Obj(t)),
                ("succ", J::Arr(nsucc)),
            ]));
        }
        let kind = tcx.def_kind(d);
        J::Obj(vec![
            ("key", J::s(key)),
            ("path", J::s(self.path(d))),
            ("id", J::s(self.defid_key(d))),
            ("krate", J::s(tcx.crate_name(d.krate).to_string())),
            ("local", J::Bool(d.is_local())),
            ("kind", J::s(format!("{:?}", kind))),
            ("shim", J::opt_s(shim)),
            ("file", J::s(file)),
            ("line", J::i(line)),
            ("arg_count", J::i(body.arg_count)),
            ("locals", J::Arr(locals)),
            ("debug", J::Arr(debug)),
            ("blocks", J::Arr(blocks)),
        ])
    }

    // ---------------------------------------------------------------- mono walk

    fn intern(&mut self, inst: Instance<'tcx>, queue: &mut VecDeque<usize>) -> usize {
        if let Some(&i) = self.inst_ids.get(&inst) {
            return i;
        }
        let tcx = self.tcx;
        let idx = self.inst_list.len();
        self.inst_ids.insert(inst, idx);
        self.inst_list.push(inst);
        let d = inst.def_id();
        let kind = inst_kind_name(&inst.def);
        // leaf classification
        let mut leaf: Option<&'static str> = None;
        match inst.def {
            InstanceKind::Item(_) => {
                if matches!(tcx.def_kind(d), DefKind::Ctor(..)) {
                    leaf = Some("ctor");
                } else if tcx.is_foreign_item(d) {
                    leaf = Some("foreign");
                } else if tcx.intrinsic(d).is_some() && !tcx.is_mir_available(d) {
                    leaf = Some("intrinsic");
                } else if !tcx.is_mir_available(d) {
                    leaf = Some("no-mir");
                }
            }
            InstanceKind::Intrinsic(_) => leaf = Some("intrinsic"),
            InstanceKind::Virtual(..) => leaf = Some("virtual"),
            _ => {}
        }
        let (file, line, _) = span_file_line(tcx, tcx.def_span(d));
        self.instances.push(J::Obj(vec![
            ("i", J::i(idx)),
            ("name", J::s(format!("{}", inst))),
            ("path", J::s(self.path(d))),
            ("id", J::s(self.defid_key(d))),
            ("krate", J::s(tcx.crate_name(d.krate).to_string())),
            ("kind", J::s(kind)),
            ("leaf", match leaf {
                Some(s) => J::s(s),
                None => J::Null,
            }),
            ("file", J::s(file)),
            ("line", J::i(line)),
            ("never", J::Bool(matches!(tcx.def_kind(d), DefKind::Fn | DefKind::AssocFn) && fn_diverges(tcx, d))),
            ("body", J::Null), // patched in walk
        ]));
        if leaf.is_none() {
            queue.push_back(idx);
        }
        idx
    }

    fn set_body(&mut self, idx: usize, body_idx: usize) {
        if let J::Obj(v) = &mut self.instances[idx] {
            for (k, x) in v.iter_mut() {
                if *k == "body" {
                    *x = J::i(body_idx);
                }
            }
        }
    }

    fn edge(&mut self, from: usize, bb: usize, kind: &'static str, to: Option<usize>, note: Option<String>) {
        self.edges.push(J::Obj(vec![
            ("from", J::i(from)),
            ("bb", J::i(bb)),
            ("kind", J::s(kind)),
            ("to", match to {
                Some(t) => J::i(t),
                None => J::Null,
            }),
            ("note", J::opt_s(note)),
        ]));
    }

    fn read_roots(&mut self, queue: &mut VecDeque<usize>) {
        let tcx = self.tcx;
        let Ok(path) = std::env::var("KIRA_ROOTS") else { return };
        let Ok(text) = std::fs::read_to_string(&path) else {
            self.notes.push(J::s(format!("roots file unreadable: {}", path)));
            return;
        };
        // index local fns by path
        let mut by_path: HashMap<String, Vec<DefId>> = HashMap::new();
        for ld in tcx.hir_body_owners() {
            let d = ld.to_def_id();
            if matches!(tcx.def_kind(d), DefKind::Fn | DefKind::AssocFn) {
                by_path.entry(self.path(d)).or_default().push(d);
            }
        }
        for line in text.lines() {
            let line = line.trim();
            if line.is_empty() || line.starts_with('#') {
                continue;
            }
            let (group, spec) = match line.split_once(' ') {
                Some((g, s)) => (g.to_string(), s.trim().to_string()),
                None => continue,
            };
            // "<group> fn <path>" | "<group> prefix <path>" | "<group> closure-arg a | b | n"
            let (kind, rest) = match spec.split_once(' ') {
                Some((k, r)) => (k.to_string(), r.trim().to_string()),
                None => continue,
            };
            match kind.as_str() {
                "fn" | "prefix" => {
                    let mut found = 0;
                    let mut cands: Vec<(String, DefId)> = vec![];
                    for (p, ds) in by_path.iter() {
                        let hit = if kind == "fn" { *p == rest } else { p.starts_with(&rest) };
                        if hit {
                            for d in ds {
                                cands.push((p.clone(), *d));
                            }
                        }
                    }
                    cands.sort_by(|a, b| a.0.cmp(&b.0));
                    for (p, d) in cands {
                        if count_type_params(tcx, d) > 0 {
                            self.roots.push(J::Obj(vec![
                                ("group", J::s(group.clone())),
                                ("spec", J::s(spec.clone())),
                                ("path", J::s(p)),
                                ("inst", J::Null),
                                ("skipped", J::s("generic")),
                            ]));
                            continue;
                        }
                        let inst = Instance::mono(tcx, d);
                        let idx = self.intern(inst, queue);
                        found += 1;
                        self.roots.push(J::Obj(vec![
                            ("group", J::s(group.clone())),
                            ("spec", J::s(spec.clone())),
                            ("path", J::s(p)),
                            ("inst", J::i(idx)),
                        ]));
                    }
                    if found == 0 {
                        self.roots.push(J::Obj(vec![
                            ("group", J::s(group.clone())),
                            ("spec", J::s(spec.clone())),
                            ("inst", J::Null),
                            ("skipped", J::s("not-found")),
                        ]));
                    }
                }
                "closure-arg" => {
                    let parts: Vec<&str> = rest.split('|').map(|s| s.trim()).collect();
                    if parts.len() != 3 {
                        continue;
                    }
                    let caller = parts[0];
                    let callee_sub = parts[1];
                    let argi: usize = parts[2].parse().unwrap_or(0);
                    let mut found = 0;
                    if let Some(ds) = by_path.get(caller) {
                        for d in ds.clone() {
                            if count_type_params(tcx, d) > 0 {
                                continue;
                            }
                            let body = tcx.optimized_mir(d);
                            for (bb, data) in body.basic_blocks.iter_enumerated() {
                                if let TerminatorKind::Call { func, args, .. } = &data.terminator().kind {
                                    let fty = func.ty(body, tcx);
                                    if let ty::FnDef(cd, _) = fty.kind() {
                                        if self.path(*cd).contains(callee_sub) && argi < args.len() {
                                            let aty = args[argi].node.ty(body, tcx);
                                            if let ty::Closure(cdid, cargs) = aty.kind() {
                                                let inst = Instance::new_raw(*cdid, cargs);
                                                let idx = self.intern(inst, queue);
                                                found += 1;
                                                self.roots.push(J::Obj(vec![
                                                    ("group", J::s(group.clone())),
                                                    ("spec", J::s(spec.clone())),
                                                    ("path", J::s(self.path(*cdid))),
                                                    ("inst", J::i(idx)),
                                                ]));
                                            }
                                        }
                                    }
                                }
                            }
                        }
                    }
                    if found == 0 {
                        self.roots.push(J::Obj(vec![
                            ("group", J::s(group.clone())),
                            ("spec", J::s(spec.clone())),
                            ("inst", J::Null),
                            ("skipped", J::s("not-found")),
                        ]));
                    }
                }
                _ => {}
            }
        }
    }

    fn walk_roots(&mut self) {
        let tcx = self.tcx;
        let mut queue: VecDeque<usize> = VecDeque::new();
        self.read_roots(&mut queue);
        let env = TypingEnv::fully_monomorphized();
        while let Some(idx) = queue.pop_front() {
            let inst = self.inst_list[idx];
            let d = inst.def_id();
            let body: &Body<'tcx> = tcx.instance_mir(inst.def);
            // body facts
            let key = match inst.def {
                InstanceKind::Item(_) => format!("D:{}", self.defid_key(d)),
                _ => format!("S:{}", inst),
            };
            let bidx = match self.body_ids.get(&key) {
                Some(&b) => b,
                None => {
                    let shim = match inst.def {
                        InstanceKind::Item(_) => None,
                        _ => Some(inst_kind_name(&inst.def).to_string()),
                    };
                    let j = self.dump_body(body, d, &key, shim);
                    let b = self.bodies.len();
                    self.body_ids.insert(key, b);
                    self.bodies.push(j);
                    b
                }
            };
            self.set_body(idx, bidx);
            let ilive = live_blocks(tcx, body, Some(inst), d);
            let dead: Vec<J> = ilive
                .iter()
                .enumerate()
                .filter(|(i, l)| !**l && !body.basic_blocks[BasicBlock::from_usize(*i)].is_cleanup)
                .map(|(i, _)| J::i(i))
                .collect();
            if let J::Obj(v) = &mut self.instances[idx] {
                v.push(("dead", J::Arr(dead)));
            }

            for (bb, data) in body.basic_blocks.iter_enumerated() {
                if data.is_cleanup || !ilive[bb.as_usize()] {
                    continue;
                }
                let bbi = bb.as_usize();
                // reified function pointers
                for st in data.statements.iter() {
                    if let StatementKind::Assign(b) = &st.kind {
                        if let Rvalue::Cast(mir::CastKind::PointerCoercion(pc, _), op, _) = &b.1 {
                            use rustc_middle::ty::adjustment::PointerCoercion as PC;
                            match pc {
                                PC::ReifyFnPointer(_) | PC::ClosureFnPointer(_) => {
                                    let oty = op.ty(body, tcx);
                                    let oty = inst.instantiate_mir_and_normalize_erasing_regions(
                                        tcx,
                                        env,
                                        ty::EarlyBinder::bind(oty),
                                    );
                                    match oty.kind() {
                                        ty::FnDef(fd, fa) => {
                                            match Instance::try_resolve(tcx, env, *fd, fa) {
                                                Ok(Some(ci)) => {
                                                    let t = self.intern(ci, &mut queue);
                                                    self.edge(idx, bbi, "reify", Some(t), None);
                                                }
                                                _ => self.edge(idx, bbi, "unresolved", None, Some(format!("reify {}", oty))),
                                            }
                                        }
                                        ty::Closure(cd, ca) => {
                                            let ci = Instance::resolve_closure(tcx, *cd, ca, ty::ClosureKind::FnOnce);
                                            let t = self.intern(ci, &mut queue);
                                            self.edge(idx, bbi, "reify", Some(t), None);
                                        }
                                        _ => self.edge(idx, bbi, "unresolved", None, Some(format!("reify {}", oty))),
                                    }
                                }
                                _ => {}
                            }
                        }
                    }
                }
                let term = data.terminator();
                match &term.kind {
                    TerminatorKind::Call { func, .. } | TerminatorKind::TailCall { func, .. } => {
                        let fty = func.ty(body, tcx);
                        let fty = inst.instantiate_mir_and_normalize_erasing_regions(
                            tcx,
                            env,
                            ty::EarlyBinder::bind(fty),
                        );
                        match fty.kind() {
                            ty::FnDef(fd, fa) => match Instance::try_resolve(tcx, env, *fd, fa) {
                                Ok(Some(ci)) => self.add_call(idx, bbi, ci, &mut queue),
                                _ => self.edge(idx, bbi, "unresolved", None, Some(format!("{}", fty))),
                            },
                            _ => self.edge(idx, bbi, "indirect", None, Some(format!("{}", fty))),
                        }
                    }
                    TerminatorKind::Drop { place, .. } => {
                        let pty = place.ty(body, tcx).ty;
                        let pty = inst.instantiate_mir_and_normalize_erasing_regions(
                            tcx,
                            env,
                            ty::EarlyBinder::bind(pty),
                        );
                        self.add_drop(idx, bbi, pty, &mut queue);
                    }
                    TerminatorKind::InlineAsm { .. } => {
                        self.edge(idx, bbi, "asm", None, None);
                    }
                    _ => {}
                }
            }
        }
    }

    fn add_call(&mut self, from: usize, bb: usize, ci: Instance<'tcx>, queue: &mut VecDeque<usize>) {
        let tcx = self.tcx;
        match ci.def {
            InstanceKind::Virtual(md, _) => {
                let vt = self.intern(ci, queue);
                self.edge(from, bb, "call", Some(vt), None);
                self.fan_out(vt, md, ci.args, queue);
            }
            _ => {
                let t = self.intern(ci, queue);
                self.edge(from, bb, "call", Some(t), None);
            }
        }
    }

    /// Virtual call on `dyn Trait`: add an edge from the virtual pseudo-instance
    /// to the method of every implementation of the trait known to the crate graph.
    fn fan_out(&mut self, vt: usize, md: DefId, vargs: GenericArgsRef<'tcx>, queue: &mut VecDeque<usize>) {
        let tcx = self.tcx;
        let env = TypingEnv::fully_monomorphized();
        let Some(tr) = tcx.trait_of_assoc(md) else {
            self.edge(vt, 0, "unresolved", None, Some("virtual: no trait".into()));
            return;
        };
        // already fanned out?
        let already = self.edges.iter().any(|e| match e {
            J::Obj(v) => {
                let mut f = false;
                let mut k = false;
                for (key, x) in v {
                    if *key == "from" {
                        if let J::Int(i) = x {
                            f = *i as usize == vt;
                        }
                    }
                    if *key == "kind" {
                        if let J::Str(s) = x {
                            k = s == "virtual" || s == "unresolved";
                        }
                    }
                }
                f && k
            }
            _ => false,
        });
        if already {
            return;
        }
        let fn_traits = [
            tcx.lang_items().fn_trait(),
            tcx.lang_items().fn_mut_trait(),
            tcx.lang_items().fn_once_trait(),
        ];
        if fn_traits.contains(&Some(tr)) {
            self.edge(vt, 0, "unresolved", None, Some(format!("virtual call through dyn {}", self.path(tr))));
            return;
        }
        let impls: Vec<DefId> = tcx.all_impls(tr).collect();
        let mut n = 0;
        for imp in impls {
            let self_ty = tcx.type_of(imp).instantiate_identity().skip_norm_wip();
            if self_ty.has_non_region_param() {
                self.edge(vt, 0, "generic-impl", None, Some(format!("{}", self_ty)));
                continue;
            }
            let self_ty = tcx.erase_and_anonymize_regions(self_ty);
            // args: [Self, rest of trait args from the virtual call...]
            let mut new_args: Vec<ty::GenericArg<'tcx>> = vec![self_ty.into()];
            for a in vargs.iter().skip(1) {
                new_args.push(a);
            }
            let args = tcx.mk_args(&new_args);
            match Instance::try_resolve(tcx, env, md, args) {
                Ok(Some(ci)) => {
                    let t = self.intern(ci, queue);
                    self.edge(vt, 0, "virtual", Some(t), None);
                    n += 1;
                }
                _ => self.edge(vt, 0, "unresolved", None, Some(format!("impl {} of {}", self_ty, self.path(md)))),
            }
        }
        if n == 0 {
            self.edge(vt, 0, "unresolved", None, Some(format!("no impls of {}", self.path(tr))));
        }
    }

    fn add_drop(&mut self, from: usize, bb: usize, pty: Ty<'tcx>, queue: &mut VecDeque<usize>) {
        let tcx = self.tcx;
        let env = TypingEnv::fully_monomorphized();
        if !pty.needs_drop(tcx, env) {
            return;
        }
        if let ty::Dynamic(preds, ..) = pty.kind() {
            // virtual drop: fan out to the drop glue of every implementor of the principal trait
            if let Some(pr) = preds.principal_def_id() {
                let impls: Vec<DefId> = tcx.all_impls(pr).collect();
                let mut n = 0;
                for imp in impls {
                    let self_ty = tcx.type_of(imp).instantiate_identity().skip_norm_wip();
                    if self_ty.has_non_region_param() {
                        self.edge(from, bb, "generic-impl", None, Some(format!("drop {}", self_ty)));
                        continue;
                    }
                    let self_ty = tcx.erase_and_anonymize_regions(self_ty);
                    if !self_ty.needs_drop(tcx, env) {
                        continue;
                    }
                    let ci = Instance::resolve_drop_in_place(tcx, self_ty);
                    let t = self.intern(ci, queue);
                    self.edge(from, bb, "vdrop", Some(t), Some(format!("dyn {}", self.path(pr))));
                    n += 1;
                }
                if n == 0 {
                    self.edge(from, bb, "vdrop-none", None, Some(format!("dyn {}", self.path(pr))));
                }
            } else {
                self.edge(from, bb, "unresolved", None, Some(format!("drop of {}", pty)));
            }
            return;
        }
        let ci = Instance::resolve_drop_in_place(tcx, pty);
        let t = self.intern(ci, queue);
        self.edge(from, bb, "drop", Some(t), Some(format!("{}", pty)));
    }
}

/// Blocks reachable from bb0 along non-cleanup edges when every `SwitchInt` on a
/// constant operand (after substituting the instance's generic arguments, if an
/// instance is given) only takes the matching edge.  `if cfg!(debug_assertions)`,
/// `if T::IS_ZST`, `if false` branches are pruned this way.
fn live_blocks<'tcx>(tcx: TyCtxt<'tcx>, body: &Body<'tcx>, inst: Option<Instance<'tcx>>, def: DefId) -> Vec<bool> {
    let n = body.basic_blocks.len();
    let mut live = vec![false; n];
    let mut todo = vec![mir::START_BLOCK];
    while let Some(bb) = todo.pop() {
        if live[bb.as_usize()] {
            continue;
        }
        live[bb.as_usize()] = true;
        let data = &body.basic_blocks[bb];
        let term = data.terminator();
        let mut only: Option<BasicBlock> = None;
        if let TerminatorKind::SwitchInt { discr, targets } = &term.kind {
            if let Some(bits) = eval_op(tcx, body, inst, def, data, discr, 0) {
                only = Some(targets.target_for_value(bits));
            }
        }
        match only {
            Some(t) => todo.push(t),
            None => {
                for s in term.successors() {
                    if !body.basic_blocks[s].is_cleanup {
                        todo.push(s);
                    }
                }
            }
        }
    }
    live
}

/// Tiny block-local constant evaluator for switch operands:
/// constants (generic ones after substitution), RuntimeChecks, temps assigned in the
/// same block from a constant or from an integer comparison of two such values.
fn eval_op<'tcx>(
    tcx: TyCtxt<'tcx>,
    body: &Body<'tcx>,
    inst: Option<Instance<'tcx>>,
    def: DefId,
    data: &mir::BasicBlockData<'tcx>,
    op: &Operand<'tcx>,
    depth: usize,
) -> Option<u128> {
    if depth > 4 {
        return None;
    }
    match op {
        Operand::Constant(c) => {
            let (cst, env) = match inst {
                Some(i) => (
                    i.instantiate_mir_and_normalize_erasing_regions(
                        tcx,
                        TypingEnv::fully_monomorphized(),
                        ty::EarlyBinder::bind(c.const_),
                    ),
                    TypingEnv::fully_monomorphized(),
                ),
                None => (c.const_, TypingEnv::post_analysis(tcx, def)),
            };
            if inst.is_none() && cst.has_non_region_param() {
                return None;
            }
            let t = cst.ty();
            if !(t.is_integral() || t.is_bool()) {
                return None;
            }
            let si = cst.try_eval_scalar_int(tcx, env)?;
            Some(si.to_bits(si.size()))
        }
        Operand::RuntimeChecks(rc) => Some(rc.value(tcx.sess) as u128),
        Operand::Copy(p) | Operand::Move(p) if p.projection.is_empty() => {
            for st in data.statements.iter().rev() {
                if let StatementKind::Assign(b) = &st.kind {
                    if b.0.local == p.local {
                        if !b.0.projection.is_empty() {
                            return None;
                        }
                        return match &b.1 {
                            Rvalue::Use(o, ..) => eval_op(tcx, body, inst, def, data, o, depth + 1),
                            Rvalue::BinaryOp(bop, ab) => {
                                let ta = ab.0.ty(body, tcx);
                                if !(ta.is_bool() || matches!(ta.kind(), ty::Uint(_))) {
                                    return None;
                                }
                                let x = eval_op(tcx, body, inst, def, data, &ab.0, depth + 1)?;
                                let y = eval_op(tcx, body, inst, def, data, &ab.1, depth + 1)?;
                                match bop {
                                    mir::BinOp::Lt => Some((x < y) as u128),
                                    mir::BinOp::Le => Some((x <= y) as u128),
                                    mir::BinOp::Gt => Some((x > y) as u128),
                                    mir::BinOp::Ge => Some((x >= y) as u128),
                                    mir::BinOp::Eq => Some((x == y) as u128),
                                    mir::BinOp::Ne => Some((x != y) as u128),
                                    _ => None,
                                }
                            }
                            Rvalue::UnaryOp(mir::UnOp::Not, o) if o.ty(body, tcx).is_bool() => {
                                eval_op(tcx, body, inst, def, data, o, depth + 1).map(|v| (v == 0) as u128)
                            }
                            _ => None,
                        };
                    }
                }
            }
            None
        }
        _ => None,
    }
}

fn fn_diverges(tcx: TyCtxt<'_>, d: DefId) -> bool {
    if !matches!(tcx.def_kind(d), DefKind::Fn | DefKind::AssocFn) {
        return false;
    }
    tcx.fn_sig(d).skip_binder().output().skip_binder().is_never()
}

fn count_type_params(tcx: TyCtxt<'_>, d: DefId) -> usize {
    let mut n = 0;
    let mut g = Some(tcx.generics_of(d));
    while let Some(gen) = g {
        for p in gen.own_params.iter() {
            match p.kind {
                ty::GenericParamDefKind::Lifetime => {}
                _ => n += 1,
            }
        }
        g = gen.parent.map(|p| tcx.generics_of(p));
    }
    n
}

fn inst_kind_name(k: &InstanceKind<'_>) -> &'static str {
    match k {
        InstanceKind::Item(_) => "Item",
        InstanceKind::Intrinsic(_) => "Intrinsic",
        InstanceKind::VTableShim(_) => "VTableShim",
        InstanceKind::ReifyShim(..) => "ReifyShim",
        InstanceKind::FnPtrShim(..) => "FnPtrShim",
        InstanceKind::Virtual(..) => "Virtual",
        InstanceKind::ClosureOnceShim { .. } => "ClosureOnceShim",
        InstanceKind::DropGlue(..) => "DropGlue",
        InstanceKind::CloneShim(..) => "CloneShim",
        InstanceKind::ThreadLocalShim(..) => "ThreadLocalShim",
        InstanceKind::FnPtrAddrShim(..) => "FnPtrAddrShim",
        _ => "OtherShim",
    }
}
