//! C01: every audio callback returns promptly, for every finite argument.
//!
//! `seek_to` with a huge (finite) position on a looping static sound: the position saturates to usize::MAX frames and,
//! before the fix, `Transport::seek_to` subtracted the loop length from it one step at a time on the audio thread
//! (about 6e17 iterations for a 0.3 s loop at 100 Hz). Likewise a seek back to 0 with a loop region that starts very far
//! into the file stepped forwards one loop length at a time.  (harness adapted from seeded/C01-o/demo.rs)

use std::{
	sync::{mpsc, Arc},
	time::Duration,
};

use kira::{
	Tween,
	backend::{Backend, Renderer},
	sound::static_sound::{StaticSoundData, StaticSoundSettings},
	AudioManager, AudioManagerSettings, Frame,
};

const SAMPLE_RATE: u32 = 100;

/// A backend that just keeps the renderer so the test can drive it.
struct TestBackend {
	renderer: Option<Renderer>,
}

impl Backend for TestBackend {
	type Settings = u32;
	type Error = ();

	fn setup(sample_rate: u32, _internal_buffer_size: usize) -> Result<(Self, u32), ()> {
		Ok((Self { renderer: None }, sample_rate))
	}

	fn start(&mut self, renderer: Renderer) -> Result<(), ()> {
		self.renderer = Some(renderer);
		Ok(())
	}
}

fn manager() -> AudioManager<TestBackend> {
	AudioManager::<TestBackend>::new(AudioManagerSettings {
		capacities: Default::default(),
		main_track_builder: Default::default(),
		internal_buffer_size: 128,
		backend_settings: SAMPLE_RATE,
	})
	.unwrap()
}

/// Runs one audio callback of `num_frames` stereo frames on another thread and
/// fails if it does not come back within ten seconds.
fn callback_with_timeout(mut renderer: Renderer, num_frames: usize) -> (Renderer, Vec<f32>) {
	let (sender, receiver) = mpsc::channel();
	std::thread::spawn(move || {
		let mut out = vec![0.0f32; num_frames * 2];
		renderer.on_start_processing();
		renderer.process(&mut out, 2);
		sender.send((renderer, out)).ok();
	});
	receiver
		.recv_timeout(Duration::from_secs(10))
		.expect("the audio callback did not return within 10 seconds (or panicked)")
}

#[test]
fn seeking_far_past_the_end_of_a_looping_sound_returns_promptly() {
	let mut manager = manager();
	let frames: Arc<[Frame]> = (0..50).map(|_| Frame::from_mono(0.25)).collect();
	let mut handle = manager
		.play(StaticSoundData {
			sample_rate: SAMPLE_RATE,
			frames,
			settings: StaticSoundSettings::new().loop_region(0.1..0.4),
			slice: None,
		})
		.unwrap();
	let renderer = manager.backend_mut().renderer.take().unwrap();
	let (renderer, _) = callback_with_timeout(renderer, 16);
	handle.seek_to(1.0e300);
	let (_renderer, out) = callback_with_timeout(renderer, 16);
	assert!(out.iter().all(|s| s.is_finite() && (-1.0..=1.0).contains(s)));
}

#[test]
fn wrapped_seek_lands_where_the_stepwise_loop_landed() {
	let mut manager = manager();
	let frames: Arc<[Frame]> = (0..50).map(|i| Frame::from_mono(i as f32 / 100.0)).collect();
	let mut handle = manager
		.play(StaticSoundData {
			sample_rate: SAMPLE_RATE,
			frames,
			settings: StaticSoundSettings::new().loop_region(0.1..0.4),
			slice: None,
		})
		.unwrap();
	let renderer = manager.backend_mut().renderer.take().unwrap();
	let (renderer, _) = callback_with_timeout(renderer, 4);
	// frame 95 wraps to 95 - 30 - 30 = 35
	handle.seek_to(0.95);
	let (_renderer, out) = callback_with_timeout(renderer, 8);
	// eight frames after the wrapped seek the playhead is at 35 + 8; what is heard trails it by the resampler's
	// few frames: frame 39 of the ramp
	assert!((out[14] - 0.39).abs() < 1e-6, "sample {}", out[14]);
}
#[test]
fn playing_backwards_below_a_far_away_loop_region_returns_promptly() {
	let mut manager = manager();
	let frames: Arc<[Frame]> = (0..50).map(|_| Frame::from_mono(0.25)).collect();
	// a loop region far beyond the audio (legal: it is simply never reached when playing forwards)
	let mut handle = manager
		.play(StaticSoundData {
			sample_rate: SAMPLE_RATE,
			frames,
			settings: StaticSoundSettings::new()
				.loop_region(1.0e14..1.0e14 + 0.05)
				.start_position(0.3),
			slice: None,
		})
		.unwrap();
	let renderer = manager.backend_mut().renderer.take().unwrap();
	let (renderer, _) = callback_with_timeout(renderer, 4);
	// now play backwards
	handle.set_playback_rate(
		-1.0,
		Tween {
			duration: Duration::ZERO,
			..Default::default()
		},
	);
	let (_renderer, out) = callback_with_timeout(renderer, 16);
	assert!(out.iter().all(|s| s.is_finite() && (-1.0..=1.0).contains(s)));
}
