"""C12 — pausing a track freezes its subtree; removal rules; the handle's state never panics."""
from ..paths import explore, describe, bool_label
from ..rules import calls_to, calls_where, bool_edges, self_field_of_call, must_pass, returns
from ..facts import callee_path
from . import c03

TEXT = ("Track reuses the sound state machine: the set of manager states reachable through the methods Track actually calls (extracted from MIR) must be decodable by TrackShared::state() without reaching its panic arm; the decode table matches the enums; a non-advancing track returns through zero-fill before touching children, sounds, effects or sends; the removal predicate has the documented path conditions and both track storages use it; handles mark removal on drop. Frozen positions and fade values are not decided. Every storage is swept on every path of every callback. The track polls pause before resume, as both kinds of sound do. Track handles write pause / resume commands on every path; removal is tested before new resources are picked up. What the sweep takes out has somewhere to go (the unused ring has the storage's capacity); the track's time-keeping advances by the time its slice covers. A pause / resume the track reads reaches its state machine in every state and is polled in every callback. Track handles write their arguments as they are (no start time moved into the tween on the game thread).")
TECHNIQUE = 'MIR state-machine reachability + decode-table / must-pass / path-predicate rules'

PSM = c03.PSM
TRACK = 'track::sub::Track'


def track_methods(F):
    """PlaybackStateManager methods called from Track's own bodies."""
    used = set()
    for b in F.bodies:
        if b.krate == 'kira' and (b.path.startswith(TRACK + '::')):
            for bb, t in b.calls():
                p = callee_path(t) or ''
                if p.startswith(PSM + '::'):
                    used.add(p[len(PSM) + 2:])
    return used


def run(ctx, R, tier):
    F = ctx.facts('default')
    names = c03.state_names(F)
    if not R.check(names is not None, 'B.SM.reach', 'anchor:State', 'State enum not found'):
        return
    used = track_methods(F)
    R.check({'pause', 'resume', 'update'} <= used, 'B.SM.reach', 'anchor:track-methods',
            'Track does not call pause/resume/update on its PlaybackStateManager (found %s)' % sorted(used),
            detail={'methods': sorted(used)})
    # transition relation of the methods Track uses
    stvars = [v['name'] for v in (F.adt('start_time::StartTime') or {'variants': []})['variants']]
    flag_names, bindings, problems = c03.owner_bindings(F)
    R.check(not problems and 'track' in bindings, 'B.SM.reach', 'constructor',
            '; '.join(problems) or 'no PlaybackStateManager constructor call found in the track code',
            detail={'flags': flag_names, 'track': bindings.get('track')})
    tflags = bindings.get('track', {})
    # the documented life cycle, as it applies to a track (no stopped state: an unreachable resume falls back to Paused)
    expect = {k: {s0: set(v) for s0, v in d.items()} for k, d in c03.EXPECT.items()}
    expect['update']['WaitingToResume'] = {'WaitingToResume', 'Resuming', 'Paused'}
    for label, m, binding in (('pause', 'pause', None), ('resume[Immediate]', 'resume', {'start_time': frozenset(['Immediate'])}),
                              ('resume[other]', 'resume', {'start_time': frozenset(v for v in stvars if v != 'Immediate')}),
                              ('update', 'update', None)):
        r0 = c03.extract(F, m, names, binding, flags=tflags)
        if r0 is None:
            continue
        for s0 in names:
            if s0 in ('Stopping', 'Stopped'):
                continue  # not reachable for a track (checked below)
            got = set()
            for to, ret, dec, calls in r0[s0]:
                got |= set(to)
            R.check(got == expect[label][s0], 'B.SM.track', '%s:%s' % (label, s0),
                    'for a track, %s from %s leads to %s; the documented life cycle says %s' % (label, s0, sorted(got), sorted(expect[label][s0])),
                    detail={'method': label, 'from': s0, 'to': sorted(got)})
    rel = {}
    for m in sorted(used):
        if m in ('playback_state', 'interpolated_fade_volume', 'new'):
            continue
        bindings = [None]
        if m == 'resume':
            bindings = [{'start_time': frozenset([v])} for v in stvars]
        for b in bindings:
            r = c03.extract(F, m, names, b, flags=tflags)
            if r is None:
                continue
            for s in names:
                for to, ret, dec, calls in r[s]:
                    rel.setdefault(s, set()).update(x for x in to)
    reach = {'Playing'}
    todo = ['Playing']
    while todo:
        s = todo.pop()
        for t in rel.get(s, ()):
            if t not in reach:
                reach.add(t)
                todo.append(t)
    # decode table of TrackShared::state
    sb = F.body('track::TrackShared::state')
    pub = F.adt('sound::PlaybackState')
    tps = F.adt('track::TrackPlaybackState')
    if not R.check(sb is not None and pub is not None and tps is not None, 'B.C12.decode', 'anchor',
                   'TrackShared::state / enums not found'):
        return
    tab = c03.table_of(sb)
    discr = {v['name']: v['discr'] for v in pub['variants']}
    byname = {v: k for k, v in discr.items()}
    decodable = set()
    ok = True
    why = ''
    for val, rets in tab.items():
        if val in (None, 'otherwise'):
            continue
        if rets == {'diverge'}:
            continue
        nm = byname.get(val)
        decodable.add(nm)
        if rets != {'track::TrackPlaybackState::%s' % nm}:
            ok = False
            why = 'byte %s (PlaybackState::%s) decodes to %s' % (val, nm, sorted(rets))
    R.check(ok, 'B.C12.decode', 'TrackShared::state', why,
            detail={'table': {k: sorted(v) for k, v in tab.items() if k}}, where=sb.file)
    R.check(len(tps['variants']) == 5, 'B.C12.decode', 'five-states',
            'TrackPlaybackState has %d variants, the property names five' % len(tps['variants']),
            detail=[v['name'] for v in tps['variants']])
    st = F.body('track::TrackShared::set_state')
    if R.check(st is not None, 'B.C12.decode', 'anchor:set_state', 'TrackShared::set_state not found'):
        sc = calls_to(st, '::store')
        d = describe(st, sc[0][1]['args'][1]) if sc else '?'
        R.check(d == 'discr(playback_state)', 'B.C12.decode', 'set_state',
                'set_state stores %s, not the discriminant of its argument' % d, detail={'stored': d})
    for s in sorted(reach):
        R.check(s in decodable, 'B.SM.reach', 'Track:' + s,
                'the manager of a Track can reach state %s (through %s) which Track mirrors to TrackShared, and '
                'TrackShared::state() has no arm for it: TrackHandle::state() panics' % (s, sorted(used)),
                detail={'state': s, 'decodable': True}, where=sb.file)
    R.floor('B.SM.reach', len(reach), 5)
    R.extra['track_reachable_states'] = sorted(reach)
    R.extra['track_decodable_states'] = sorted(decodable)

    # ---- mirror (3 sites)
    n = c03.mirror_rule(F, R, TRACK + '::')
    R.floor('B.SM.mirror', n, 3)

    # ---- freeze
    pb = F.body(TRACK + '::process')
    if R.check(pb is not None, 'B.C12.freeze', 'anchor', 'Track::process not found'):
        adv = calls_to(pb, 'sound::PlaybackState::is_advancing')
        if R.check(len(adv) == 1, 'B.C12.freeze', 'gate-site', '%d is_advancing gates in Track::process' % len(adv)):
            be = bool_edges(pb, adv[0][0])
            if be is None:
                R.bad('B.C12.freeze', 'gate', 'unrecognised-shape: is_advancing() result not branched on')
            else:
                c03.silent_exit(F, R, pb, be[1], 'B.C12.freeze', 'gate', what='!is_advancing()')
                # everything that advances the subtree lies behind the gate
                gate = adv[0][0]
                behind = []
                from ..rules import op_sites_callees
                wanted = (TRACK + '::process', 'sound::Sound::process', 'effect::Effect::process', 'track::send::SendTrack::add_input')
                for bb, cps in op_sites_callees(F, pb, lambda p, t: p in wanted):
                    for p in cps:
                        behind.append((bb, p))
                ok = True
                why = ''
                names_found = set(p for _, p in behind)
                for bb, p in behind:
                    if not pb.dominates(gate, bb):
                        ok = False
                        why = '%s at %s is not dominated by the is_advancing gate' % (p, pb.where(bb))
                R.check(ok and len(names_found) == 4, 'B.C12.freeze', 'children-behind-gate',
                        why or 'expected child-track, sound, effect and send calls in Track::process, found %s' % sorted(names_found),
                        detail={'dominated': sorted(names_found)}, where=pb.where(gate))

    remove_rule(F, R)
    # a pause / resume command the track reads reaches its state machine whatever state the track is in
    c03.commands_reach_manager(F, R, rule='B.C12.cmd-applied', owners=c03.TRACK_OWNERS, floor=2)
    # 'resuming ... at a start time': the track handles hand the start time and the tween on as they were given
    from .c07 import payload_verbatim
    payload_verbatim(F, R, rule='B.C12.payload', fn_filter=lambda q: q.startswith('track::') and 'handle' in q, floor=8)
    # 'resuming, immediately or at a start time': the track's fades and start delay advance by the time its slice covers
    from .c06 import ungated
    ungated(F, R, rule='B.C12.ungated', fn_filter=lambda q: q.startswith('track::'))

    # ---- both storages holding Tracks remove with should_be_removed
    npred = 0
    for owner, fn in (('backend::resources::mixer::Mixer', 'on_start_processing'), (TRACK, 'on_start_processing')):
        b = F.body('%s::%s' % (owner, fn))
        if not R.check(b is not None, 'B.C12.pred', 'anchor:' + owner, 'not found'):
            continue
        ra = [(bb, t) for bb, t in calls_to(b, 'ResourceStorage::<T>::remove_and_add')
              if (self_field_of_call(b, t, 0) or '').endswith('sub_tracks')]
        if not R.check(len(ra) == 1, 'B.C12.pred', owner + ':site', 'no remove_and_add on sub_tracks in %s' % b.path):
            continue
        npred += 1
        hit = [c for c in F.closures_of(b.path) if calls_to(c, TRACK + '::should_be_removed')]
        R.check(len(hit) == 1, 'B.C12.pred', owner,
                '%s removes sub-tracks with a predicate that does not call Track::should_be_removed' % owner,
                detail='sub_tracks.remove_and_add(|t| t.should_be_removed())', where=b.where(ra[0][0]))
    R.floor('B.C12.pred', npred, 2)

    # ---- "removes the track at the next callback": every storage is swept on every path of every callback (the C08 rule)
    from . import c08
    c08.sweep(F, R)
    # ... and what the sweep takes out has somewhere to go: every removed item is moved to the unused ring, whose capacity is the
    # storage's (a smaller ring leaves dropped tracks in the mixer, still sounding)
    c08.recycle(F, R)
    c08.drain(F, R)

    # ---- a pause and a resume issued between the same two callbacks: the track polls them in the order both kinds of sound
    # do (pause, then resume), so the later resume is what remains
    from .c09 import reader_sequence
    tb = F.body(TRACK + '::on_start_processing')
    rd = None
    if tb is not None:
        for bb, t in tb.calls():
            cb = F.body(callee_path(t) or '')
            if cb is not None and cb.krate == 'kira' and any((callee_path(tt) or '') == 'command::CommandReader::<T>::read' for _, tt in cb.calls()):
                rd = cb
        if rd is None and any((callee_path(tt) or '') == 'command::CommandReader::<T>::read' for _, tt in tb.calls()):
            rd = tb
    if R.check(rd is not None, 'B.C12.cmd-order', 'anchor', 'the function in which Track polls its pause / resume readers was not found'):
        q = [x for x in reader_sequence(rd) if x in ('pause', 'resume')]
        R.check(q == ['pause', 'resume'], 'B.C12.cmd-order', 'pause-then-resume',
                'Track polls its life-cycle readers in the order %s; static and streaming sounds poll pause, then resume' % q,
                detail={'order': q}, where=rd.file)

    from .c08 import storage_loops, drops
    storage_loops(F, R)
    drops(F, R)
    from .c07 import write_unconditional
    write_unconditional(F, R, rule='B.C12.cmd', floor=6, fn_filter=lambda p: p.startswith('track::sub::') and 'andle' in p
                        and p.split('::')[-1] in ('pause', 'resume', 'resume_at'))

    # ---- handles mark removal on drop
    nd = 0
    for h in ('track::sub::handle::TrackHandle', 'track::sub::spatial_handle::SpatialTrackHandle',
              'track::send::handle::SendTrackHandle'):
        b = F.body('<%s as std::ops::Drop>::drop' % h)
        if not R.check(b is not None, 'B.C08.drop', 'anchor:' + h, 'no Drop impl for %s: dropping the handle would not remove the track' % h):
            continue
        nd += 1
        R.check(bool(calls_to(b, 'TrackShared::mark_for_removal')), 'B.C08.drop', h,
                'Drop for %s does not mark the track for removal' % h, detail='drop -> mark_for_removal')
    R.floor('B.C08.drop', nd, 3)


def remove_rule(F, R, rule='B.C12.remove'):
    """The removal predicate of a track: never while a descendant track is alive; otherwise by the handle flag, and for a
    persisting track additionally only once its sounds are gone."""
    # ---- removal predicate
    rb = F.body(TRACK + '::should_be_removed')
    if R.check(rb is not None, rule, 'anchor', 'should_be_removed not found'):
        prs = [p for p in explore(rb) if p.end == 'return']
        ok = True
        why = ''
        forms = set()
        import itertools
        import re as _re

        def atom(desc):
            """(atom, polarity of the described value) or None"""
            from ..paths import parse_term
            d = desc
            neg = 0
            while True:
                if d.startswith('Not(') and d.endswith(')'):
                    d = d[4:-1]
                    neg += 1
                    continue
                nm0, args0 = parse_term(d)
                if nm0 in ('Eq', 'Ne') and args0 and len(args0) == 2 and (args0[0] in ('True', 'False') or args0[1] in ('True', 'False')):
                    # `x == false`, `x != true`: the comparison with a literal is a (possibly negated) copy of x
                    c, x = (args0[1], args0[0]) if args0[1] in ('True', 'False') else (args0[0], args0[1])
                    if (c == 'False') != (nm0 == 'Ne'):
                        neg += 1
                    d = x
                    continue
                break
            if args0 is not None and nm0 in ('Eq', 'Ne', 'Lt', 'Le', 'Gt', 'Ge', 'BitAnd', 'BitOr', 'BitXor', 'Add', 'Sub', 'Mul'):
                return None     # an operator over something: not one of the documented atoms
            pol = (neg % 2 == 0)
            if 'Iterator::any' in d:
                forms.add('any')
                return 'child_alive', pol
            if 'Iterator::all' in d:
                forms.add('all')
                return 'child_alive', not pol
            if d.endswith('persist_until_sounds_finish'):
                return 'persist', pol
            if 'is_marked_for_removal' in d:
                return 'marked', pol
            for coll, nm in (('sub_tracks', 'child_pending'), ('sounds', 'sound_pending')):
                if ('.' + coll) in d and ('new_resource_consumer' in d or 'has_pending(' in d):
                    # has_pending(..) / !consumer.is_empty()
                    return nm, (pol if 'has_pending(' in d else not pol)
            if 'ResourceStorage::<T>::is_empty(' in d and '.sounds' in d:
                return 'sounds_empty', pol
            return None
        ATOMS = ['child_pending', 'child_alive', 'persist', 'marked', 'sounds_empty', 'sound_pending']

        def expected(a):
            return (not a['child_pending']) and (not a['child_alive']) and a['marked'] and ((not a['persist']) or (a['sounds_empty'] and not a['sound_pending']))
        paths = []
        for p in prs:
            dec = {}
            unknown = []
            for bb, desc, lab in p.decisions:
                if desc in ('True', 'False'):
                    continue        # the constant arm of a short-circuit, already decided by the explorer
                at = atom(desc)
                bl = bool_label(lab)
                if at is None or bl is None:
                    unknown.append(desc[:60])
                    continue
                dec[at[0]] = (bl == at[1])
            r = str(p.ret)
            if r in ('True', 'False'):
                res = ('const', r == 'True')
            else:
                at = atom(r)
                res = ('atom', at) if at else ('?', r[:80])
            paths.append((dec, res, unknown))
            if unknown:
                ok = False
                why = 'a path of should_be_removed branches on something the documented predicate does not mention: %s' % unknown[:2]
            if res[0] == '?':
                ok = False
                why = 'should_be_removed returns %s' % res[1]
        decided = set(k for dec, _, _ in paths for k in dec) | set(res[1][0] for _, res, _ in paths if res[0] == 'atom')
        for vals in itertools.product([False, True], repeat=len(ATOMS)):
            if not ok:
                break
            a = dict(zip(ATOMS, vals))
            # a storage that holds nothing and has nothing queued - or not: the two atoms are independent inputs here
            for dec, res, _ in paths:
                if any(a[k] != v for k, v in dec.items()):
                    continue
                got = res[1] if res[0] == 'const' else (a[res[1][0]] == res[1][1])
                if got != expected(a):
                    ok = False
                    why = ('with %s the predicate is %s; the documented one is %s (removed iff no child track is alive or still queued, the '
                           'handle was dropped, and - for a persisting track - no sound is left or still queued)'
                           % ({k: v for k, v in a.items() if k in decided or k in ('child_pending', 'sound_pending')}, got, expected(a)))
                    break
        R.check(ok, rule, 'path-predicate', why, detail={'paths': len(prs)}, where=rb.file)
        ie = F.body('backend::resources::ResourceStorage::<T>::is_empty')
        if R.check(ie is not None, rule, 'anchor:is_empty', 'ResourceStorage::is_empty not found'):
            rets = [str(p.ret) for p in explore(ie) if p.end == 'return']
            R.check(rets == ['atomic_arena::Arena::<T>::is_empty(&(*self).resources)'], rule, 'is_empty',
                    'ResourceStorage::is_empty returns %s, not whether its arena is empty' % rets, detail={'returns': rets})
        # the any() closure negates the recursive call
        cl = [c for c in F.closures_of(rb.path)]
        okc = False
        for c in cl:
            rec = calls_to(c, TRACK + '::should_be_removed')
            if rec:
                rets = [p.ret for p in explore(c) if p.end == 'return']
                if forms == {'any'}:
                    okc = all(r is not None and r.startswith('Not(') and 'should_be_removed' in r for r in rets)
                elif forms == {'all'}:
                    okc = all(r is not None and r.startswith(TRACK + '::should_be_removed(') for r in rets)
        R.check(okc, rule, 'children', 'the child test is not `!sub_track.should_be_removed()`',
                detail='any(|t| !t.should_be_removed())  (or !all(|t| t.should_be_removed()))')

