"""C18 — decoding: bad files give errors (third sentence of the property only)."""
from ..paths import explore, describe, describe_rv, pretty_place, bool_label
from ..rules import calls_to, calls_where, blocks_of
from ..facts import callee_path, op_local, is_place

TEXT = ("Error discipline over the file-loading code: every Result carrying a symphonia / io / FromFileError error and every Option taken from the container metadata is propagated (?, ok_or, match), never unwrapped or dropped; the only expect() calls are integer width conversions; 1 channel -> from_mono, 2 -> Frame::new, anything else -> Err(UnsupportedChannelConfiguration) with no access to a missing channel; the load loop leaves only by break on UnexpectedEof or by returning the error. Sample fidelity, frame counts, streaming == loading and Symphonia's own behaviour on corrupt input are not decided. After every Decoder::seek the scheduler records the index the seek actually reached. A frame behind the decoder position is reached by seeking back; the static loader appends every decoded packet. The streaming decoder reports the sample rate of the codec parameters. A relative streaming seek starts from the published playback position. Nothing but decoded packets grows a loaded sound; a decoded chunk answers None for an index before its first frame; a new streaming sound's transport starts at the requested position; the twin data builders agree. The loaders size no allocation with a value that does not come from decoded audio; every success path of seek_to_index seeks the decoder. The streaming decoder's frame count is the file's n_frames converted as an integer; the published playback position (from which a relative seek starts) crosses threads at full width. The decoder is sent to the frame a seek command names (wrapped by the transport afterwards) and, by the frame lookup, to that frame plus the slice start. What DecodeScheduler::new stores as the slice is what it was given; a failed seek ends the stream like a decode error (propagated, never swallowed); the streaming handle writes every seek it is given. No arithmetic or index assert exists in the file-decoding code (overflow-checks configuration): a count or index computed from what a header claims is an obligation the moment it appears. The decoder thread polls every seek command on every turn, relative before absolute. Each decoded chunk's start index is the decoder's frame counter read when that chunk was decoded. DecodeScheduler::new leaves the transport as Transport::new built it, from the settings' own loop region.")
TECHNIQUE = 'MIR error-discipline (result-flow) and path rules'

FNS = ['sound::static_sound::data::from_file::<impl sound::static_sound::data::StaticSoundData>::from_boxed_media_source',
       'sound::streaming::decoder::symphonia::SymphoniaDecoder::new',
       '<sound::streaming::decoder::symphonia::SymphoniaDecoder as sound::streaming::decoder::Decoder>::decode',
       '<sound::streaming::decoder::symphonia::SymphoniaDecoder as sound::streaming::decoder::Decoder>::seek',
       'sound::symphonia::load_frames_from_buffer_ref', 'sound::symphonia::load_frames_from_buffer']
ERR_MARK = ('symphonia', 'FromFileError', 'std::io::Error')


def bool_test_propagates(b, call_bb, nm):
    """`r.is_err()` / `r.is_ok()` at call_bb is branched on and every return path on its failure side returns an Err."""
    from ..paths import explore, bool_label
    from ..rules import bool_edges
    be = bool_edges(b, call_bb)
    if be is None:
        return False
    fail_edge = be[0] if nm == 'is_err' else be[1]
    seen = False
    for p in explore(b):
        if p.end != 'return' or call_bb not in p.blocks:
            continue
        i = p.blocks.index(call_bb)
        if fail_edge not in p.blocks[i:]:
            continue
        # the failure side was taken on this path
        nxt = [x for x in p.blocks[i + 1:]]
        if fail_edge not in nxt:
            continue
        seen = True
        r = str(p.ret)
        if not ('::Err(' in r or 'Result::Err' in r or r.endswith('::Err') or 'from_residual' in r):
            return False
    return seen


def consumers(b, local):
    """How the value in `local` is used: set of 'branch' (?), 'match' (discriminant), 'ok_or', 'unwrap', 'return', 'other:<callee>'"""
    uses = set()
    aliases = {local}
    changed = True
    while changed:
        changed = False
        for bb, si, s in b.stmts():
            if s['k'] == 'assign' and not s['lhs']['p'] and s['rv']['k'] == 'use' and op_local(s['rv']['op']) in aliases \
                    and s['lhs']['l'] not in aliases:
                aliases.add(s['lhs']['l'])
                changed = True
    # shared references to the value (`r.is_err()` takes &r)
    refs = set()
    for bb, si, s in b.stmts():
        if s['k'] == 'assign' and not s['lhs']['p'] and s['rv']['k'] == 'ref' and not s['rv']['pl']['p'] and s['rv']['pl']['l'] in aliases:
            refs.add(s['lhs']['l'])
    for bb, si, s in b.stmts():
        if s['k'] == 'assign' and s['rv']['k'] == 'discr' and s['rv']['pl']['l'] in aliases:
            uses.add('match')
        if s['k'] == 'assign' and not s['lhs']['p'] and s['lhs']['l'] == 0 and s['rv']['k'] == 'use' and op_local(s['rv']['op']) in aliases:
            uses.add('return')
    for bb, t in b.calls():
        for a in t['args']:
            if is_place(a) and not a['pl']['p'] and a['pl']['l'] in refs and t['callee'].get('name') in ('is_ok', 'is_err'):
                nm = t['callee'].get('name')
                uses.add('match' if bool_test_propagates(b, bb, nm) else 'swallow:' + nm)
                continue
            if is_place(a) and a['pl']['l'] in aliases and not a['pl']['p']:
                cp = callee_path(t) or ''
                nm = t['callee'].get('name')
                if cp.endswith('std::ops::Try>::branch') or nm == 'branch':
                    uses.add('branch')
                elif nm in ('ok_or', 'ok_or_else', 'map_err'):
                    uses.add('ok_or')
                elif nm in ('unwrap', 'expect', 'unwrap_or_default', 'unwrap_unchecked'):
                    uses.add('unwrap')
                elif nm in ('is_ok', 'is_err') and bool_test_propagates(b, bb, nm):
                    # `if r.is_err() { return Err(..) }`: the failure is turned into an error for the caller
                    uses.add('match')
                elif nm in ('ok', 'unwrap_or', 'is_ok', 'is_err'):
                    uses.add('swallow:' + nm)
                else:
                    uses.add('other:' + cp)
    if 0 in aliases:
        uses.add('return')
    return uses


def run(ctx, R, tier):
    F = ctx.facts('default')
    n = 0
    for fn in FNS:
        b = F.body(fn)
        if not R.check(b is not None, 'B.C18.err', 'anchor:' + fn.split('::')[-1], '%s not found' % fn):
            continue
        k = 0
        for bb, t in b.calls():
            dty = t['dest'].get('ty') or ''
            cp = callee_path(t) or ''
            nm = t['callee'].get('name')
            if nm in ('branch', 'from_residual', 'ok_or', 'map_err', 'into', 'from'):
                # the ? machinery itself / conversions: their results are checked where they are consumed
                if nm == 'ok_or' or nm == 'map_err':
                    pass
                else:
                    continue
            if dty.startswith('std::result::Result<') and any(m in dty for m in ERR_MARK):
                if t['dest']['p'] or t['dest']['l'] == 0:
                    n += 1
                    k += 1
                    R.ok('B.C18.err', '%s|%s#%d' % (fn.split('::')[-1], cp.split('::')[-1], k), detail='result returned to the caller')
                    continue
                u = consumers(b, t['dest']['l'])
                n += 1
                k += 1
                good = bool(u & {'branch', 'match', 'return'}) and 'unwrap' not in u and not any(x.startswith('swallow') for x in u)
                R.check(good, 'B.C18.err', '%s|%s#%d' % (fn.split('::')[-1], cp.split('::')[-1], k),
                        '%s: the Result of %s is %s instead of being propagated' % (fn, cp, sorted(u) or 'dropped'),
                        detail={'fn': fn.split('::')[-1], 'call': cp, 'consumed_by': sorted(u)}, where=b.where(bb))
            elif dty.startswith('std::option::Option<') and (nm in ('default_track',) or 'symphonia' in cp):
                u = consumers(b, t['dest']['l'])
                n += 1
                k += 1
                R.check(bool(u & {'ok_or', 'match', 'branch'}) and 'unwrap' not in u, 'B.C18.err', '%s|%s#%d' % (fn.split('::')[-1], nm, k),
                        '%s: the Option of %s is %s (must become an error value)' % (fn, cp, sorted(u) or 'dropped'),
                        detail={'call': cp, 'consumed_by': sorted(u)}, where=b.where(bb))
        # metadata Option fields (sample_rate, n_frames): ok_or'ed
        for bb, t in b.calls():
            if t['callee'].get('name') == 'ok_or':
                src = describe(b, t['args'][0], depth=3, at=bb)
                if 'codec_params' in src:
                    n += 1
                    err = describe(b, t['args'][1], depth=3, at=bb)
                    R.check('FromFileError::' in err, 'B.C18.err', '%s|ok_or:%s' % (fn.split('::')[-1], src.split('.')[-1]),
                            'missing metadata %s maps to %s' % (src, err), detail={'field': src.split('.')[-1], 'error': err})
        # the only expect()/unwrap() allowed: integer width conversions
        for bb, t in b.calls():
            nm = t['callee'].get('name')
            if nm in ('unwrap', 'expect') and 'Result' in (callee_path(t) or '') or nm in ('unwrap', 'expect') and 'Option' in (callee_path(t) or ''):
                args = t['callee'].get('args', [])
                okc = any('TryFromIntError' in a for a in args)
                n += 1
                R.check(okc, 'B.C18.err', '%s|%s@%s' % (fn.split('::')[-1], nm, ','.join(args)[:60]),
                        '%s calls %s on %s: a malformed file would panic instead of producing an error' % (fn, nm, args),
                        detail={'on': args}, where=b.where(bb))
    R.floor('B.C18.err', n, 14)
    err_paths(F, R)
    chan(F, R)
    eof(F, R)
    seek_landing(F, R)
    load_append(F, R)
    rate_rule(F, R)
    chunk_lookup(F, R)
    header_sized(F, R)
    # 'an error value ... never invented samples': an error of the decoder (a failed seek included) ends the stream - it is
    # propagated out of run() like a decode error (the C10 rule); a seek request is written whatever position the handle last saw
    from .c10 import err_propagation, ends_only_when_done
    err_propagation(F, R)
    # 'streaming yields the same frames as loading': decoding goes on for as long as the sound can still play them - the
    # thread ends only for a Stopped sound, at the end of the audio, or when the audio side is gone
    ends_only_when_done(F, R, rule='B.C18.stream')
    decode_arith(ctx, R)
    chunk_start(F, R)
    from .c07 import write_unconditional
    # 'after any sequence of seeks': every seek command is polled on every turn, relative before absolute
    from .c09 import transport_cmd_order
    transport_cmd_order(F, R, rule='B.C18.order')
    write_unconditional(F, R, rule='B.C18.cmd', floor=2, fn_filter=lambda q: 'sound::streaming::handle' in q and q.split('::')[-1].startswith('seek'))
    # 'after any sequence of seeks': a relative seek starts from the published playback position, which is published at full width
    from .c05 import published_width
    published_width(F, R, rule='B.C18.published', fn_filter=lambda q: 'sound::' in q, floor=6)
    # streaming yields the frames the decoder produced: silence only past the end of the audio (the C09 rule)
    from .c09 import frame_source, sib_data
    frame_source(F, R)
    sib_data(F, R, rule='B.C18.sib-data')


def decode_arith(ctx, R, rule='B.C18.arith'):
    """'never a panic': the file-decoding code (the symphonia decoder of streaming sounds, the loaders of static sounds, the
    sample-format conversion) contains no arithmetic or indexing that can panic - analysed in the overflow-checks
    configuration, where every `+`, `-`, `*`, `/`, `%`, shift and index of the source is an assert in the MIR.  There is none
    today: a count, a subtraction or an index computed from what a file's header claims (zero frames, zero channels) is an
    obligation the moment it appears."""
    Fo = ctx.facts('default-ovf')
    total = 0
    fns = 0
    for b in Fo.bodies:
        if b.krate != 'kira':
            continue
        asserts = [(i, blk['term']) for i, blk in enumerate(b.blocks) if blk['term']['k'] == 'assert' and not blk.get('cleanup')]
        total += len(asserts)
        if not ('ymphonia' in b.path or 'from_file' in b.path):
            continue
        fns += 1
        seen = {}
        from .. import rt
        prev = rt.OVERFLOW_ON[0]
        rt.OVERFLOW_ON[0] = True
        try:
            # the auto rules of the audio-path analysis apply here too: a constant index below a constant length, the index of a
            # range / enumeration over the very slice indexed, `index + 1` of such an index
            asserts = [(i, t) for i, t in asserts if not rt.auto_assert(b, t)]
        finally:
            rt.OVERFLOW_ON[0] = prev
        for i, t in asserts:
            kind = str(t.get('msg') or t.get('kind') or 'assert').split('(')[0]
            seen[kind] = seen.get(kind, 0) + 1
            R.check(False, rule, '%s|%s#%d' % (b.path.split('::{closure')[0].split('::')[-1].strip('>'), kind, seen[kind]),
                    '%s can panic (%s) on a value that comes from the file being decoded: a malformed or empty file must give an error or the '
                    'valid prefix, never a panic' % (b.path, str(t.get('msg') or t.get('kind'))[:80]), where=b.where(i))
    # non-vacuity: the configuration really has its arithmetic checks on, and the decoding functions were seen
    R.check(total >= 50, rule, 'control:asserts-on', 'only %d asserts in the overflow-checks facts: the configuration is not what it says' % total,
            detail={'asserts_in_kira': total})
    R.floor(rule + '.fns', fns, 12)


def rate_rule(F, R):
    """The sample rate a streaming decoder reports is the one encoded in the file: SymphoniaDecoder::sample_rate returns its
    `sample_rate` field, and `new` initialises that field from the codec parameters' sample_rate."""
    SD = 'sound::streaming::decoder::symphonia::SymphoniaDecoder'
    b = F.body('<%s as sound::streaming::decoder::Decoder>::sample_rate' % SD)
    nb = F.body(SD + '::new')
    if not R.check(b is not None and nb is not None, 'B.C18.rate', 'anchor', 'SymphoniaDecoder::sample_rate / new not found'):
        return
    rets = [str(p.ret) for p in explore(b) if p.end == 'return']
    R.check(rets == ['(*self).sample_rate'], 'B.C18.rate', 'getter', 'SymphoniaDecoder::sample_rate returns %s' % rets, detail={'returns': rets})
    init = None
    for bb, si, s in nb.stmts():
        if s['k'] == 'assign' and s['rv']['k'] == 'agg' and s['rv'].get('adt') == SD:
            init = describe(nb, s['rv']['ops'][s['rv']['fields'].index('sample_rate')], depth=8, at=bb)
    # the length a streaming decoder reports is the frame count encoded in the file, taken over as an integer (a detour
    # through seconds in floating point and back loses a frame for some lengths: the stream then ends one frame early)
    ninit = None
    for bb, si, s in nb.stmts():
        if s['k'] == 'assign' and s['rv']['k'] == 'agg' and s['rv'].get('adt') == SD and 'num_frames' in s['rv']['fields']:
            ninit = describe(nb, s['rv']['ops'][s['rv']['fields'].index('num_frames')], depth=12, at=bb)
    import re as _re
    R.check(ninit is not None and 'codec_params.n_frames' in ninit and not _re.search(r'\b(Mul|Div|Add|Sub)\(|calc_time|f64|f32', ninit), 'B.C18.rate', 'frames-init',
            'the decoder\'s num_frames field is initialised from %s, not from the codec parameters\' n_frames converted as an integer' % (ninit or '?')[:160],
            detail={'init': (ninit or '')[:160]})
    R.check(init is not None and 'sample_rate' in init and 'codec_params' in init, 'B.C18.rate', 'init',
            'the decoder\'s sample_rate field is initialised from %s, not from the codec parameters\' sample_rate' % init, detail={'init': (init or '')[:140]})


def load_append(F, R):
    """Loading keeps what it decodes: in the static loader's packet loop every successfully decoded packet's frames
    (load_frames_from_buffer_ref) are appended to the result before the next packet is read."""
    from ..rules import must_pass
    b = F.body(FNS[0])
    if not R.check(b is not None, 'B.C18.load', 'anchor', 'static loader not found'):
        return
    loops = b.loops()
    lf = [x for x, t in b.calls() if (callee_path(t) or '').endswith('load_frames_from_buffer_ref')]
    ap = [x for x, t in b.calls() if (callee_path(t) or '').split('::')[-1] in ('append', 'extend', 'extend_from_slice', 'push')
          and 'std::vec::Vec' in (callee_path(t) or '')]
    ok = len(loops) == 1 and len(lf) == 1 and bool(ap)
    if ok:
        L = loops[0]
        ap_in = [x for x in ap if x in L['blocks']]
        # from the decode of the packet's frames, the loop header is reached again only through the append
        ok = bool(ap_in) and lf[0] in L['blocks'] and must_pass(b, [b.blocks[lf[0]]['term']['t']], [L['header']], ap_in) \
            and any('load_frames_from_buffer_ref' in describe(b, b.blocks[x]['term']['args'][1], depth=8, at=x) for x in ap_in)
    R.check(ok, 'B.C18.load', 'append', 'the static loader does not append the frames of every decoded packet to its result',
            detail='frames.append(load_frames_from_buffer_ref(&buffer)?) in the packet loop', where=b.file)
    # "never invented samples": nothing else grows or rewrites the result (no padding up to an advertised length)
    grow = [(x, (callee_path(t) or '').split('::')[-1]) for x, t in b.calls() if 'std::vec::Vec' in (callee_path(t) or '')
            and (callee_path(t) or '').split('::')[-1] in ('resize', 'resize_with', 'push', 'insert', 'extend', 'extend_from_slice', 'append', 'fill', 'truncate', 'set_len', 'splice')]
    extra = [(x, nm) for x, nm in grow if not (x in ap and 'load_frames_from_buffer_ref' in describe(b, b.blocks[x]['term']['args'][1], depth=8, at=x))]
    R.check(not extra, 'B.C18.load', 'only-decoded', 'the static loader also changes its result through %s: frames that were not decoded from the file'
            % [nm for _, nm in extra], detail={'other_writers': [nm for _, nm in extra]}, where=b.file)


def header_sized(F, R):
    """'Malformed ... files produce an error value or the valid prefix, never a panic': the loaders never size an allocation
    with a number read from the file's header (a track length, a channel count ...) - such a number is unvalidated, and
    `Vec::reserve*` / `with_capacity` / `vec![x; n]` / `resize` abort or panic on an absurd one before a single packet is
    decoded.  Sizes may be constants or come from a decoded buffer."""
    from ..rules import constant_term
    n = 0
    bad = []
    for fn in FNS:
        for b in [F.body(fn)] + list(F.closures_of(fn)):
            if b is None:
                continue
            n += 1
            for bb, t in b.calls():
                cp = callee_path(t) or ''
                nm = cp.split('::')[-1]
                if nm in ('with_capacity', 'reserve', 'reserve_exact', 'try_reserve', 'try_reserve_exact', 'from_elem', 'resize', 'resize_with') \
                        and ('std::vec' in cp or 'alloc::vec' in cp or 'VecDeque' in cp or 'std::string' in cp):
                    szi = 0 if nm == 'with_capacity' else 1
                    if szi >= len(t['args']):
                        continue
                    d = describe(b, t['args'][szi], depth=10, at=bb)
                    if constant_term(d) or 'AudioBuffer' in d or 'audio::Signal' in d or '::frames(' in d:
                        continue
                    bad.append('%s: %s(%s)' % (b.path.split('::')[-1], nm, d[:80]))
    R.check(not bad, 'B.C18.load', 'header-sized', 'a loader sizes an allocation with a value that does not come from decoded audio: %s' % bad[:2],
            detail={'bodies': n}, where=F.body(FNS[0]).file if F.body(FNS[0]) else None)
    R.floor('B.C18.load.bodies', n, 5)


def seek_landing(F, R):
    """`Decoder::seek` may land before the requested frame and returns the index it actually reached (symphonia seeks to
    packet boundaries).  Every caller in the streaming code must label the next decoded chunk with THAT index: the value
    stored into `decoder_current_frame_index` after a seek is the seek's own result, on every success path.  A caller that
    records the requested index instead plays frame[landed + k] where the loaded sound has frame[requested + k]."""
    from ..paths import describe_rv, pretty_place
    from ..rules import must_pass
    SEEK = 'sound::streaming::decoder::Decoder::seek'
    n = 0
    for b in F.bodies:
        if b.krate != 'kira' or not b.path.startswith('sound::streaming::sound::decode_scheduler::') or '{closure' in b.path:
            continue
        seeks = [bb for bb, t in b.calls() if (callee_path(t) or '') == SEEK]
        if not seeks:
            continue
        stores = [(bb, describe_rv(b, s['rv'], depth=8, at=bb)) for bb, si, s in b.stmts()
                  if s['k'] == 'assign' and s['lhs']['p'] and pretty_place(b, s['lhs']).endswith('.decoder_current_frame_index')]
        for bb, si, st in b.stmts():
            if st['k'] == 'assign' and st['rv']['k'] == 'agg' and 'decoder_current_frame_index' in (st['rv'].get('fields') or []):
                i = st['rv']['fields'].index('decoder_current_frame_index')
                from ..paths import describe as _d
                stores.append((bb, _d(b, st['rv']['ops'][i], depth=8, at=bb)))
        for sb in seeks:
            n += 1
            good = [bb for bb, d in stores if SEEK + '(' in d and (d.endswith('as Continue.0') or d.endswith('as Ok.0') or 'unwrap' in d)
                    and b.dominates(sb, bb)]
            # every path from the seek to a return either records the landing index or propagates the seek's error
            ok = bool(good)
            if ok:
                for p in explore(b):
                    if p.end != 'return' or sb not in p.blocks:
                        continue
                    if set(p.blocks) & set(good):
                        continue
                    r = str(p.ret)
                    if 'from_residual' in r or '::Err(' in r or 'Result::Err' in r:
                        continue
                    ok = False
            R.check(ok, 'B.C18.seek', '%s#%d' % (b.path.split('::')[-1], n),
                    '%s seeks the decoder but does not record the index the seek actually reached in decoder_current_frame_index '
                    '(stores: %s): the following chunk is labelled with the wrong start frame' % (b.path, [d[:80] for _, d in stores]),
                    detail={'caller': b.path, 'recorded': 'result of Decoder::seek'}, where=b.where(sb))
    R.floor('B.C18.seek', n, 3)
    # which frame the decoder is sent to: a seek command's target is handed on as it is (it is then wrapped into the loop
    # region by the transport, and the frame lookup adds the slice's start when it fetches the frame); the frame lookup
    # seeks to the frame it was asked for plus the start of the slice.  An offset added in the wrong one of the two sends the
    # decoder past the end of the file for a wrapped seek inside a slice
    for b in F.bodies:
        if b.krate != 'kira' or not b.path.startswith('sound::streaming::sound::decode_scheduler::') or '{closure' in b.path:
            continue
        fn = b.path.split('::')[-1]
        for bb, t in b.calls():
            if (callee_path(t) or '') != SEEK or fn not in ('seek_to_index', 'frame_at_index'):
                continue
            from ..paths import describe as _dd
            d = _dd(b, t['args'][1], depth=6, at=bb)
            if fn == 'seek_to_index':
                good = d == 'index'
            else:
                good = d.startswith('Add(') and 'index' in d and '.slice' in d and d.count('Add(') == 1
                if not good and d.startswith('Add(') and d.count('Add(') == 1:
                    # the start of the slice may come out of a helper / a destructured pair: judged on where the other
                    # summand comes from
                    from .c15 import sources
                    from ..facts import op_local as _ol
                    dd = b.single_def(_ol(t['args'][1])) if _ol(t['args'][1]) is not None else None
                    for _ in range(3):
                        if dd and dd[0] == 'stmt' and dd[3]['rv']['k'] == 'use' and _ol(dd[3]['rv']['op']) is not None:
                            dd = b.single_def(_ol(dd[3]['rv']['op']))
                    if dd and dd[0] == 'stmt' and dd[3]['rv']['k'] == 'bin' and dd[3]['rv']['op'].startswith('Add'):
                        ops = [dd[3]['rv']['a'], dd[3]['rv']['b']]
                        descs = [_dd(b, o, depth=3, at=dd[1]) for o in ops]
                        if 'index' in descs:
                            other = ops[1 - descs.index('index')]
                            good = any(x.endswith('.slice') or '.slice' in x for x in sources(b, other))
            R.check(good, 'B.C18.seek', 'target:' + fn, 'DecodeScheduler::%s sends the decoder to %s' % (fn, d[:100]), detail={'target': d[:120]}, where=b.where(bb), nontrivial=False)
    # 'after any sequence of seeks': a seek request is carried out - seek_to_index has no success path that leaves the decoder
    # where it was (a "same target as last time" shortcut drops the second of two seeks to one position)
    DS0 = 'sound::streaming::sound::decode_scheduler::DecodeScheduler::<Error>'
    si = F.body(DS0 + '::seek_to_index')
    if R.check(si is not None, 'B.C18.seek', 'anchor:seek_to_index', 'DecodeScheduler::seek_to_index not found'):
        v = F.inlined_view(DS0 + '::seek_to_index', depth=1, pred=lambda hp: hp.startswith(DS0 + '::')) or si
        sk = [bb for bb, t in v.calls() if (callee_path(t) or '') == SEEK]
        skipped = []
        for p in explore(v):
            if p.end != 'return' or (set(p.blocks) & set(sk)):
                continue
            r = str(p.ret)
            if 'from_residual' in r or '::Err(' in r or 'Result::Err' in r:
                continue
            skipped.append(r)
        R.check(bool(sk) and not skipped, 'B.C18.seek', 'seek_to_index:every-path',
                'DecodeScheduler::seek_to_index can return success (%s) without having sought the decoder' % [r[:50] for r in skipped][:2],
                detail='every success path calls Decoder::seek', where=si.file)
    # ... while the PLAYBACK position is the one that was asked for: the transport of a new streaming sound starts at the
    # requested start position (frames between the seek's landing point and the request are decoded and skipped), never at
    # the packet boundary the decoder happened to land on
    nb = F.body('sound::streaming::sound::decode_scheduler::DecodeScheduler::<Error>::new')
    if R.check(nb is not None, 'B.C18.seek', 'anchor:new', 'DecodeScheduler::new not found'):
        from ..paths import describe as _d2
        tn = [(bb, _d2(nb, t['args'][0], depth=8, at=bb)) for bb, t in nb.calls() if (callee_path(t) or '') == 'sound::transport::Transport::new']
        okn = len(tn) == 1 and 'start_position' in tn[0][1] and SEEK + '(' not in tn[0][1] and '::seek(' not in tn[0][1]
        # ... untouched: nothing in `new` moves the playhead afterwards (a start position past the loop end is played once
        # and wraps on the next step, exactly as a static sound does), and the decoder is sought to that same position
        moved = [pretty_place(nb, s2['lhs']) for _, _, s2 in nb.stmts() if s2['k'] == 'assign' and s2['lhs']['p']
                 and pretty_place(nb, s2['lhs']).endswith('.position') and 'ransport' in (nb.locals[s2['lhs']['l']].get('ty') or '')]
        sk = [_d2(nb, t['args'][1], depth=8, at=bb) for bb, t in nb.calls() if (callee_path(t) or '') == SEEK]
        R.check(not moved and len(sk) == 1 and 'start_position' in sk[0] and 'ransport' not in sk[0], 'B.C18.seek', 'new:start-untouched',
                'DecodeScheduler::new moves the new transport\'s position (%s) / seeks the decoder to %s: the first frame played is not the one at the requested start position'
                % (moved, [x[:80] for x in sk]), detail={'seek': [x[:100] for x in sk]}, where=nb.file)
        # the transport is told the length the scheduler itself plays to (the slice's length when there is a slice): an
        # open-ended loop region is resolved against it, as the static sound resolves its own against the sliced length
        tl = [_d2(nb, t['args'][4], depth=8, at=bb) for bb, t in nb.calls() if (callee_path(t) or '') == 'sound::transport::Transport::new' and len(t['args']) > 4]
        fl = [_d2(nb, s2['rv']['ops'][s2['rv']['fields'].index('num_frames')], depth=8, at=bb) for bb, _, s2 in nb.stmts()
              if s2['k'] == 'assign' and s2['rv']['k'] == 'agg' and 'num_frames' in (s2['rv'].get('fields') or []) and 'DecodeScheduler' in (s2['rv'].get('adt') or '')]
        R.check(len(tl) == 1 and len(fl) == 1 and tl[0] == fl[0], 'B.C18.seek', 'new:same-length', 'the transport of a new streaming sound is told the length %s, the scheduler plays to %s'
                % ([x[:60] for x in tl], [x[:60] for x in fl]), detail={'length': (tl or ['?'])[0][:80]}, where=nb.file)
        # ... and nothing in `new` writes into the transport after Transport::new built it (the loop region it resolved - an empty
        # one filtered out, an open end set to the length - is the one the decoder thread steps with), and the loop region it is
        # given is the settings' own
        wr = [pretty_place(nb, s2['lhs']) for _, _, s2 in nb.stmts() if s2['k'] == 'assign' and s2['lhs']['p']
              and 'ransport' in (nb.locals[s2['lhs']['l']].get('ty') or '')]
        wr += [pretty_place(nb, s2['rv']['pl']) for _, _, s2 in nb.stmts() if s2['k'] == 'assign' and s2['rv']['k'] in ('ref', 'rawptr') and s2['rv'].get('bk') != 'shared'
               and 'ransport' in (nb.locals[s2['rv']['pl']['l']].get('ty') or '')]
        lr = [_d2(nb, t['args'][1], depth=6, at=bb) for bb, t in nb.calls() if (callee_path(t) or '') == 'sound::transport::Transport::new' and len(t['args']) > 1]
        R.check(not wr and len(lr) == 1 and lr[0].endswith('settings.loop_region'), 'B.C18.seek', 'new:transport-untouched',
                'DecodeScheduler::new writes into the transport it has just built (%s) / builds it from the loop region %s: the decoder thread steps with a loop '
                'region Transport::new did not vet (an empty one never lets it back to run())' % (wr[:2], [x[:60] for x in lr]), detail={'loop_region': (lr or ['?'])[0][:60]}, where=nb.file)
        R.check(okn, 'B.C18.seek', 'new:transport-start', 'a new streaming sound\'s transport starts at %s, not at the requested start position'
                % [d[:100] for _, d in tn], detail={'start': tn[0][1][:120] if tn else None}, where=nb.file)
    # a relative seek is relative to what is being HEARD: the decoder thread's own transport runs up to a ring buffer ahead
    # of the audio thread, so `seek_by` starts from the position the audio side publishes (Shared::position)
    DSX = 'sound::streaming::sound::decode_scheduler::DecodeScheduler::<Error>'
    sb_ = F.body(DSX + '::seek_by')
    if R.check(sb_ is not None, 'B.C18.seek', 'anchor:seek_by', 'DecodeScheduler::seek_by not found'):
        from ..paths import describe as _d
        tgt = [(bb, _d(sb_, t['args'][1], depth=6, at=bb)) for bb, t in sb_.calls() if (callee_path(t) or '') == DSX + '::seek_to']
        ok = len(tgt) == 1 and tgt[0][1].startswith('Add(') and 'Shared::position(' in tgt[0][1] and 'amount' in tgt[0][1] \
            and 'transport' not in tgt[0][1]
        R.check(ok, 'B.C18.seek', 'seek_by:base', 'the streaming seek_by seeks to %s, not to the published playback position + amount '
                '(the decoder\'s transport is ahead of what is heard by up to the ring buffer)' % [d[:100] for _, d in tgt],
                detail={'target': tgt[0][1][:120] if tgt else None}, where=sb_.file)
    # a frame that lies BEFORE the decoder's position can only be reached by seeking back: in frame_at_index every path on
    # which `index < decoder_current_frame_index` holds passes the seek before it decodes
    fb = F.body('sound::streaming::sound::decode_scheduler::DecodeScheduler::<Error>::frame_at_index')
    if R.check(fb is not None, 'B.C18.seek', 'anchor:frame_at_index', 'frame_at_index not found'):
        seeks = set(bb for bb, t in fb.calls() if (callee_path(t) or '') == SEEK)
        decs = set(bb for bb, t in fb.calls() if (callee_path(t) or '') == 'sound::streaming::decoder::Decoder::decode')
        ok = bool(seeks) and bool(decs)
        tested = False
        for p in explore(fb):
            blocks = list(p.blocks)
            behind = None
            for bb, desc, lab in p.decisions:
                if desc.startswith(('Lt(', 'Gt(', 'Le(', 'Ge(')) and 'decoder_current_frame_index' in desc:
                    nm = desc.split('(')[0]
                    first_is_index = not desc[len(nm) + 1:].lstrip().startswith('(*self).decoder_current_frame_index')
                    v = bool_label(lab)
                    if v is None:
                        continue
                    # (`<=` instead of `<` only adds a redundant seek when the two are equal: still "may lie before")
                    lt = {'Lt': v, 'Le': v, 'Ge': not v, 'Gt': not v}[nm] if first_is_index else {'Gt': v, 'Ge': v, 'Le': not v, 'Lt': not v}[nm]
                    behind = lt
            if behind is not None:
                tested = True
            if behind is True and (set(blocks) & decs):
                first_dec = min(blocks.index(x) for x in decs if x in blocks)
                if not any(x in seeks and blocks.index(x) < first_dec for x in blocks if x in seeks):
                    ok = False
        R.check(ok and tested, 'B.C18.seek', 'frame_at_index:backward',
                'frame_at_index decodes forward although the wanted frame lies before the decoder position (no seek on that path): a loop '
                'wrap or a backward seek would read to the end of the file instead', detail='index < decoder_current_frame_index => seek ≺ decode')


def err_paths(F, R):
    """On every path of the streaming decoder on which a container/codec call reported an error, the function itself returns
    an error (the one tolerated end-of-stream case is the static loader's UnexpectedEof break, checked by B.C18.eof):
    an error is never turned into a success value such as an empty packet."""
    n = 0
    for fn in FNS[1:4]:
        b = F.body(fn)
        if b is None:
            continue
        bad = []
        npaths = 0
        for p in explore(b):
            if p.end != 'return':
                continue
            failed = None
            for bb, desc, lab in p.decisions:
                if desc.startswith('discr(') and lab in ('Err', 'Break') and ('symphonia' in desc or 'Try>::branch' in desc or 'try_into' in desc.lower()):
                    failed = desc
                    break
            if failed is None:
                continue
            npaths += 1
            ret = str(p.ret)
            if not ('Err' in ret or 'from_residual' in ret):
                bad.append((failed[:80], ret[:80]))
        n += 1
        R.check(not bad and npaths >= 1, 'B.C18.err-paths', fn.split('::')[-1],
                '%s returns a success value on a path where a container call failed: %s' % (fn, bad[:2]) if bad else 'no error path found in %s' % fn,
                detail={'fn': fn.split('::')[-1], 'error_paths': npaths}, where=b.file)
    R.floor('B.C18.err-paths', n, 3)


def chan(F, R):
    b = F.body('sound::symphonia::load_frames_from_buffer')
    if not R.check(b is not None, 'B.C18.chan', 'anchor', 'load_frames_from_buffer not found'):
        return
    arms = {}
    for p in explore(b):
        if p.end != 'return':
            continue
        lab = None
        for bb, desc, l in p.decisions:
            if 'Channels::count' in desc:
                lab = l
        calls = [c for _, c in p.calls]
        chans = []
        for bb, cp in p.calls:
            if cp.endswith('::chan'):
                chans.append(describe(b, b.blocks[bb]['term']['args'][1]))
        arms.setdefault(lab, []).append((str(p.ret), chans, calls))
    ok = True
    why = ''
    for lab, lst in arms.items():
        for ret, chans, calls in lst:
            if lab == '1':
                if chans != ['0'] or 'Ok' not in ret:
                    ok = False
                    why = 'mono branch reads channels %s' % chans
            elif lab == '2':
                if sorted(chans) != ['0', '1'] or 'Ok' not in ret:
                    ok = False
                    why = 'stereo branch reads channels %s' % chans
            else:
                if chans or 'UnsupportedChannelConfiguration' not in ret:
                    ok = False
                    why = 'other channel counts give %s (channels read: %s)' % (ret[:80], chans)
    if set(arms) != {'1', '2', 'otherwise'}:
        ok = False
        why = why or 'channel-count arms: %s' % sorted(str(k) for k in arms)
    R.check(ok, 'B.C18.chan', 'load_frames_from_buffer', why, detail={'arms': sorted(str(k) for k in arms)}, where=b.file)
    # mono duplicates, stereo pairs: the closures
    cl = F.closures_of(b.path)
    ctor = sorted(set(cp.split('::')[-1] for c in cl for _, t in c.calls() for cp in [callee_path(t) or ''] if cp.startswith('frame::Frame::')))
    R.check(ctor == ['from_mono', 'new'], 'B.C18.chan', 'constructors', 'frame constructors used: %s' % ctor, detail={'constructors': ctor})


def eof(F, R):
    b = F.body(FNS[0])
    if b is None:
        return
    loops = b.loops()
    if not R.check(len(loops) == 1, 'B.C18.eof', 'anchor', '%d loops in from_boxed_media_source' % len(loops)):
        return
    L = loops[0]
    ok = True
    why = ''
    n_break = 0
    n_cont_err = 0
    for p in explore(b):
        lab = {}
        for bb, desc, l in p.decisions:
            if desc.startswith('discr(') and l in ('Ok', 'Err') and 'next_packet' in desc:
                lab['packet'] = l
            if desc.startswith('discr(') and l in ('IoError', 'otherwise') and 'packet' in lab and 'kind' not in lab:
                lab['kind'] = l
            if '::eq(' in desc and 'ErrorKind' in desc:
                lab['eof'] = bool_label(l)
        if lab.get('packet') != 'Err':
            continue
        if p.end.startswith('backedge'):
            n_cont_err += 1
            ok = False
            why = 'an error from next_packet() continues the loop (swallowed)'
        elif p.end == 'return':
            if lab.get('eof') is True:
                n_break += 1
                if 'Ok' not in str(p.ret):
                    ok = False
                    why = 'UnexpectedEof does not end with Ok(data)'
            else:
                if 'Err' not in str(p.ret) and 'from_residual' not in str(p.ret):
                    ok = False
                    why = 'a non-EOF error returns %s' % str(p.ret)[:80]
    R.check(ok and n_break >= 1, 'B.C18.eof', 'load-loop', why or 'no EOF exit found', detail={'eof_exits': n_break, 'swallowed': n_cont_err}, where=b.file)


def chunk_start(F, R, rule='B.C18.seek'):
    """Every decoded chunk is labelled with where the decoder stood when it was decoded: in DecodeScheduler::frame_at_index the
    `start_index` of each DecodedChunk built inside the decode loop is the decoder's frame counter read in that very turn of the
    loop, before the turn's own advance of the counter.  Read once in front of the loop it is right for the first chunk of a
    lookup and wrong for every later one (a seek that lands more than one packet early, a slice that starts past the first
    packet)."""
    DS0 = 'sound::streaming::sound::decode_scheduler::DecodeScheduler::<Error>'
    b = F.inlined_view(DS0 + '::frame_at_index', depth=1, pred=lambda hp: hp.startswith(DS0 + '::') and not hp.endswith(('::seek_to', '::seek_by', '::seek_to_index'))) \
        or F.body(DS0 + '::frame_at_index')
    if not R.check(b is not None, rule, 'anchor:chunk-start', 'DecodeScheduler::frame_at_index not found'):
        return
    from ..facts import trace
    aggs = [(bb, si, s) for bb, si, s in b.stmts() if s['k'] == 'assign' and s['rv']['k'] == 'agg' and s['rv'].get('ak') == 'adt'
            and (s['rv'].get('adt') or '').endswith('DecodedChunk') and 'start_index' in (s['rv'].get('fields') or [])]
    n = 0
    ok, why = bool(aggs), 'no DecodedChunk is built in frame_at_index'
    for bb, si, s in aggs:
        n += 1
        op = s['rv']['ops'][s['rv']['fields'].index('start_index')]
        loops = b.in_loop(bb)
        # where the operand's value is read from the counter
        src = None
        cur = op
        for _ in range(6):
            if not is_place(cur):
                break
            pl = cur['pl']
            if pl['p']:
                if pretty_place(b, pl).endswith('decoder_current_frame_index'):
                    src = ('here', bb)
                break
            ds = b.defs().get(pl['l'], [])
            if len(ds) != 1 or ds[0][0] != 'stmt' or ds[0][3]['rv']['k'] != 'use':
                break
            nxt = ds[0][3]['rv']['op']
            if is_place(nxt) and nxt['pl']['p'] and pretty_place(b, nxt['pl']).endswith('decoder_current_frame_index'):
                src = ('stmt', ds[0][1])
                break
            cur = nxt
        if src is None:
            ok, why = False, 'the start_index of a decoded chunk is %s, not the decoder\'s frame counter' % describe(b, op, depth=5, at=bb)[:80]
            break
        if loops:
            L = min(loops, key=lambda l: len(l['blocks']))
            if src[1] not in L['blocks']:
                ok, why = False, 'the start_index of the chunks decoded in the loop is read once, in front of the loop: right for the first chunk of a lookup only'
                break
            # ... before this turn's advance of the counter
            adv = [x for x, si2, s2 in b.stmts() if s2['k'] == 'assign' and pretty_place(b, s2['lhs']).endswith('decoder_current_frame_index') and x in L['blocks']]
            if any(b.dominates(a, src[1]) and a != src[1] for a in adv):
                ok, why = False, 'the counter is advanced before it is read for the chunk\'s start_index'
                break
    R.check(ok, rule, 'chunk:start-per-chunk', 'DecodeScheduler::frame_at_index: %s' % why, detail={'chunks_built': n}, where=b.file)


def chunk_lookup(F, R):
    """The decoded chunk only answers for the frames it holds: DecodedChunk::frame_at_index returns None for an index
    before its first frame (the caller then seeks back), and otherwise `frames.get(index - start_index)`.  Folding the test
    into a saturating subtraction makes a backward move return the chunk's first frame instead."""
    b = F.body('sound::streaming::sound::decode_scheduler::DecodedChunk::frame_at_index')
    if not R.check(b is not None, 'B.C18.seek', 'anchor:chunk', 'DecodedChunk::frame_at_index not found'):
        return
    ok = True
    seen = set()
    why = ''
    for p in explore(b):
        if p.end != 'return':
            continue
        before = None
        for _, desc, lab in p.decisions:
            from ..paths import parse_term
            nm, ar = parse_term(desc)
            if nm == 'Lt' and ar and len(ar) == 2 and ar[0].strip() == 'index' and 'start_index' in ar[1] and bool_label(lab) is not None:
                before = bool_label(lab)                 # index < start_index
            if nm == 'Le' and ar and len(ar) == 2 and 'start_index' in ar[0] and ar[1].strip() == 'index' and bool_label(lab) is not None:
                before = not bool_label(lab)             # start_index <= index  (written `index >= start_index`)
            if 'checked_sub' in desc and lab in ('None', 'Some', '0', '1', 'Break', 'Continue'):
                before = lab in ('None', '0', 'Break')
        ret = str(p.ret)
        if before is True:
            seen.add('before')
            if not (ret.endswith('None') or 'from_residual' in ret):
                ok, why = False, 'an index before the chunk yields %s' % ret[:80]
        elif before is False:
            seen.add('inside')
            if 'get(' not in ret or 'saturating_sub' in ret:
                ok, why = False, 'an index inside the chunk yields %s' % ret[:80]
        else:
            ok, why = False, 'a path does not compare the index with the chunk\'s first frame (returns %s)' % ret[:100]
    R.check(ok and seen == {'before', 'inside'}, 'B.C18.seek', 'chunk:before-start', 'DecodedChunk::frame_at_index: %s' % (why or sorted(seen)),
            detail='index < start_index => None', where=b.file)
