"""Engine A glue: turn RtAnalysis obligations into rule instances, discharging
them against tables/discharge.jsonl (exact keys only)."""
import json
import os
from .rt import RtAnalysis
from .core import VERIF

RT_FLOOR = 1200          # instances reachable from the audio-thread roots (counted: 1864)
KIRA_FLOOR = 300         # of which kira's own (counted: 383)


def load_table():
    sinks, sites, loops = {}, {}, {}
    with open(os.path.join(VERIF, 'tables', 'discharge.jsonl')) as f:
        for line in f:
            line = line.strip()
            if not line or line.startswith('#'):
                continue
            d = json.loads(line)
            if d['kind'] == 'sink':
                sinks[(d['effect'], d['sink'])] = d
            elif d['kind'] == 'site':
                sites[d['key']] = d
            elif d['kind'] == 'loop':
                loops[(d['fn'], d['ordinal'])] = d
    return sinks, sites, loops


def run_engine_a(R, F, groups=('rt',), effects=('alloc', 'free', 'panic', 'block', 'leaf'), loops=True,
                 rule_prefix='A', config='default', fn_filter=None):
    sinks, sites, loop_tab = load_table()
    A = RtAnalysis(F, list(groups))
    tag = '' if config == 'default' else '@' + config
    R.floor(rule_prefix + '.reach' + tag, len(A.rt), RT_FLOOR)
    R.floor(rule_prefix + '.reach-kira' + tag, len(A.kira), KIRA_FLOOR)
    roots = [F.instances[i]['path'] for i in A.roots]
    R.extra.setdefault('rt_instances', {})[config] = len(A.rt)
    R.extra.setdefault('rt_kira_instances', {})[config] = len(A.kira)
    R.extra.setdefault('roots', {})[config] = roots
    # unresolved / indirect edges anywhere in the RT set are reported through 'leaf' obligations
    if 'panic' in effects:
        R.check(not A.ordering_bad, rule_prefix + '.ordering', 'all' + tag,
                'invalid or dynamic atomic Ordering on the audio path: %s' % '; '.join(A.ordering_bad[:5]),
                detail='%d Ordering arguments in RT bodies are literal and valid for their operation' % A.ordering_sites)
    obs = A.obligations()
    rtpaths = None
    stats = {'obligations': 0, 'sink_discharged': 0, 'site_discharged': 0, 'auto_discharged': A.auto_count,
             'undischarged': 0}
    for o in obs:
        if o['effect'] not in effects:
            continue
        if fn_filter is not None and not fn_filter(o['fn']):
            continue
        stats['obligations'] += 1
        rule = '%s.%s' % (rule_prefix, o['effect'])
        key = '%s|%s' % (o['fn'], o['boundary'])
        ent = sites.get(o['key'])
        where = o['sites'][0] if o['sites'] else None
        if ent is not None and o['count'] <= ent['count']:
            ok = True
            for req in ent.get('requires_absent', []):
                if rtpaths is None:
                    rtpaths = set(F.instances[i]['path'] for i in A.rt)
                if req in rtpaths:
                    ok = False
                    R.bad(rule, key, 'discharge of %s requires %s to be unreachable from the audio-thread roots, but it is reachable'
                          % (o['key'], req), where=where, chain=o['chain'])
            if ok:
                stats['site_discharged'] += 1
                for a in ent.get('assumes', []):
                    R.assume(a)
                R.ok(rule, key + tag, detail={'sites': o['sites'], 'sinks': o['sinks'][:4], 'discharged_by': 'site table',
                                              'reason': ent['reason']}, where=where)
            continue
        left = [s for s in o['sinks'] if (o['effect'], s) not in sinks]
        if not left:
            stats['sink_discharged'] += 1
            R.ok(rule, key + tag, detail={'sites': o['sites'], 'sinks': o['sinks'][:4], 'discharged_by': 'sink table'},
                 where=where)
            continue
        stats['undischarged'] += 1
        if ent is not None:
            what = ('%d site(s) of %s in %s reach %s, but the discharge table covers only %d: a new undischarged site'
                    % (o['count'], o['boundary'], o['fn'], o['effect'], ent['count']))
        else:
            what = ('%s reachable on the audio thread: %s -> %s reaches %s (undischarged obligation: no table entry, '
                    'no auto rule)' % (o['effect'], o['fn'], o['boundary'], ', '.join(left[:3])))
        R.bad(rule, key, what, where=', '.join(o['sites'][:4]), chain=o['chain'], sinks=left[:6])
    R.extra.setdefault('engine_a', {})[config] = stats
    if loops:
        ls = A.loops()
        lstats = {'loops': len(ls), 'iter': 0, 'ring-drain': 0, 'drop-glue': 0, 'table': 0, 'undischarged': 0}
        for l in ls:
            key = '%s#%d' % (l['fn'], l['ordinal'])
            rule = rule_prefix + '.loop'
            if l['klass'] in ('iter', 'ring-drain'):
                lstats[l['klass']] += 1
                R.ok(rule, key + tag, detail={'class': l['klass'], 'exit': l['detail'][:160]}, where=l['where'],
                     nontrivial=(l['krate'] == 'kira'))
                continue
            if l['shim'] == 'DropGlue':
                lstats['drop-glue'] += 1
                R.ok(rule, key + tag, detail={'class': 'drop-glue', 'exit': 'compiler-generated loop over the elements of an array/slice'},
                     where=l['where'], nontrivial=False)
                continue
            ent = loop_tab.get((l['fn'], l['ordinal']))
            if ent is not None:
                lstats['table'] += 1
                R.ok(rule, key + tag, detail={'class': ent['klass'], 'reason': ent['reason'], 'exit': l['detail'][:160]},
                     where=l['where'])
                continue
            lstats['undischarged'] += 1
            R.bad(rule, key, 'loop on the audio thread whose exit is not decided by a finite iterator or a ring drain and has '
                  'no table entry: %s (exits: %s)' % (l['fn'], l['detail'][:200]), where=l['where'], chain=l['chain'])
        R.extra.setdefault('engine_a_loops', {})[config] = lstats
    return A
