#!/usr/bin/env python3
"""Confirm a seeded change and run the checks against it.
usage: tools/seed_check.py <seed dir with patch.diff, demo.rs, meta.json> [--props C01,C02] [--all]
 1. fresh scratch worktree of /repo (outside /repo and /verif): demo must PASS without the patch
 2. with the patch: crate builds, `cargo test -p kira --lib` and the three existing integration tests pass, demo must FAIL
 3. git -C /repo apply patch; run the checks; git -C /repo checkout -- .  (always undone)
Prints a JSON summary."""
import json, os, subprocess, sys, shutil, tempfile

def sh(cmd, cwd=None, timeout=1800, env=None):
    r = subprocess.run(cmd, cwd=cwd, shell=isinstance(cmd, str), stdout=subprocess.PIPE, stderr=subprocess.STDOUT, text=True, timeout=timeout, env=env)
    return r.returncode, r.stdout

def main():
    d = os.path.abspath(sys.argv[1])
    props = None
    if '--props' in sys.argv:
        props = sys.argv[sys.argv.index('--props') + 1].split(',')
    meta = json.load(open(os.path.join(d, 'meta.json')))
    prop = meta.get('property')
    out = {'seed': d, 'property': prop}
    wt = tempfile.mkdtemp(prefix='seedchk-')
    os.rmdir(wt)
    env = dict(os.environ, CARGO_NET_OFFLINE='true', CARGO_TARGET_DIR=os.path.join(wt, 'target'), RUST_BACKTRACE='0')
    try:
        rc, o = sh(['git', '-C', '/repo', 'worktree', 'add', '-q', '--detach', wt, 'HEAD'])
        assert rc == 0, o
        os.makedirs(os.path.join(wt, 'crates/kira/tests'), exist_ok=True)
        shutil.copy(os.path.join(d, 'demo.rs'), os.path.join(wt, 'crates/kira/tests/seed_demo.rs'))
        rc, o = sh('timeout 900 cargo test --offline -p kira --test seed_demo 2>&1 | tail -15', cwd=wt, env=env)
        out['demo_without_patch'] = 'pass' if 'test result: ok' in o else 'FAIL: ' + o[-400:]
        rc, o = sh(['git', 'apply', '--whitespace=nowarn', os.path.join(d, 'patch.diff')], cwd=wt)
        out['patch_applies'] = rc == 0
        if rc != 0:
            out['error'] = o
            return out
        rc, o = sh('cargo build --offline -p kira 2>&1 | tail -3', cwd=wt, env=env)
        out['builds'] = 'Finished' in o
        rc, o = sh('timeout 1200 cargo test --offline -p kira --lib 2>&1 | grep "test result"', cwd=wt, env=env)
        out['unit_tests'] = o.strip()
        # the integration tests that already exist (not the demo)
        os.rename(os.path.join(wt, 'crates/kira/tests/seed_demo.rs'), os.path.join(wt, 'seed_demo.rs.off'))
        rc, o = sh('timeout 1200 cargo test --offline -p kira --test change_sample_rate --test streaming_sound_stops_on_error --test sync_send 2>&1 | grep "test result"', cwd=wt, env=env)
        out['existing_integration_tests'] = ' '.join(o.split('\n')).strip()
        os.rename(os.path.join(wt, 'seed_demo.rs.off'), os.path.join(wt, 'crates/kira/tests/seed_demo.rs'))
        rc, o = sh('timeout 900 cargo test --offline -p kira --test seed_demo 2>&1 | tail -25', cwd=wt, env=env)
        out['demo_with_patch'] = 'fails (as required)' if ('test result: FAILED' in o or 'error: test failed' in o or rc == 124 or 'timed out' in o) else 'PASSES?: ' + o[-300:]
    finally:
        sh(['git', '-C', '/repo', 'worktree', 'remove', '--force', wt])
        shutil.rmtree(wt, ignore_errors=True)
        sh(['git', '-C', '/repo', 'worktree', 'prune'])
    if '--no-checks' in sys.argv:
        return out
    # 3. our checks
    rc, o = sh(['git', '-C', '/repo', 'status', '--porcelain'])
    assert o.strip() == '', 'repo dirty: ' + o
    try:
        rc, o = sh(['git', '-C', '/repo', 'apply', '--whitespace=nowarn', os.path.join(d, 'patch.diff')])
        assert rc == 0, o
        allp = ['C01', 'C02', 'C03', 'C05', 'C06', 'C07', 'C08', 'C09', 'C10', 'C12', 'C13', 'C15', 'C16', 'C17', 'C18', 'C19']
        run = props or ([prop] if '--all' not in sys.argv else allp)
        if '--all' in sys.argv:
            run = allp
        ev = tempfile.mkdtemp(prefix='seedev-')
        res = {}
        for p in run:
            e2 = dict(os.environ, KV_EVIDENCE=ev)
            rc, o = sh([os.path.join('/verif', 'kv'), 'check', p], env=e2)
            keys = [l.split('key=')[1].strip() for l in o.splitlines() if l.strip().startswith('rule=') and 'key=' in l]
            res[p] = {'exit': rc, 'keys': keys}
        shutil.rmtree(ev, ignore_errors=True)
        out['checks'] = res
        out['caught_by'] = sorted(p for p, r in res.items() if r['exit'] == 1)
    finally:
        sh(['git', '-C', '/repo', 'checkout', '--', '.'])
        rc, o = sh(['git', '-C', '/repo', 'status', '--porcelain'])
        out['repo_clean_after'] = (o.strip() == '')
    return out

if __name__ == '__main__':
    print(json.dumps(main(), indent=1))
