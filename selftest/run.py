#!/usr/bin/env python3
"""Engine D runner: apply each mutant to a scratch copy of /repo (outside /repo and /verif), run the property's
check against it, compare the reported keys with the expectation, remove the copy.
usage: selftest/run.py [--jobs N] [--json out.json] [id-substring ...]"""
import concurrent.futures, json, os, shutil, subprocess, sys, tempfile, time
HERE = os.path.dirname(os.path.abspath(__file__))
VERIF = os.path.dirname(HERE)
sys.path.insert(0, HERE)
from mutants import M
ALL_PROPS = ['C01', 'C02', 'C03', 'C05', 'C06', 'C07', 'C08', 'C09', 'C10', 'C12', 'C13', 'C15', 'C16', 'C17', 'C18', 'C19']


def seeded_mutants():
    """Independently written breaking changes kept under /verif/seeded/<id>/ (patch.diff + meta.json): each must be
    reported by the check of the property it breaks."""
    out = []
    sd = os.path.join(VERIF, 'seeded')
    if os.path.isdir(sd):
        for d in sorted(os.listdir(sd)):
            pf = os.path.join(sd, d, 'patch.diff')
            mf = os.path.join(sd, d, 'meta.json')
            if os.path.exists(pf) and os.path.exists(mf):
                meta = json.load(open(mf))
                exp = 'MISS-DOCUMENTED' if meta.get('documented_miss') else meta.get('expect_key', '')
                out.append(dict(id='seed-' + d, prop=meta.get('check_property', meta['property']), patch=pf, expect=exp,
                                note=meta.get('summary', '')[:100], tier='quick'))
    return out


def refactor_controls():
    """Independently written behaviour-preserving refactorings kept under /verif/refactors/<id>/patch.diff: every check
    must stay silent on each (one control entry per property the patch's files are relevant to would be 16x the work;
    the entry runs ALL checks, see run_one)."""
    out = []
    rd = os.path.join(VERIF, 'refactors')
    if os.path.isdir(rd):
        for d in sorted(os.listdir(rd)):
            pf = os.path.join(rd, d, 'patch.diff')
            if os.path.exists(pf):
                out.append(dict(id='refac-' + d, prop='ALL', patch=pf, expect='NONE', note='behaviour-preserving refactoring (all 16 checks must stay silent)', tier='quick'))
    return out


def auto_mutants():
    """Single-line mutants that pass kira's unit tests and break a property (found by tools/mutate.py, see DESIGN §14):
    applied by line number, with the old line verified."""
    p = os.path.join(HERE, 'auto_mutants.json')
    if not os.path.exists(p):
        return []
    out = []
    for m in json.load(open(p)):
        m = dict(m)
        m.setdefault('tier', 'quick')
        out.append(m)
    return out


def equiv_controls():
    """Behaviour-preserving single-line edits (operands of a commutative operator exchanged, a comparison mirrored), found
    by tools/equiv.py: every check must stay silent on each."""
    p = os.path.join(HERE, 'equiv_controls.json')
    return json.load(open(p)) if os.path.exists(p) else []


M = M + auto_mutants() + seeded_mutants() + refactor_controls() + equiv_controls()


def run_one(mu, slot):
    t0 = time.time()
    scratch = tempfile.mkdtemp(prefix='kvscratch-')
    try:
        for item in ('crates', 'Cargo.toml', 'Cargo.lock'):
            src = os.path.join('/repo', item)
            dst = os.path.join(scratch, item)
            if os.path.isdir(src):
                shutil.copytree(src, dst, ignore=shutil.ignore_patterns('target'))
            else:
                shutil.copy(src, dst)
        if mu.get('patch'):
            subprocess.run(['git', 'init', '-q'], cwd=scratch)
            r = subprocess.run(['git', 'apply', '--whitespace=nowarn', mu['patch']], cwd=scratch, stdout=subprocess.PIPE, stderr=subprocess.STDOUT, text=True)
            if r.returncode != 0:
                return dict(id=mu['id'], ok=False, status='seeded patch no longer applies: ' + r.stdout[-200:], keys=[])
        else:
            path = os.path.join(scratch, 'crates', 'kira', 'src', mu['file'])
            s = open(path).read()
            if 'line' in mu:
                ls = s.split('\n')
                if mu['line'] >= len(ls) or ls[mu['line']] != mu['old']:
                    return dict(id=mu['id'], ok=False, status='line %d no longer reads as recorded (mutant out of date)' % (mu['line'] + 1), keys=[])
                if 'block' in mu:
                    ls[mu['line']:mu['end'] + 1] = mu['block']
                else:
                    ls[mu['line']] = mu['new']
                    for k in range(mu['line'] + 1, mu.get('end', mu['line']) + 1):
                        ls[k] = '// (deleted)'
                s = None
                open(path, 'w').write('\n'.join(ls))
            elif mu['id'].startswith('ctrl-rename') and s.count(mu['old']) >= 1:
                pass
            elif s.count(mu['old']) != 1:
                return dict(id=mu['id'], ok=False, status='anchor text occurs %d times (mutant out of date)' % s.count(mu['old']), keys=[])
            if s is not None:
                open(path, 'w').write(s.replace(mu['old'], mu['new']))
            for f2, o2, n2 in mu.get('also', []):
                p2 = os.path.join(scratch, 'crates', 'kira', 'src', f2)
                s2 = open(p2).read()
                if o2 not in s2:
                    return dict(id=mu['id'], ok=False, status='anchor text missing in %s (mutant out of date)' % f2, keys=[])
                open(p2, 'w').write(s2.replace(o2, n2))
        ev = os.path.join(scratch, 'evidence')
        env = dict(os.environ, KV_REPO=scratch, KV_EVIDENCE=ev, KV_KEEP_FACTS='1', KV_NO_SELFTEST='1',
                   KV_TARGET=os.path.join(VERIF, '.cache', 'target-scratch-%d' % slot))
        if mu['prop'] == 'ALL':
            keys = []
            rc = 0
            outs = ''
            for pp in ALL_PROPS:
                r = subprocess.run([os.path.join(VERIF, 'kv'), 'check', pp, '--tier', 'quick'], env=env,
                                   stdout=subprocess.PIPE, stderr=subprocess.STDOUT, text=True)
                if r.returncode not in (0, 1):
                    return dict(id=mu['id'], ok=False, status='check %s crashed: %s' % (pp, r.stdout[-300:]), keys=keys)
                rc = max(rc, r.returncode)
                vdir = os.path.join(ev, 'violations')
                if os.path.isdir(vdir):
                    for f in sorted(os.listdir(vdir)):
                        if f.startswith(pp + '-'):
                            keys.append(pp + ':' + json.load(open(os.path.join(vdir, f)))['key'])
            ok = rc == 0 and not keys
            return dict(id=mu['id'], prop='ALL', ok=ok, status='silent (control, all checks)' if ok else 'FALSE ALARM on a behaviour-preserving refactoring',
                        keys=keys, expect='NONE', wall_s=round(time.time() - t0, 1), note=mu['note'], reverse_of=None)
        r = subprocess.run([os.path.join(VERIF, 'kv'), 'check', mu['prop'], '--tier', mu.get('tier', 'quick')], env=env,
                           stdout=subprocess.PIPE, stderr=subprocess.STDOUT, text=True)
        keys = []
        vdir = os.path.join(ev, 'violations')
        if os.path.isdir(vdir):
            for f in sorted(os.listdir(vdir)):
                if f.startswith(mu['prop'] + '-'):
                    keys.append(json.load(open(os.path.join(vdir, f)))['key'])
        if r.returncode not in (0, 1):
            compiles = 'building facts failed' not in r.stdout
            return dict(id=mu['id'], ok=False, status=('check crashed' if compiles else 'variant does not compile') + ': ' + r.stdout[-400:], keys=keys)
        exp = mu['expect']
        if exp == 'MISS-DOCUMENTED':
            ok = True
            status = 'documented miss (value-level clause, not decided)' if not keys else 'caught (was a documented miss)'
        elif exp == 'NONE':
            ok = r.returncode == 0 and not keys
            status = 'silent (control)' if ok else 'FALSE ALARM on a behaviour-preserving edit'
        else:
            ok = r.returncode == 1 and any(exp in k for k in keys)
            status = 'caught' if ok else ('MISSED' if not keys else 'fired with other keys only')
        return dict(id=mu['id'], prop=mu['prop'], ok=ok, status=status, keys=keys, expect=exp, wall_s=round(time.time() - t0, 1), note=mu['note'],
                    reverse_of=mu.get('reverse_of'))
    finally:
        shutil.rmtree(scratch, ignore_errors=True)
        # facts of scratch trees are of no further use
        cache = os.path.join(VERIF, '.cache')


def run_selection(props=None, jobs=6, verbose=False):
    """Run all mutants of the given properties (None = all). -> summary dict"""
    import queue
    t0 = time.time()
    sel = [mu for mu in M if props is None or mu['prop'] in props or any(p in mu['id'] for p in props)]
    slots = queue.Queue()
    for i in range(jobs):
        slots.put(i)

    def work(mu):
        s = slots.get()
        try:
            return run_one(mu, s)
        finally:
            slots.put(s)
    results = []
    with concurrent.futures.ThreadPoolExecutor(max_workers=jobs) as ex:
        for res in ex.map(work, sel):
            results.append(res)
            if verbose:
                print('%-26s %-5s %s' % (res['id'], 'ok' if res['ok'] else 'FAIL', res['status'][:100]), flush=True)
    failed = [r['id'] for r in results if not r['ok']]
    return {'n': len(results), 'ok': len(results) - len(failed), 'failed': failed,
            'caught': len([r for r in results if r['ok'] and r.get('expect') != 'NONE']),
            'controls': len([r for r in results if r['ok'] and r.get('expect') == 'NONE']),
            'wall_s': round(time.time() - t0, 1), 'results': results}


def main():
    args = sys.argv[1:]
    jobs = 4
    out = None
    if '--jobs' in args:
        i = args.index('--jobs'); jobs = int(args[i + 1]); del args[i:i + 2]
    if '--json' in args:
        i = args.index('--json'); out = args[i + 1]; del args[i:i + 2]
    sel = [mu for mu in M if not args or any(a in mu['id'] for a in args)]
    results = []
    import queue
    slots = queue.Queue()
    for i in range(jobs):
        slots.put(i)

    def work(mu):
        s = slots.get()
        try:
            return run_one(mu, s)
        finally:
            slots.put(s)
    with concurrent.futures.ThreadPoolExecutor(max_workers=jobs) as ex:
        for res in ex.map(work, sel):
            results.append(res)
            print('%-26s %-5s %s %s' % (res['id'], 'ok' if res['ok'] else 'FAIL', res['status'][:120], '' if res['ok'] else res.get('keys', [])[:3]), flush=True)
    bad = [r for r in results if not r['ok']]
    print('%d mutants, %d as expected, %d not' % (len(results), len(results) - len(bad), len(bad)))
    if out:
        json.dump(results, open(out, 'w'), indent=1)
    # stale facts of scratch trees
    cache = os.path.join(VERIF, '.cache')
    return 1 if bad else 0


if __name__ == '__main__':
    sys.exit(main())
