"""C16 — seconds and hertz mean the same at every device sample rate and across changes."""
from ..paths import explore, describe, pretty_place
from ..rules import calls_to, calls_where, order_ok, blocks_of, self_field_of_call
from ..facts import callee_path, is_place, op_local, trace, operand_place

TEXT = ("Coverage rules over the containers that can hold an effect: Renderer::on_change_sample_rate updates dt, the shared rate and the mixer; every field of a struct with on_change_sample_rate that a constructor initialises from the sample rate is recomputed there from the new rate on every path; every effect-holding struct fans each of its rate/initialisation/per-callback methods out to every effect-holding field; every Effect impl whose init depends on the sample rate overrides on_change_sample_rate with the same dependent state; every track-creation site initialises effects with a load of RendererShared.sample_rate before the insert; tracks in flight in the new-resource ring during a rate change must still be told the rate in force. Pitch/duration equalities across rates are value-level and not decided. The new rate is published to the shared state before the mixer fan-out; a pure function of dt kept in a field by process() is refreshed on every pass or reset by on_change_sample_rate. RendererShared is created once, by AudioManager::new; each parameter is updated exactly once per pass. A min / max / clamp / comparison in which the time step takes part is a limit that moves with the device rate: the two that exist (the filters' Nyquist clamps) are listed with their reason, any other is reported. Where on_change_sample_rate replaces a rate-sized buffer, every cursor kept into it is reset too; elapsed time is accumulated in double precision whatever the rate. Only the effects that need rate-sized buffers keep rate-dependent state; an effect is handed the slice of this chunk. The creation site of every track reaches init_effects on every path. The per-frame step handed to a child's process is the caller's own dt (11 sites); a field whose items are themselves effect holders (sub-tracks) is served by the holder's own method, to any depth. What init and on_change_sample_rate store from the sample rate into one field is the same expression.")
TECHNIQUE = 'MIR field-coverage, sibling-method agreement and ordering rules'

FANOUT = ('on_change_sample_rate', 'on_start_processing', 'init_effects', 'init')


def effect_holders(F):
    """Structs that (transitively) hold Box<dyn Effect>: {adt path: [effect-holding field names]}"""
    holders = {}
    changed = True
    while changed:
        changed = False
        for path, a in F.adts.items():
            if a['kind'] != 'Struct' or not path.startswith(('track::', 'backend::resources::mixer', 'effect::', 'backend::renderer', 'backend::resources::Resources')):
                continue
            fs = []
            for f in a['variants'][0]['fields']:
                ty = f['ty']
                if 'dyn effect::Effect' in ty:
                    fs.append(f['name'])
                    continue
                for h in list(holders):
                    # type mentions a holder struct by path (Vec<..>, ResourceStorage<..>, plain)
                    import re
                    if re.search(r'(?<![A-Za-z0-9_:])' + re.escape(h) + r'(?![A-Za-z0-9_])', ty) and 'Handle' not in ty:
                        fs.append(f['name'])
                        break
            if fs and holders.get(path) != fs:
                holders[path] = fs
                changed = True
    return holders


def method_body(F, adt, name):
    b = F.body('%s::%s' % (adt, name))
    if b is not None:
        return b
    return F.body('<%s as effect::Effect>::%s' % (adt, name))


def touched_with_closures(F, b):
    t = set(b.fields_touched())
    for c in F.closures_of(b.path):
        t |= c.fields_touched()
    return t


def run(ctx, R, tier):
    F = ctx.facts('default')
    renderer(F, R)
    cached(F, R)
    cover(F, R)
    pair(F, R)
    init_sites(F, R)
    inflight(F, R)
    dt_rule(F, R)
    dt_handed_on(F, R)
    rate_sized_agree(F, R)
    shared_rate_single(F, R)
    rate_bounds(F, R)
    cursors(F, R)
    # 'every effect processes with the sample rate in force': what an effect is handed is the slice of this chunk (its length
    # times dt is the time that passed), never a longer stored buffer - the C02 buffer-size rules
    from .c02 import ibs as buffer_slices
    buffer_slices(F, R)
    # 'keep their real-time speed' at every rate and buffer size: elapsed time is accumulated in double precision (in single
    # precision the per-step rounding depends on how small the step is, i.e. on the device rate)
    from .c06 import accumulators
    accumulators(F, R, rule='B.C16.accumulate')
    # 'tweens keep their real-time speed' at every rate: each parameter is updated exactly once per pass, by that pass's duration
    from .c06 import cover as parameter_cover
    parameter_cover(F, R)


RATE_BOUNDS = {
    # (owner type, operation): why a bound that moves with the device rate is what the documentation says
    ('effect::filter::Filter', 'clamp'): 'the cutoff relative to the sample rate is kept inside (0, 0.5): no filter can be tuned above Nyquist',
    ('effect::eq_filter::Coefficients', 'clamp'): 'the band frequency relative to the sample rate is kept inside (0, 0.5): no filter can be tuned above Nyquist',
}


def rate_bounds(F, R, rule='B.C16.rate-bound'):
    """'Behaviour specified in hertz / seconds is independent of the device sample rate': the time step `dt` scales a rate
    into a per-step amount (a product); a comparison, `min`, `max` or `clamp` in which `dt` takes part is a bound that moves
    with the device rate.  The two that exist are the Nyquist limits of the two filters (listed with their reason); any
    other - e.g. an LFO frequency capped at 0.5 / dt, i.e. at a fraction of sample rate / internal buffer size - is reported."""
    import re
    n = 0
    has_dt = lambda d: re.search(r'(?<![A-Za-z_.])dt(?![A-Za-z_])', d) is not None
    def owner_ty(b):
        q = b.path.split('::{closure')[0]
        return q[1:].split(' as ')[0] if q.startswith('<') else q.rsplit('::', 1)[0]
    seen = {}
    for b in F.bodies:
        if b.krate != 'kira' or 'dt' not in b.names.values():
            continue
        n += 1
        for bb, t in b.calls():
            nm = (callee_path(t) or '').split('::')[-1]
            if nm in ('min', 'max', 'clamp') and ('<impl f32>' in (callee_path(t) or '') or '<impl f64>' in (callee_path(t) or '')):
                ds = [describe(b, a, depth=8, at=bb) for a in t['args']]
                if any(has_dt(d) for d in ds):
                    seen.setdefault((owner_ty(b), nm), []).append((b, bb, ds))
        for bb, si, s in b.stmts():
            if s['k'] == 'assign' and s['rv']['k'] == 'bin' and s['rv']['op'] in ('Lt', 'Le', 'Gt', 'Ge') and s['lhs'].get('ty') == 'bool':
                ds = [describe(b, s['rv']['a'], depth=8, at=bb), describe(b, s['rv']['b'], depth=8, at=bb)]
                if any(has_dt(d) for d in ds) and not any('len(' in d for d in ds):
                    seen.setdefault((owner_ty(b), 'compare'), []).append((b, bb, ds))
    for key, sites in sorted(seen.items(), key=lambda kv: kv[0]):
        b, bb, ds = sites[0]
        R.check(key in RATE_BOUNDS, rule, '%s|%s' % key, '%s applies %s to a value computed from the time step (%s): a limit that depends on the '
                'device sample rate (and on the internal buffer size where dt spans a buffer)' % (b.path, key[1], ' , '.join(d[:60] for d in ds)),
                detail={'reason': RATE_BOUNDS.get(key), 'sites': len(sites)}, where=b.where(bb))
    R.floor(rule + '.bodies', n, 20)
    R.floor(rule, len([k for k in seen if k in RATE_BOUNDS]), 2)


def renderer(F, R):
    b = F.body('backend::renderer::Renderer::on_change_sample_rate')
    if not R.check(b is not None, 'B.C16.renderer', 'anchor', 'Renderer::on_change_sample_rate not found'):
        return
    rets = b.return_blocks()
    # dt store
    dts = [(bb, s) for bb, si, s in b.stmts() if s['k'] == 'assign' and pretty_place(b, s['lhs']) == '(*self).dt']
    ok = len(dts) == 1 and all(b.dominates(dts[0][0], r) for r in rets)
    d = describe(b, {'k': 'copy', 'pl': dts[0][1]['lhs']}) if False else (pretty_rv(b, dts[0][1]['rv']) if dts else '?')
    ok = ok and d.startswith('Div(1.0, ') and 'sample_rate' in d
    R.check(ok, 'B.C16.renderer', 'dt', 'Renderer::on_change_sample_rate does not set dt = 1/sample_rate on every path (found %s)' % d,
            detail={'dt': d})
    st = [(bb, t) for bb, t in calls_to(b, '::store') if 'sample_rate' in (self_field_of_call(b, t, 0) or '')]
    ok = len(st) == 1 and all(b.dominates(st[0][0], r) for r in rets) and describe(b, st[0][1]['args'][1]) == 'sample_rate'
    R.check(ok, 'B.C16.renderer', 'shared', 'the shared sample rate (read when new tracks are initialised) is not updated with the new rate',
            detail='shared.sample_rate.store(sample_rate)')
    mx = calls_to(b, 'backend::resources::mixer::Mixer::on_change_sample_rate', suffix=False)
    ok = len(mx) == 1 and all(b.dominates(mx[0][0], r) for r in rets) and describe(b, mx[0][1]['args'][1]) == 'sample_rate'
    R.check(ok, 'B.C16.renderer', 'mixer', 'the mixer is not told the new rate', detail='mixer.on_change_sample_rate(sample_rate)')
    if len(st) == 1 and len(mx) == 1:
        # a track created on another thread while the mixer is being told reads the shared rate for its own effects and is
        # not in the mixer yet: it is only right if the new rate was published BEFORE the fan-out started
        from ..rules import order_ok
        R.check(order_ok(b, [st[0][0]], [mx[0][0]]), 'B.C16.renderer', 'publish-first',
                'the shared sample rate is published after the mixer fan-out: a track created during the fan-out initialises its '
                'effects with the old rate and is never told the new one', detail='shared.sample_rate.store ≺ mixer.on_change_sample_rate')
    nb = F.body('backend::renderer::Renderer::new')
    if R.check(nb is not None, 'B.C16.renderer', 'anchor:new', 'Renderer::new not found'):
        ok = False
        d = '?'
        for bb, si, s in nb.stmts():
            if s['k'] == 'assign' and s['rv']['k'] == 'agg' and s['rv'].get('adt') == 'backend::renderer::Renderer':
                i = s['rv']['fields'].index('dt')
                d = describe(nb, s['rv']['ops'][i])
                ok = d.startswith('Div(1.0, ') and '::load(' in d and 'sample_rate' in d
        R.check(ok, 'B.C16.renderer', 'new', 'Renderer::new derives dt from %s, not from the shared sample rate' % d, detail={'dt': d})


def cached(F, R):
    """No value derived from the sample rate is cached across a rate change: for every struct with an inherent
    `on_change_sample_rate`, each field that some constructor initialises from the sample rate is reassigned (or its owner's
    own on_change_sample_rate is called) on every path of that method, from the new rate."""
    from ..paths import describe_rv
    n = 0
    for b in F.bodies:
        if b.krate != 'kira' or not b.path.endswith('::on_change_sample_rate') or b.path.startswith('<') or '{closure' in b.path:
            continue
        adt = b.path.rsplit('::', 1)[0]
        if F.adt(adt) is None:
            continue
        dep = {}
        for o in F.bodies:
            if o.krate != 'kira':
                continue
            for bb, si, st in o.stmts():
                if st['k'] == 'assign' and st['rv']['k'] == 'agg' and st['rv'].get('adt') == adt:
                    for fn, op in zip(st['rv']['fields'], st['rv']['ops']):
                        d = describe(o, op, depth=10, at=bb)
                        if 'sample_rate' in d:
                            dep.setdefault(fn, (o.path, d))
        rets = b.return_blocks()
        for fn, (where, d) in sorted(dep.items()):
            n += 1
            stores = [bb for bb, si, st in b.stmts() if st['k'] == 'assign' and pretty_place(b, st['lhs']) == '(*self).' + fn
                      and 'sample_rate' in describe_rv(b, st['rv'], depth=10, at=bb)]
            deleg = [bb for bb, t in b.calls() if (callee_path(t) or '').endswith('::on_change_sample_rate')
                     and (self_field_of_call(b, t, 0) or '').startswith('(*self).' + fn)]
            sites = stores + deleg
            ok = any(all(b.dominates(x, r) for r in rets) for x in sites)
            R.check(ok, 'B.C16.cached', '%s.%s' % (adt, fn),
                    '%s.%s is initialised from the sample rate (%s, in %s) but %s does not recompute it from the new rate on every '
                    'path: after a device rate change the cached value belongs to the old rate' % (adt, fn, d[:100], where, b.path),
                    detail={'struct': adt, 'field': fn, 'init': d[:140]}, where=b.file)
    R.floor('B.C16.cached', n, 1)
    # ... the same for a value derived from the time step inside process(): a field that receives a pure function of `dt`
    # (no dependence on its own previous value: not an accumulator or a filter state) is a cached coefficient; it is only
    # right across a rate change if it is recomputed on every pass (not under a "has the parameter changed" test) or reset
    # by on_change_sample_rate
    import re
    from ..rules import must_pass
    np_ = 0
    for b in F.bodies:
        if b.krate != 'kira' or not (b.path.endswith(' as effect::Effect>::process') or b.path.endswith(' as sound::Sound>::process')
                                     or b.path.endswith(' as modulator::Modulator>::update')):
            continue
        np_ += 1
        ty = b.path[1:].split(' as ')[0]
        for bb, si, st in b.stmts():
            if st['k'] != 'assign' or not st['lhs']['p'] or not pretty_place(b, st['lhs']).startswith('(*self).'):
                continue
            fld = pretty_place(b, st['lhs'])
            d = describe_rv(b, st['rv'], depth=14, at=bb)
            if not re.search(r'(?<![A-Za-z_.])dt(?![A-Za-z_])', d):
                continue
            base = fld.split('.')[1].split('[')[0]
            if ('(*self).' + base) in d:
                continue        # depends on its own previous value: state, not a cache
            loops = [l for l in b.loops() if bb in l['blocks']]
            if loops:
                l = min(loops, key=lambda l: len(l['blocks']))
                entry = [y for y in b.succ(l['header']) if y in l['blocks']]
                every = must_pass(b, entry, [l['header']], [bb])
            else:
                every = all(b.dominates(bb, r) for r in b.return_blocks())
            oc = F.body('<%s as effect::Effect>::on_change_sample_rate' % ty)
            reset = oc is not None and any(s2['k'] == 'assign' and pretty_place(oc, s2['lhs']).startswith('(*self).' + base) for _, _, s2 in oc.stmts())
            R.check(every or reset, 'B.C16.cached', 'process:%s.%s' % (ty, base),
                    '%s keeps a value derived from the time step (%s) in self.%s and refreshes it only on some passes: after a '
                    'device rate change the stale value belongs to the old rate' % (b.path, d[:100], base),
                    detail={'field': base, 'value': d[:140]}, where=b.where(bb))
    R.floor('B.C16.cached-process-bodies', np_, 10)


def pretty_rv(b, rv):
    from ..paths import describe_rv
    return describe_rv(b, rv)


def rate_sized_agree(F, R, rule='B.C16.pair'):
    """'Delay times keep their values at every rate and across a change of rate': what `init` stores from the sample rate and
    what `on_change_sample_rate` stores from it into the same field are the same expression - a line sized as
    `delay_time x rate` (at least one frame) by both.  A floor, a rounding or a unit that only one of the two applies makes
    the configured time depend on whether the rate was there from the start or arrived later."""
    n = 0
    for im in F.impls:
        if im['trait'] != 'effect::Effect' or im['self_ty'].startswith('std::boxed::Box'):
            continue
        items = {it['name']: it['path'] for it in im['items']}
        bi, bc = F.body(items.get('init', '')), F.body(items.get('on_change_sample_rate', ''))
        if bi is None or bc is None:
            continue

        def stores(b):
            out = {}
            for bb, si, s in b.stmts():
                if s['k'] == 'assign' and s['lhs']['p'] and pretty_place(b, s['lhs']).startswith('(*self).'):
                    d = describe_rv_(b, s, bb)
                    if 'sample_rate' in d:
                        out.setdefault(pretty_place(b, s['lhs']), set()).add(d)
            return out
        si_, sc_ = stores(bi), stores(bc)
        for fld in sorted(set(si_) & set(sc_)):
            n += 1
            R.check(si_[fld] == sc_[fld], rule, '%s|%s|sized-alike' % (im['self_ty'], fld.split('.')[-1]),
                    '%s: init stores %s into %s, on_change_sample_rate stores %s: the same setting gives different behaviour depending on when the rate became known'
                    % (im['self_ty'], sorted(si_[fld])[0][:110], fld, sorted(sc_[fld])[0][:110]), detail={'field': fld}, where=bi.file)
    R.floor(rule + '.sized-alike', n, 1)


def describe_rv_(b, s, bb):
    from ..paths import describe_rv
    return describe_rv(b, s['rv'], depth=8, at=bb)


def dt_handed_on(F, R, rule='B.C16.dt'):
    """'Sounds keep their pitch and duration, clocks and tweens keep their real-time speed': the per-frame time step reaches
    every sound, effect and track unchanged - wherever a mixing function calls `process` of a child (a sub-track, a send
    track, the main track, a sound, an effect) the `dt` it hands on is its own `dt` parameter (Renderer: its `dt` field), not
    the duration of the chunk or any other product."""
    targets = ('track::sub::Track::process', 'track::main::MainTrack::process', 'track::send::SendTrack::process',
               'backend::resources::mixer::Mixer::process', 'sound::Sound::process', 'effect::Effect::process')
    n = 0
    for b in F.bodies:
        if b.krate != 'kira' or not (b.path.startswith(('track::', 'backend::')) or b.path.startswith('<effect::delay::Delay')):
            continue
        own = [nm for l, nm in b.names.items() if 1 <= l <= b.arg_count and nm == 'dt']
        for bb, t in b.calls():
            cp = callee_path(t) or ''
            if cp not in targets:
                continue
            # which argument is the step: the first f64 argument
            di = None
            for i, a in enumerate(t['args']):
                ty = (a.get('ty') or (a.get('pl') or {}).get('ty') or '')
                if ty == 'f64':
                    di = i
                    break
            if di is None:
                continue
            n += 1
            d = describe(b, t['args'][di], depth=5, at=bb)
            good = (own and d == 'dt') or d == '(*self).dt'
            if not good and '::{closure' in b.path and d.replace('(', '').replace(')', '').replace('*', '').endswith('.^dt'):
                # a closure handed to an iterator consumer: its captured `dt` is the owner's own parameter
                ob = F.body(b.path.split('::{closure')[0])
                dts = [l for l, nm in (ob.names.items() if ob is not None else []) if nm == 'dt' and 1 <= l <= ob.arg_count]
                good = len(dts) == 1 and not any(s['k'] == 'assign' and s['lhs']['l'] == dts[0] for _, _, s in ob.stmts())
            R.check(good, rule, 'handed-on:%s->%s' % (b.path.split('::{closure')[0].lstrip('<').split(' as ')[0].split('::')[-2] if '::' in b.path else b.path, cp.split('::')[-2]),
                    '%s hands %s to %s as the per-frame time step, not its own dt: everything below runs at another speed' % (b.path, d[:60], cp),
                    detail={'dt': d[:60]}, where=b.where(bb), nontrivial=False)
    R.floor(rule, n, 9)


def cover(F, R):
    holders = effect_holders(F)
    R.extra['effect_holders'] = {k: v for k, v in sorted(holders.items())}
    n = 0
    nstructs = 0
    for adt, fields in sorted(holders.items()):
        had = False
        for m in FANOUT:
            b = method_body(F, adt, m)
            if b is None:
                continue
            had = True
            n += 1
            touched = touched_with_closures(F, b)
            missing = [f for f in fields if (adt, f) not in touched]
            # ... and on every path: some access to the field dominates every return (no early return skips the fan-out)
            gated = []
            for f in fields:
                if (adt, f) in touched:
                    tb = set(bb for bb, pl, k in b.all_places() if any(pr[0] == 'field' and len(pr) > 3 and pr[3] == adt and pr[2] == f for pr in pl['p']))
                    if tb and not any(all(b.dominates(x, r) for r in b.return_blocks()) for x in tb):
                        gated.append(f)
            # ... and the notification is really passed on: at least one call of the sibling method per holding field
            from ..rules import op_sites
            fam = {'init_effects': ('init', 'init_effects'), 'init': ('init', 'init_effects')}.get(m, (m,))
            fwd = op_sites(F, b, lambda p, t: p.split('::')[-1] in fam)
            from ..rules import op_sites_callees
            fwd_c = op_sites_callees(F, b, lambda p, t: p.split('::')[-1] in fam)
            if not missing and not gated:
                # each holding field is the source of (at least) one forwarding call: the loop / iterator the call sits
                # in was built from that field, or the call's receiver is the field itself
                from .c02 import iter_source, loop_of
                served = set()
                ftys = {fd['name']: fd['ty'] for fd in F.adts[adt]['variants'][0]['fields']}
                for x in fwd:
                    t = b.blocks[x]['term']
                    srcs = [describe(b, t['args'][0], depth=10, at=x)] if t['args'] else []
                    L = loop_of(b, x)
                    if L is not None:
                        srcs.append(iter_source(b, L))
                    cpxs = dict(fwd_c).get(x) or [callee_path(t) or '']
                    for f in fields:
                        # a field whose items are themselves holders (the sub-tracks of a track) is served by the holder's own
                        # method - which fans out in turn, to any depth - not by reaching into the items' effects from here
                        inner = [h for h in holders if h in ftys.get(f, '')]
                        if inner and not any(cpx.startswith(h + '::') for h in holders for cpx in cpxs):
                            continue
                        if any(('.' + f) in sdesc for sdesc in srcs):
                            served.add(f)
                unserved = [f for f in fields if f not in served]
                if unserved:
                    missing = ['%s (no %s call on its items)' % (f, '/'.join(fam)) for f in unserved]
            R.check(not missing and not gated, 'B.C16.cover', '%s::%s' % (adt, m),
                    ('%s::%s does not reach the effect-holding field(s) %s: effects stored there miss this notification' % (adt, m, missing)) if missing else
                    ('%s::%s can return before fanning out to %s: on that path the effects stored there miss this notification' % (adt, m, gated)),
                    detail={'struct': adt, 'method': m, 'fields': fields}, where=b.file)
        if had:
            nstructs += 1
    R.floor('B.C16.cover', n, 14)
    R.floor('B.C16.cover.structs', nstructs, 5)


def rate_dependents(F, b, arg_local=2):
    """What a method does with its sample_rate argument: self fields stored with a value depending on it,
    and kira callees that receive it."""
    tainted = {arg_local}
    changed = True
    while changed:
        changed = False
        for bb, si, s in b.stmts():
            if s['k'] != 'assign' or s['lhs']['p']:
                continue
            if s['lhs']['l'] in tainted:
                continue
            if any(('_%d"' % t) in repr_json(s['rv']) or ("'l': %d," % t) in repr(s['rv']) for t in tainted):
                tainted.add(s['lhs']['l'])
                changed = True
        for bb, t in b.calls():
            if not t['dest']['p'] and t['dest']['l'] not in tainted:
                if any(is_place(a) and a['pl']['l'] in tainted for a in t['args']):
                    tainted.add(t['dest']['l'])
                    changed = True
    fields = set()
    callees = set()
    for bb, si, s in b.stmts():
        if s['k'] == 'assign' and s['lhs']['p']:
            p = pretty_place(b, s['lhs'])
            if p.startswith('(*self).') and any(("'l': %d," % t) in repr(s['rv']) for t in tainted):
                fields.add(p.split('.')[1])
    for bb, t in b.calls():
        if any(is_place(a) and a['pl']['l'] in tainted for a in t['args']):
            cp = callee_path(t) or ''
            c = t.get('callee') or {}
            if c.get('krate') == 'kira' or cp.startswith(('effect::', 'track::')):
                callees.add(cp)
    uses = any(pl['l'] == arg_local for bb, pl, k in b.all_places() if k == 'use')
    return uses, fields, callees


def repr_json(x):
    import json
    return json.dumps(x)


RATE_STATEFUL = {'Delay': 'the delay line is delay_time x sample rate frames long', 'Reverb': 'the comb / all-pass lines are scaled from their 44.1 kHz lengths'}


def pair(F, R):
    impls = [im for im in F.impls if im['trait'] == 'effect::Effect']
    n = 0
    for im in sorted(impls, key=lambda x: x['self_ty']):
        ty = im['self_ty']
        if ty.startswith('std::boxed::Box'):
            continue
        items = {it['name']: it['path'] for it in im['items']}
        n += 1
        ib = F.body(items['init']) if 'init' in items else None
        if ib is None:
            R.ok('B.C16.pair', ty, detail='no init override: effect derives all timing from dt per call')
            continue
        uses, fields, callees = rate_dependents(F, ib)
        # closures inside init (helpers capturing sample_rate) count as uses
        if not uses:
            R.ok('B.C16.pair', ty, detail='init ignores the sample rate')
            continue
        # only the effects that need rate-sized buffers keep rate-dependent state; everything else derives its timing from the
        # `dt` it is handed on every call and is therefore right at any rate, also on a track that was still in the hand-over
        # queue when the rate changed (the recorded finding B.C16.inflight: such a track's effects are never told the new rate)
        R.check(ty.split('::')[-1] in RATE_STATEFUL, 'B.C16.pair', ty + '|rate-state',
                '%s keeps state derived from the sample rate (%s) although it is handed `dt` on every call: on a track created around a '
                'rate change it runs with the old rate (B.C16.inflight)' % (ty, sorted(fields) or sorted(callees)), detail={'rate_stateful': sorted(RATE_STATEFUL)}, where=ib.file, nontrivial=False)
        cb = F.body(items['on_change_sample_rate']) if 'on_change_sample_rate' in items else None
        if cb is None:
            R.bad('B.C16.pair', ty, '%s::init depends on the sample rate (fields %s, callees %s) but the effect does not override '
                  'on_change_sample_rate: after a rate change it keeps buffers sized for the old rate' % (ty, sorted(fields), sorted(callees)),
                  where=ib.file)
            continue
        u2, f2, c2 = rate_dependents(F, cb)
        want_c = set(c.replace('effect::Effect::init', 'effect::Effect::on_change_sample_rate') for c in callees)
        miss_f = fields - f2
        miss_c = want_c - c2
        R.check(u2 and not miss_f and not miss_c, 'B.C16.pair', ty,
                '%s: init derives %s / calls %s from the sample rate, on_change_sample_rate misses %s %s'
                % (ty, sorted(fields), sorted(callees), sorted(miss_f), sorted(miss_c)),
                detail={'effect': ty, 'rate_dependent_fields': sorted(fields), 'callees': sorted(callees)}, where=cb.file)
    R.floor('B.C16.pair', n, 8)


def cursors(F, R, rule='B.C16.cursor'):
    """'Survives a change of that rate mid-stream': where on_change_sample_rate replaces a buffer whose length follows the
    rate, every position kept into that buffer (a read / write cursor: an integer field of the same struct that some method
    combines with the buffer - indexes it, splits it, wraps around its length) is reset there too.  A cursor that survives
    the resize points past the end of a shorter line."""
    import re
    from ..paths import describe_rv
    n = 0
    for cb in F.bodies:
        if cb.krate != 'kira' or not cb.path.endswith('::on_change_sample_rate') or '{closure' in cb.path:
            continue
        ty = cb.path[1:].split(' as ')[0] if cb.path.startswith('<') else cb.path.rsplit('::', 1)[0]
        fields = F.struct_fields(ty) or []
        if not fields:
            continue
        stored = set(pretty_place(cb, s['lhs']).split('.')[1].split('[')[0] for _, _, s in cb.stmts()
                     if s['k'] == 'assign' and s['lhs']['p'] and pretty_place(cb, s['lhs']).startswith('(*self).'))
        stored |= set(pretty_place(cb, t['dest']).split('.')[1].split('[')[0] for _, t in cb.calls()
                      if t.get('dest') and t['dest']['p'] and pretty_place(cb, t['dest']).startswith('(*self).'))
        bufs = [f['name'] for f in fields if f['name'] in stored and ('std::vec::Vec<' in f['ty'] or 'Box<[' in f['ty'] or 'VecDeque<' in f['ty'])]
        ints = [f['name'] for f in fields if f['ty'] in ('usize', 'u32', 'u64', 'isize', 'i32', 'i64')]
        for buf in bufs:
            n += 1
            users = set()
            for b in F.bodies:
                if b.krate != 'kira':
                    continue
                q = b.path.split('::{closure')[0]
                oty = q[1:].split(' as ')[0] if q.startswith('<') else q.rsplit('::', 1)[0]
                if oty != ty:
                    continue
                texts = [describe_rv(b, s['rv'], depth=6, at=bb) + ' ' + pretty_place(b, s['lhs']) for bb, _, s in b.stmts() if s['k'] == 'assign']
                texts += ['%s(%s)' % (callee_path(t), ', '.join(describe(b, a, depth=6, at=bb) for a in t['args'])) for bb, t in b.calls()]
                for tx in texts:
                    if re.search(r'\(\*self\)\.%s(?![A-Za-z_0-9])' % re.escape(buf), tx):
                        for x in ints:
                            if re.search(r'\(\*self\)\.%s(?![A-Za-z_0-9])' % re.escape(x), tx):
                                users.add(x)
            lost = sorted(x for x in users if x not in stored)
            R.check(not lost, rule, '%s.%s' % (ty.split('::')[-1], buf),
                    '%s::on_change_sample_rate replaces `%s` but leaves %s, which %s uses as a position into it, as it was: after a '
                    'rate drop the position lies beyond the end of the shorter buffer' % (ty, buf, lost, ty.split('::')[-1]),
                    detail={'buffer': buf, 'cursors': sorted(users)}, where=cb.file)
    R.floor(rule, n, 1)


def init_sites(F, R):
    n = 0
    for b in F.bodies:
        if b.krate != 'kira':
            continue
        for bb, t in b.calls():
            cp = callee_path(t) or ''
            if not cp.endswith('::init_effects') or cp.split('::')[-2] not in ('Track', 'SendTrack', 'MainTrack'):
                continue
            if b.path.split('::{closure')[0].endswith('::init_effects'):
                continue  # recursive fan-out inside Track::init_effects (argument passed through), also from a closure of it
            n += 1
            key = '%s|%s' % (b.path, cp.split('::')[-2])
            d = describe(b, t['args'][1])
            src_ok = ('::load(' in d and 'sample_rate' in d) or d == 'sample_rate'
            if d == 'sample_rate':
                # Mixer::new(sample_rate): the caller must pass the shared rate
                src_ok = b.path == 'backend::resources::mixer::Mixer::new'
            ins = [x for x, tt in b.calls() if (callee_path(tt) or '').startswith('backend::resources::ResourceController::<T>::insert')]
            ord_ok = True
            if ins:
                ord_ok = all(order_ok(b, [bb], [i]) for i in ins)
            elif b.path != 'backend::resources::mixer::Mixer::new':
                ord_ok = False
            R.check(src_ok and ord_ok, 'B.C16.init', key,
                    '%s initialises effects with %s%s' % (b.path, d, '' if ord_ok else ' and not before handing the track to the audio thread'),
                    detail={'site': b.path, 'rate': d}, where=b.where(bb))
            # ... on every path that goes on to hand the track over: `init` is the only hook that tells an effect the internal
            # buffer size, whatever the rate is (a backend may report its real rate only later, through on_change_sample_rate)
            from ..rules import must_pass_f
            targets = ins if ins else b.return_blocks()
            R.check(must_pass_f(b, targets, [bb]), 'B.C16.init', key + '|every-path',
                    '%s can hand the track over / return without having initialised its effects (the call is skipped on some path)' % b.path,
                    detail={'site': b.path}, where=b.where(bb), nontrivial=False)
    R.floor('B.C16.init', n, 8)
    # every creation path that inserts a Track/SendTrack initialises it first
    for b in F.bodies:
        if b.krate != 'kira':
            continue
        for bb, t in b.calls():
            cp = callee_path(t) or ''
            if cp.startswith('backend::resources::ResourceController::<T>::insert'):
                args = ' '.join((t.get('callee') or {}).get('args', []))
                if args in ('track::sub::Track', 'track::send::SendTrack'):
                    has = [x for x, tt in b.calls() if (callee_path(tt) or '').endswith('::init_effects')]
                    R.check(bool(has) and all(order_ok(b, [h], [bb]) for h in has), 'B.C16.init', 'insert:' + b.path,
                            '%s hands a %s to the audio thread without initialising its effects first' % (b.path, args),
                            detail='init_effects ≺ insert', where=b.where(bb))


def inflight(F, R):
    """A track that sits in the new-resource ring while the rate changes must still receive the rate in force."""
    from .c07 import reach_bodies
    osp, _ = reach_bodies(F, 'backend::renderer::Renderer::on_start_processing')
    rate_root = [r['inst'] for r in F.roots if r['group'] == 'rate' and r.get('inst') is not None]
    rate_set, _ = F.reach_instances(rate_root)
    rate_paths = set(F.instances[i]['path'] for i in rate_set)
    R.check(bool(rate_root), 'B.C16.inflight', 'anchor', 'Renderer::on_change_sample_rate root missing')
    notifies = ('::on_change_sample_rate', '::init_effects')
    adopt_notifies = sorted(p for p in osp if p.endswith(notifies) and p.startswith(('track::', 'effect::', '<')))
    drains_pending = any('rtrb::Consumer' in p and p.endswith('::pop') for p in rate_paths)
    for item in ('track::sub::Track', 'track::send::SendTrack'):
        ok = bool(adopt_notifies) or drains_pending
        R.check(ok, 'B.C16.inflight', item,
                'a %s created before a sample-rate change but still in the new-resource ring during it is adopted by the audio '
                'thread (remove_and_add) without ever being told the new rate: Renderer::on_change_sample_rate reaches only '
                'tracks already in the arena, and nothing on the on_start_processing path re-initialises adopted tracks' % item,
                detail={'adoption_notifies': adopt_notifies, 'rate_change_drains_ring': drains_pending},
                where='crates/kira/src/backend/resources.rs')


def dt_rule(F, R):
    n = 0
    for tr, m in (('effect::Effect', 'process'), ('sound::Sound', 'process')):
        for im in F.impls:
            if im['trait'] != tr or im['self_ty'].startswith('std::boxed::Box'):
                continue
            items = {it['name']: it['path'] for it in im['items']}
            b = F.body(items.get(m, ''))
            if b is None:
                continue
            n += 1
            dtl = [l for l, nm in b.names.items() if nm == 'dt' and 1 <= l <= b.arg_count]
            used = bool(dtl) and any(pl['l'] == dtl[0] for bb, pl, k in b.all_places() if k == 'use')
            loads = [t for bb, t in b.calls() if 'sample_rate' in (self_field_of_call(b, t, 0) or '') and (callee_path(t) or '').endswith('::load')]
            R.check(used and not loads, 'B.C16.dt', im['self_ty'],
                    '%s::process does not take its time step from the dt argument (dt used: %s, reads a shared rate: %s)'
                    % (im['self_ty'], used, bool(loads)), detail={'impl': im['self_ty'], 'uses_dt': used})
    R.floor('B.C16.dt', n, 10)


def shared_rate_single(F, R):
    """The device rate lives in ONE RendererShared: the one AudioManager::new creates and hands to the Renderer.  Handles that
    create child tracks read their rate from a clone of that Arc; a RendererShared built anywhere else is a private copy that
    `Renderer::on_change_sample_rate` never updates."""
    sites = [b.path for b in F.bodies if b.krate == 'kira' for _, t in b.calls() if (callee_path(t) or '') == 'backend::renderer::RendererShared::new']
    R.check(sites and all(s.endswith('manager::AudioManager::<B>::new') for s in sites), 'B.C16.init', 'one-shared',
            'RendererShared::new is called in %s: only AudioManager::new may create the shared rate' % sites, detail={'sites': sites})
