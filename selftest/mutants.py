"""Engine D — single-instance breakages of /repo (applied to scratch copies only).

Each mutant: file (relative to crates/kira/src), the exact text to replace (must occur exactly once), its
replacement, the property whose check must fire and a substring of the violation key it must report.
The variant must still compile (the check's own `cargo check` fails otherwise and the selftest reports it).
`reverse_of` names the fix: commit whose repair the mutant undoes (the rule must fire again)."""

M = []


def m(id, prop, file, old, new, expect, note, tier='quick', reverse_of=None, also=()):
    M.append(dict(id=id, prop=prop, file=file, old=old, new=new, expect=expect, note=note, tier=tier, reverse_of=reverse_of, also=list(also)))


# ---------------------------------------------------------------- C01
m('c01-alloc', 'C01', 'backend/resources/mixer.rs',
  '\t\tself.main_track.process(out, dt, &info);',
  '\t\tlet scratch: Vec<f32> = Vec::with_capacity(out.len());\n\t\tstd::hint::black_box(&scratch);\n\t\tself.main_track.process(out, dt, &info);',
  'A.alloc|backend::resources::mixer::Mixer::process', 'a heap allocation in the mixer on the audio thread')
m('c01-unwrap', 'C01', 'sound/static_sound/sound.rs',
  '\t\tself.resampler.push_frame(frame, self.transport.position);',
  '\t\tlet _first = self.frames.first().unwrap();\n\t\tself.resampler.push_frame(frame, self.transport.position);',
  'A.panic|sound::static_sound::sound::StaticSound::push_frame_to_resampler', 'an unwrap on the audio path (empty sound panics)')
m('c01-sleep', 'C01', 'clock.rs',
  '\t\tself.speed.update(dt, info);\n\t\tif !self.ticking {',
  '\t\tself.speed.update(dt, info);\n\t\tif dt > 1.0 {\n\t\t\tstd::thread::sleep(std::time::Duration::from_millis(1));\n\t\t}\n\t\tif !self.ticking {',
  'A.block|clock::Clock::update', 'a sleep on the audio thread')
m('c01-lock', 'C01', 'backend/renderer.rs',
  '\tpub fn on_start_processing(&mut self) {\n\t\tself.resources.mixer.on_start_processing();',
  '\tpub fn on_start_processing(&mut self) {\n\t\tstatic GATE: std::sync::Mutex<u32> = std::sync::Mutex::new(0);\n\t\tif let Ok(mut g) = GATE.lock() {\n\t\t\t*g += 1;\n\t\t}\n\t\tself.resources.mixer.on_start_processing();',
  'backend::renderer::Renderer::on_start_processing|std::sync::Mutex', 'a mutex taken in the callback')
m('c01-noclamp', 'C01', 'backend/renderer.rs',
  '\t\t\tframe.left = frame.left.clamp(-1.0, 1.0);\n', '', 'B.C01.range', 'left channel no longer clamped')
m('c01-extra-channels', 'C01', 'backend/renderer.rs',
  '\t\t\t\tfor channel in channels.iter_mut().skip(2) {\n\t\t\t\t\t*channel = 0.0;\n\t\t\t\t}\n', '',
  'B.C01.cover', 'channels beyond the second keep stale data')
m('c01-mono-left', 'C01', 'backend/renderer.rs',
  'channels[0] = (frame.left + frame.right) / 2.0;', 'channels[0] = frame.left;', 'B.C01.cover|mono', 'mono output is the left channel only')
m('c01-loop-filter', 'C01', 'sound/transport.rs',
  '\t\t.filter(|(loop_start, loop_end)| loop_end > loop_start)\n', '',
  'A.loop|sound::transport::Transport::increment_position', 'empty loop regions reach the wrap loops again', reverse_of='loop region')
m('c01-loop-filter-ge', 'C01', 'sound/transport.rs',
  '.filter(|(loop_start, loop_end)| loop_end > loop_start)', '.filter(|(loop_start, loop_end)| loop_end >= loop_start)',
  'sound::transport::Transport::', 'the filter lets loop_end == loop_start through (the wrap loops hang, seek_to divides by zero)')
m('c01-backwards-wrap', 'C01', 'sound/transport.rs',
  '\t\t\tif self.position <= loop_start {\n\t\t\t\t// step forwards by as many whole loop lengths as it takes\n\t\t\t\t// to get past the start of the loop region (which can be\n\t\t\t\t// any distance away from the audio)\n\t\t\t\tlet loop_length = loop_end - loop_start;\n\t\t\t\tlet distance = loop_start - self.position;\n\t\t\t\tself.position += (distance / loop_length + 1) * loop_length;\n\t\t\t}',
  '\t\t\twhile self.position <= loop_start {\n\t\t\t\tself.position += loop_end - loop_start;\n\t\t\t}',
  'A.loop|sound::transport::Transport::decrement_position', 'playing backwards wraps one loop length at a time again', reverse_of='played backwards below')
m('c12-queued-ignored', 'C12', 'track/sub.rs',
  '\t\t\tself.shared().is_marked_for_removal()\n\t\t\t\t&& self.sounds.is_empty()\n\t\t\t\t&& !self.sounds.has_pending()',
  '\t\t\tself.shared().is_marked_for_removal() && self.sounds.is_empty()',
  'B.C12.remove|path-predicate', 'a persisting track no longer waits for a sound that is still queued', reverse_of='still queued')
m('c12-queued-child-ignored', 'C12', 'track/sub.rs',
  '\t\tif self.sub_tracks.has_pending()\n\t\t\t|| self\n\t\t\t\t.sub_tracks\n\t\t\t\t.iter()\n\t\t\t\t.any(|(_, sub_track)| !sub_track.should_be_removed())\n\t\t{',
  '\t\tif self\n\t\t\t.sub_tracks\n\t\t\t.iter()\n\t\t\t.any(|(_, sub_track)| !sub_track.should_be_removed())\n\t\t{',
  'B.C12.remove|path-predicate', 'a track no longer waits for a child track that is still queued', reverse_of='still queued')
m('c01-seek-wrap', 'C01', 'sound/transport.rs',
  '\t\t\tif position > self.position {\n\t\t\t\tif position >= loop_end {\n\t\t\t\t\tposition = loop_start + (position - loop_start) % loop_length;\n\t\t\t\t}\n\t\t\t} else if position < loop_start {\n\t\t\t\tlet distance = loop_start - position;\n\t\t\t\tposition = loop_start + (loop_length - distance % loop_length) % loop_length;\n\t\t\t}',
  '\t\t\tif position > self.position {\n\t\t\t\twhile position >= loop_end {\n\t\t\t\t\tposition -= loop_length;\n\t\t\t\t}\n\t\t\t} else {\n\t\t\t\twhile position < loop_start {\n\t\t\t\t\tposition += loop_length;\n\t\t\t\t}\n\t\t\t}',
  'A.loop|sound::transport::Transport::seek_to', 'a seek wraps one loop length at a time again: the trip count is whatever the caller asks for', reverse_of='wraps in one step')
m('c01-delay-zero', 'C01', 'effect/delay.rs',
  '\t\tlet delay_time_frames =\n\t\t\t((self.delay_time.as_secs_f64() * sample_rate as f64) as usize).max(1);\n\t\tself.buffer = vec![Frame::ZERO; delay_time_frames];\n\t\tfor effect',
  '\t\tlet delay_time_frames = (self.delay_time.as_secs_f64() * sample_rate as f64) as usize;\n\t\tself.buffer = vec![Frame::ZERO; delay_time_frames];\n\t\tfor effect',
  'A.panic|<effect::delay::Delay as effect::Effect>::process|core::slice::<impl [T]>::chunks_mut',
  'on_change_sample_rate may shrink the delay line to zero frames', reverse_of='delay shorter')
m('c01-reverb-zero', 'C01', 'effect/reverb.rs',
  '(((buffer_size as f64) * sample_rate_factor) as usize).max(1)', '((buffer_size as f64) * sample_rate_factor) as usize',
  'A.panic|effect::reverb::comb::CombFilter::process', 'zero-length comb filters at low rates', reverse_of='reverb comb')
m('c01-slice-index', 'C01', 'sound/static_sound/data.rs',
  '\tframes.get(index + start).copied()', '\tSome(frames[index + start])',
  'A.panic|sound::static_sound::data::frame_at_index|index', 'unchecked index into the frames', reverse_of='slice reaching')
m('c01-new-index', 'C01', 'track/main.rs',
  '\t\tlet num_frames = out.len();\n\t\tfor (i, frame) in out.iter_mut().enumerate() {',
  '\t\tlet num_frames = out.len();\n\t\tself.temp_buffer[num_frames] = Frame::ZERO;\n\t\tfor (i, frame) in out.iter_mut().enumerate() {',
  'A.panic|track::main::MainTrack::process|index',
  'a second, unguarded index into temp_buffer (count exceeds the table)')
m('c01-drop-sound', 'C01', 'backend/resources.rs',
  '\t\tfor (_, resource) in self.resources.drain_filter(remove_test) {\n\t\t\tself.unused_resource_producer\n\t\t\t\t.push(resource)\n\t\t\t\t.unwrap_or_else(|_| panic!("unused resource producer is full"));\n\t\t}',
  '\t\tfor (_, resource) in self.resources.drain_filter(remove_test) {\n\t\t\tdrop(resource);\n\t\t}',
  'A.free|backend::resources::ResourceStorage::<T>::remove_and_add', 'finished resources are destroyed on the audio thread')

# ---------------------------------------------------------------- C02
m('c02-nofill', 'C02', 'track/sub.rs',
  '\t\t\tfor (summed_out, sound_out) in out.iter_mut().zip(self.temp_buffer.iter().copied()) {\n\t\t\t\t*summed_out += sound_out;\n\t\t\t}\n\t\t\tself.temp_buffer.fill(Frame::ZERO);',
  '\t\t\tfor (summed_out, sound_out) in out.iter_mut().zip(self.temp_buffer.iter().copied()) {\n\t\t\t\t*summed_out += sound_out;\n\t\t\t}',
  'B.C02.hygiene|Track|Sound', 'scratch buffer not cleared between sounds: signal leaks into the next sound')
m('c02-effects-after-volume', 'C02', 'track/main.rs',
  '\t\tfor effect in &mut self.effects {\n\t\t\teffect.process(out, dt, info);\n\t\t}\n\t\tlet num_frames = out.len();\n\t\tfor (i, frame) in out.iter_mut().enumerate() {\n\t\t\tlet time_in_chunk = (i + 1) as f64 / num_frames as f64;\n\t\t\tlet volume = self.volume.interpolated_value(time_in_chunk).as_amplitude();\n\t\t\t*frame *= volume;\n\t\t}',
  '\t\tlet num_frames = out.len();\n\t\tfor (i, frame) in out.iter_mut().enumerate() {\n\t\t\tlet time_in_chunk = (i + 1) as f64 / num_frames as f64;\n\t\t\tlet volume = self.volume.interpolated_value(time_in_chunk).as_amplitude();\n\t\t\t*frame *= volume;\n\t\t}\n\t\tfor effect in &mut self.effects {\n\t\t\teffect.process(out, dt, info);\n\t\t}',
  'B.C02.order-track|MainTrack::process', 'main-track volume applied before the effects')
m('c02-send-prefader', 'C02', 'track/sub.rs',
  '\t\t\tsend_track.add_input(out, volume.value());', '\t\t\tsend_track.add_input(&self.temp_buffer[..out.len()], volume.value());',
  'B.C02.send', 'send fed from the scratch buffer instead of the post-fader output')
m('c02-sends-first', 'C02', 'backend/resources/mixer.rs',
  '\t\tfor (_, track) in &mut self.sub_tracks {\n\t\t\ttrack.process(\n\t\t\t\t&mut self.temp_buffer[..out.len()],\n\t\t\t\tdt,\n\t\t\t\tclocks,\n\t\t\t\tmodulators,\n\t\t\t\tlisteners,\n\t\t\t\tNone,\n\t\t\t\t&mut self.send_tracks,\n\t\t\t);\n\t\t\tfor (summed_out, sound_out) in out.iter_mut().zip(self.temp_buffer.iter().copied()) {\n\t\t\t\t*summed_out += sound_out;\n\t\t\t}\n\t\t\tself.temp_buffer.fill(Frame::ZERO);\n\t\t}\n\t\tlet info = Info::new(',
  '\t\tlet info = Info::new(',
  'B.C02', 'sub-tracks are no longer processed by the mixer')
m('c02-renderer-nofill', 'C02', 'backend/renderer.rs',
  '\t\tself.temp_buffer.fill(Frame::ZERO);\n\t}\n}', '\t}\n}', 'B.C02.hygiene|Renderer|bus', 'the mix bus accumulates across chunks')
m('c02-twice', 'C02', 'track/main.rs',
  '\t\tfor effect in &mut self.effects {\n\t\t\teffect.process(out, dt, info);\n\t\t}\n\t\tlet num_frames = out.len();',
  '\t\tfor effect in &mut self.effects {\n\t\t\teffect.process(out, dt, info);\n\t\t}\n\t\tif let Some(effect) = self.effects.first_mut() {\n\t\t\teffect.process(out, dt, info);\n\t\t}\n\t\tlet num_frames = out.len();',
  'B.C02.once|track::main::MainTrack|effect::Effect::process', 'the first effect is asked twice per chunk')

# ---------------------------------------------------------------- C03
m('c03-resume-after-stop', 'C03', 'playback_state_manager.rs',
  '\tpub fn resume(&mut self, start_time: StartTime, fade_in_tween: Tween) {\n\t\tif let State::Stopped = &self.state {\n\t\t\treturn;\n\t\t}\n',
  '\tpub fn resume(&mut self, start_time: StartTime, fade_in_tween: Tween) {\n',
  'B.SM.extract|resume[Immediate]:Stopped', 'a stopped sound can be resumed (limbo state)')
m('c03-pause-without-fade', 'C03', 'playback_state_manager.rs',
  '\t\t\tState::Pausing => {\n\t\t\t\tif finished {\n\t\t\t\t\tself.state = State::Paused;\n\t\t\t\t\treturn true;\n\t\t\t\t}\n\t\t\t}',
  '\t\t\tState::Pausing => {\n\t\t\t\tself.state = State::Paused;\n\t\t\t\treturn true;\n\t\t\t}',
  'B.SM', 'Pausing becomes Paused without waiting for the fade')
m('c03-pause-target', 'C03', 'playback_state_manager.rs',
  '\t\tself.state = State::Pausing;\n\t\tself.volume_fade\n\t\t\t.set(Value::Fixed(Decibels::SILENCE), fade_out_tween);',
  '\t\tself.state = State::Pausing;\n\t\tself.volume_fade\n\t\t\t.set(Value::Fixed(Decibels(-40.0)), fade_out_tween);',
  'B.SM.consts|pause', 'pausing fades to -40 dB instead of silence')
m('c03-decode-swap', 'C03', 'sound/streaming/sound.rs',
  '\t\t\t3 => PlaybackState::WaitingToResume,\n\t\t\t4 => PlaybackState::Resuming,', '\t\t\t3 => PlaybackState::Resuming,\n\t\t\t4 => PlaybackState::WaitingToResume,',
  'B.SM.decode|sound::streaming::sound::Shared::state', 'streaming handle decodes two states swapped')
m('c03-no-mirror', 'C03', 'sound/static_sound/sound.rs',
  '\tfn stop(&mut self, fade_out_tween: Tween) {\n\t\tself.playback_state_manager.stop(fade_out_tween);\n\t\tself.update_shared_playback_state();\n\t}',
  '\tfn stop(&mut self, fade_out_tween: Tween) {\n\t\tself.playback_state_manager.stop(fade_out_tween);\n\t}',
  'B.SM.mirror|sound::static_sound::sound::StaticSound::stop', 'stop() does not publish Stopping to the handle')
m('c03-paused-advances', 'C03', 'sound/static_sound/sound.rs',
  '\t\tif !self.playback_state_manager.playback_state().is_advancing() {\n\t\t\tout.fill(Frame::ZERO);\n\t\t\treturn;\n\t\t}\n\n\t\t// play back audio',
  '\t\tif !self.playback_state_manager.playback_state().is_advancing() {\n\t\t\tself.update_position();\n\t\t\tout.fill(Frame::ZERO);\n\t\t\treturn;\n\t\t}\n\n\t\t// play back audio',
  'B.C03.gate|static:is_advancing', 'the position advances while paused')
m('c03-is-advancing', 'C03', 'sound.rs',
  '\t\t\tPlaybackState::WaitingToResume => false,', '\t\t\tPlaybackState::WaitingToResume => true,', 'B.C03.adv', 'a sound waiting to resume plays')
m('c03-unload', 'C03', 'track/main.rs',
  'self.sounds.remove_and_add(|sound| sound.finished());', 'self.sounds.remove_and_add(|_sound| false);',
  'B.C03.unload', 'finished sounds are never unloaded from the main track')

# ---------------------------------------------------------------- C05
m('c05-gt', 'C05', 'info.rs', 'if clock_info.ticking && clock_info.time >= time {', 'if clock_info.ticking && clock_info.time > time {',
  'B.C05.when', 'scheduled events start one tick late')
m('c05-not-ticking', 'C05', 'info.rs', 'if clock_info.ticking && clock_info.time >= time {', 'if clock_info.time >= time {',
  'B.C05.when', 'events fire while the clock is paused')
m('c05-order', 'C05', 'backend/renderer.rs',
  '\t\tself.resources.clocks.update(\n\t\t\tself.dt * num_frames as f64,\n\t\t\t&self.resources.modulators,\n\t\t\t&self.resources.listeners,\n\t\t);\n', '',
  'B.C05.order', 'clocks are never advanced')
m('c05-never-later', 'C05', 'info.rs', '\t\t} else {\n\t\t\tWhenToStart::Never\n\t\t}', '\t\t} else {\n\t\t\tWhenToStart::Later\n\t\t}',
  'B.C05', 'a missing clock makes waiting sounds wait forever')
m('c05-tween-later', 'C05', 'parameter.rs', 'info.when_to_start(*clock_time) == WhenToStart::Now', 'info.when_to_start(*clock_time) != WhenToStart::Never',
  'B.C05.tween', 'clock-timed tweens start immediately')

# ---------------------------------------------------------------- C06
m('c06-prev-late', 'C06', 'parameter.rs',
  '\t\tself.previous_raw_value = self.raw_value;\n\t\tif self.stagnant {\n\t\t\treturn false;\n\t\t}',
  '\t\tif self.stagnant {\n\t\t\treturn false;\n\t\t}\n\t\tself.previous_raw_value = self.raw_value;',
  'B.C06', 'a stagnant parameter keeps interpolating from a stale previous value')
m('c06-tweener-gt', 'C06', 'modulator/tweener.rs', 'if *time >= tween.duration.as_secs_f64() {', 'if *time > tween.duration.as_secs_f64() {',
  'B.C06.sib', 'the tweener modulator finishes one update later than parameters')
m('c06-set-from-target', 'C06', 'parameter.rs', '\t\t\tstart: self.value(),', '\t\t\tstart: self.previous_value(),',
  'B.C06.set', 'a new tween starts from the previous chunk\'s value (jump)')
m('c06-finish-keeps-tweening', 'C06', 'parameter.rs',
  '\t\t\t\tself.state = State::Idle { value: *target };\n\t\t\t\treturn true;', '\t\t\t\treturn true;',
  'B.C06.finish', 'a finished tween stays in the Tweening state')

# ---------------------------------------------------------------- C07
m('c07-wrong-writer', 'C07', 'effect/filter/handle.rs',
  '\thandle_param_setters! {',
  '\t/// Sets the resonance of the filter.\n\tpub fn set_resonance_now(&mut self, resonance: f64) {\n\t\tself.command_writers.set_cutoff.write(crate::command::ValueChangeCommand {\n\t\t\ttarget: resonance.into(),\n\t\t\ttween: Default::default(),\n\t\t})\n\t}\n\n\thandle_param_setters! {',
  'NONE', 'an extra setter wired to the cutoff writer (control: no rule should fire; behaviourally a new API)')
m('c07-unread', 'C07', 'sound/static_sound/sound.rs',
  '\t\tif let Some(amount) = self.command_readers.seek_by.read() {\n\t\t\tself.seek_by(amount);\n\t\t}\n', '',
  'B.C07.cover|reader:sound::static_sound::CommandReaders.seek_by', 'seek_by commands are never read')
m('c07-read-in-process', 'C07', 'sound/static_sound/sound.rs',
  '\t\tself.read_commands();\n\t}\n\n\tfn process(&mut self, out: &mut [Frame], dt: f64, info: &Info) {\n',
  '\t}\n\n\tfn process(&mut self, out: &mut [Frame], dt: f64, info: &Info) {\n\t\tself.read_commands();\n',
  'B.C07.cover|reader:sound::static_sound::CommandReaders', 'commands are polled once per internal chunk instead of once per callback')
m('c07-insert-after', 'C07', 'track/sub.rs',
  '\t\tself.sounds.remove_and_add(|sound| sound.finished());\n\t\tfor (_, sound) in &mut self.sounds {\n\t\t\tsound.on_start_processing();\n\t\t}',
  '\t\tfor (_, sound) in &mut self.sounds {\n\t\t\tsound.on_start_processing();\n\t\t}\n\t\tself.sounds.remove_and_add(|sound| sound.finished());',
  'B.C07.first', 'new sounds miss the commands issued before their first callback')
m('c07-read-always', 'C07', 'command.rs',
  '\t\tif self.0.update() {\n\t\t\t*self.0.output_buffer_mut()\n\t\t} else {\n\t\t\tNone\n\t\t}',
  '\t\tself.0.update();\n\t\t*self.0.output_buffer_mut()',
  'B.C07.guard', 'a command is returned on every read (applied again each callback)')
m('c07-once', 'C07', 'backend/renderer.rs',
  '\t\tself.resources.listeners.on_start_processing();\n', '', 'B.C07', 'listener commands are never drained')

# ---------------------------------------------------------------- C08
m('c08-unwrap-limit', 'C08', 'manager.rs',
  '\t\tself.resource_controllers\n\t\t\t.sub_track_controller\n\t\t\t.insert(track)?;\n\t\tOk(handle)\n\t}\n\n\t/// Adds a spatial mixer sub-track.',
  '\t\tself.resource_controllers\n\t\t\t.sub_track_controller\n\t\t\t.insert(track)\n\t\t\t.unwrap();\n\t\tOk(handle)\n\t}\n\n\t/// Adds a spatial mixer sub-track.',
  'B.C08.err', 'add_sub_track panics at the limit instead of returning the error', )
m('c08-no-drop', 'C08', 'listener/handle.rs',
  'impl Drop for ListenerHandle {\n\tfn drop(&mut self) {\n\t\tself.shared.mark_for_removal();\n\t}\n}', '',
  'B.C08.drop', 'dropping a listener handle never frees its slot')
m('c08-no-drain', 'C08', 'backend/resources.rs',
  '\tpub fn insert_with_key(&mut self, key: Key, resource: T) {\n\t\tself.remove_unused();', '\tpub fn insert_with_key(&mut self, key: Key, resource: T) {',
  'B.C08.drain', 'the unused ring is never drained (overflows: panic on the audio thread)')
m('c08-clone-handle', 'C08', 'clock/handle.rs',
  'impl Drop for ClockHandle {',
  'impl Clone for ClockHandle {\n\tfn clone(&self) -> Self {\n\t\tSelf {\n\t\t\tid: self.id,\n\t\t\tshared: self.shared.clone(),\n\t\t\tcommand_writers: super::command_writers_and_readers().0,\n\t\t}\n\t}\n}\n\nimpl Drop for ClockHandle {',
  'W.C08|clock_handle_not_clone', 'a cloned handle removes the clock when the first copy drops', tier='thorough')
m('c08-zero-capacity', 'C08', 'backend/resources.rs',
  '\t\tif self.arena_controller.capacity() == 0 {\n\t\t\treturn Err(ResourceLimitReached);\n\t\t}\n', '',
  'A.creation.panic', 'capacity 0 panics inside atomic_arena instead of returning the limit error', tier='thorough', reverse_of='capacity of zero')
m('c08-stale-index', 'C08', 'info.rs',
  'InfoKind::Real { clocks, .. } => clocks.get(id.0).map(|clock| ClockInfo {',
  'InfoKind::Real { clocks, .. } => clocks.iter().map(|(_, c)| c).next().filter(|_| clocks.get(id.0).is_some()).map(|clock| ClockInfo {',
  'NONE', 'control: still generation-checked')

# ---------------------------------------------------------------- C09
m('c09-time-in-chunk', 'C09', 'sound/streaming/sound.rs',
  '\t\t\tlet time_in_chunk = (i + 1) as f64 / num_frames as f64;\n\t\t\tlet volume = self.volume.interpolated_value(time_in_chunk).as_amplitude();\n\t\t\tlet fade_volume = self\n\t\t\t\t.playback_state_manager',
  '\t\t\tlet time_in_chunk = i as f64 / num_frames as f64;\n\t\t\tlet volume = self.volume.interpolated_value(time_in_chunk).as_amplitude();\n\t\t\tlet fade_volume = self\n\t\t\t\t.playback_state_manager',
  'B.C09.sib|time_in_chunk', 'streaming interpolates parameters one frame behind static sounds')
m('c09-step-before-read', 'C09', 'sound/static_sound/sound.rs',
  '\t\t\tlet resampler_out = self.resampler.get(self.fractional_position as f32);\n\t\t\tself.fractional_position += self.sample_rate as f64 * playback_rate.0.abs() * dt;\n\t\t\twhile self.fractional_position >= 1.0 {\n\t\t\t\tself.fractional_position -= 1.0;\n\t\t\t\tself.update_position();\n\t\t\t}',
  '\t\t\tself.fractional_position += self.sample_rate as f64 * playback_rate.0.abs() * dt;\n\t\t\twhile self.fractional_position >= 1.0 {\n\t\t\t\tself.fractional_position -= 1.0;\n\t\t\t\tself.update_position();\n\t\t\t}\n\t\t\tlet resampler_out = self.resampler.get(self.fractional_position as f32);',
  'B.C09.sib|read_before_step', 'static sounds read the interpolator after stepping (one frame ahead of streaming)')
m('c09-cmd-order', 'C09', 'sound/streaming/sound.rs',
  '\t\tif let Some(tween) = self.command_readers.pause.read() {\n\t\t\tself.pause(tween);\n\t\t}\n\t\tif let Some((start_time, tween)) = self.command_readers.resume.read() {\n\t\t\tself.resume(start_time, tween);\n\t\t}\n\t\tif let Some(tween) = self.command_readers.stop.read() {',
  '\t\tif let Some((start_time, tween)) = self.command_readers.resume.read() {\n\t\t\tself.resume(start_time, tween);\n\t\t}\n\t\tif let Some(tween) = self.command_readers.pause.read() {\n\t\t\tself.pause(tween);\n\t\t}\n\t\tif let Some(tween) = self.command_readers.stop.read() {',
  'B.C09.sib-cmd', 'pause+resume issued in one callback end differently for streaming sounds')

# ---------------------------------------------------------------- C10
m('c10-no-abandon', 'C10', 'sound/streaming/sound/decode_scheduler.rs',
  '\t\tif self.frame_producer.is_abandoned() {\n\t\t\treturn Ok(NextStep::End);\n\t\t}\n', '',
  'B.C10.exit|abandoned', 'rejected/discarded streaming sounds leak their thread', reverse_of='decoder thread ends')
m('c10-err-spin', 'C10', 'sound/streaming/sound/decode_scheduler.rs',
  '\t\t\t\t\t// the sound stops as soon as the audio thread sees the flag;\n\t\t\t\t\t// there is nothing left to decode\n\t\t\t\t\tbreak;\n', '',
  'B.C10.spin|cycle:Err', 'the thread spins after a decode error', reverse_of='decoder thread ends')
m('c10-err-order', 'C10', 'sound/streaming/sound/decode_scheduler.rs',
  '\t\t\t\t\tself.error_producer.push(error).ok();\n\t\t\t\t\tself.shared.encountered_error.store(true, Ordering::SeqCst);',
  '\t\t\t\t\tself.shared.encountered_error.store(true, Ordering::SeqCst);\n\t\t\t\t\tself.error_producer.push(error).ok();',
  'B.C10.err-order', 'the flag is visible before the error can be popped')
m('c10-no-starve-gate', 'C10', 'sound/streaming/sound.rs',
  '\t\tif self.frame_consumer.slots() < 2 && !self.shared.reached_end() {\n\t\t\tout.fill(Frame::ZERO);\n\t\t\treturn;\n\t\t}\n', '',
  'B.C10.starve', 'a slow decoder makes the sound interpolate stale frames')
m('c10-wait-continue', 'C10', 'sound/streaming/sound/decode_scheduler.rs',
  '\t\tif self.frame_producer.is_full() {\n\t\t\treturn Ok(NextStep::Wait);\n\t\t}', '\t\tif self.frame_producer.is_full() {\n\t\t\treturn Ok(NextStep::Continue);\n\t\t}',
  'B.C10.spin', 'a full ring makes the thread spin instead of sleeping')
m('c10-error-keeps-playing', 'C10', 'sound/streaming/sound.rs',
  '\t\tif self.shared.encountered_error() {\n\t\t\tself.playback_state_manager.mark_as_stopped();\n\t\t\tself.update_shared_playback_state();\n\t\t\tout.fill(Frame::ZERO);\n\t\t\treturn;\n\t\t}',
  '\t\tif self.shared.encountered_error() {\n\t\t\tout.fill(Frame::ZERO);\n\t\t\treturn;\n\t\t}',
  'B.C10.err-stop', 'a failed sound is silent but never becomes Stopped (never unloaded)')

# ---------------------------------------------------------------- C12
m('c12-track-stops', 'C12', 'track/sub/builder.rs',
  'playback_state_manager: PlaybackStateManager::new_for_track(),', 'playback_state_manager: PlaybackStateManager::new(None),',
  'B.SM.reach', 'a track can reach Stopped again (TrackHandle::state panics)', reverse_of='track waiting to resume')
m('c12-ignore-children', 'C12', 'track/sub.rs',
  '\t\tif self.sub_tracks.has_pending()\n\t\t\t|| self\n\t\t\t\t.sub_tracks\n\t\t\t\t.iter()\n\t\t\t\t.any(|(_, sub_track)| !sub_track.should_be_removed())\n\t\t{\n\t\t\treturn false;\n\t\t}\n', '',
  'B.C12.remove', 'a track is removed while a descendant is alive')
m('c12-frozen-children', 'C12', 'track/sub.rs',
  '\t\tif !self.playback_state_manager.playback_state().is_advancing() {\n\t\t\tout.fill(Frame::ZERO);\n\t\t\treturn;\n\t\t}\n\n\t\tlet num_frames = out.len();\n\n\t\t// process sub tracks',
  '\t\tlet num_frames = out.len();\n\n\t\t// process sub tracks',
  'B.C12.freeze', 'a paused track keeps processing its subtree')
m('c12-decode', 'C12', 'track.rs', '\t\t\t2 => TrackPlaybackState::Paused,', '\t\t\t2 => TrackPlaybackState::Pausing,',
  'B.C12.decode', 'a paused track reports Pausing')
m('c12-persist', 'C12', 'track/sub.rs',
  'self.shared().is_marked_for_removal()\n\t\t\t\t&& self.sounds.is_empty()', 'self.shared().is_marked_for_removal()\n\t\t\t\t|| self.sounds.is_empty()',
  'B.C12.remove', 'a persistent track disappears as soon as it has no sounds')

# ---------------------------------------------------------------- C13
m('c13-mix-unclamped', 'C13', 'effect/filter.rs',
  'let mix = self.mix.interpolated_value(time_in_chunk).0.clamp(0.0, 1.0);', 'let mix = self.mix.interpolated_value(time_in_chunk).0;',
  'B.C13.mix|effect::filter::Filter', 'mix outside [0,1] gives sqrt of a negative number (NaN)')
m('c13-dry-wrong', 'C13', 'effect/reverb.rs',
  '*frame = output * mix.sqrt() + *frame * (1.0 - mix).sqrt()', '*frame = output * mix.sqrt() + *frame * (1.0 - mix)',
  'B.C13.mix|effect::reverb::Reverb', 'dry term not on the equal-power law of its siblings')
m('c13-cutoff-unclamped', 'C13', 'effect/filter.rs',
  '(cutoff / sample_rate).clamp(0.0001, 0.5)', '(cutoff / sample_rate).max(0.0001)', 'B.C13.clamp|filter:tan', 'cutoff above Nyquist destabilises the filter')
m('c13-drive-nan', 'C13', 'effect/distortion.rs',
  '\t\t\tif drive > 0.0 {\n\t\t\t\toutput /= drive;\n\t\t\t}', '\t\t\toutput /= drive;', 'B.C13.zero-div', 'drive at silence divides 0/0', reverse_of='distortion with a drive')
m('c13-q-zero', 'C13', 'effect/eq_filter.rs', 'let q = q.max(MIN_Q);', 'let q = q;', 'B.C13.clamp|eq:1/q', 'q = 0 divides by zero')

# ---------------------------------------------------------------- A.singular (non-finite sources), C01 / C13 / C15 / C17
m('c01-singular-newdiv', 'C01', 'track/main.rs',
  '\t\tlet num_frames = out.len();\n\t\tfor (i, frame) in out.iter_mut().enumerate() {',
  '\t\tlet num_frames = out.len();\n\t\tlet headroom = 1.0 / self.volume.value().as_amplitude();\n\t\tstd::hint::black_box(headroom);\n\t\tfor (i, frame) in out.iter_mut().enumerate() {',
  'A.singular|track::main::MainTrack|div', 'a new division by an amplitude that is 0.0 at -60 dB')
m('c01-singular-len-outside', 'C01', 'track/send.rs',
  '\t\tlet num_frames = out.len();\n',
  '\t\tlet num_frames = out.len();\n\t\tstd::hint::black_box(1.0 / num_frames as f64);\n',
  'A.singular|track::send::SendTrack|div', 'a division by the chunk length outside the loop over the chunk (0 for an empty chunk)')
m('c13-singular-softclip', 'C13', 'effect/distortion.rs',
  'output.left / (1.0 + output.left.abs()),', 'output.left / (1.0 - output.left.abs()),',
  'A.singular|effect::distortion::Distortion|div', 'soft clip divides by 1 - |x| (zero at full scale)')
m('c13-singular-mix-sqrt', 'C13', 'effect/reverb.rs',
  '(1.0 - mix).sqrt()', '(0.5 - mix).sqrt()',
  'A.singular|effect::reverb::Reverb|sqrt', 'square root of a value that is negative for mix > 0.5')
m('c13-singular-drive', 'C13', 'effect/distortion.rs',
  '\t\t\tif drive > 0.0 {\n\t\t\t\toutput /= drive;\n\t\t\t}', '\t\t\tif drive >= 0.0 {\n\t\t\t\toutput /= drive;\n\t\t\t}',
  'A.singular|effect::distortion::Distortion|div', 'the zero test of the drive lets exactly zero through')
m('c15-singular-range', 'C15', 'track/sub/spatial_builder.rs',
  '\t\tif !(self.min_distance < self.max_distance) {', '\t\tif !(self.min_distance <= self.max_distance) {',
  'A.singular|track::sub::spatial_builder::SpatialTrackDistances|div', 'min == max reaches the division (0/0)')
m('c17-map-empty-range', 'C17', 'value.rs',
  '\t\tlet mut amount = if input_span == 0.0 {', '\t\tlet mut amount = if input_span == 1.0 {',
  'A.singular|value::Mapping::<T>|div', 'the empty-range test no longer protects the division', reverse_of='mapping with an empty input range')
m('c06-tween-value-unguarded', 'C01', 'parameter.rs',
  '\t\t\t\tif tween.duration.is_zero() {\n\t\t\t\t\treturn None;\n\t\t\t\t}\n', '',
  'A.singular|tween::Tween|div', 'a pending zero-duration tween evaluates 0/0 (only pinned by one clock test)')
m('c13-compressor-floor', 'C13', 'effect/compressor.rs',
  '(input - threshold).max(0.0)', '(input - threshold)',
  'A.singular|effect::compressor::Compressor|log', 'the -inf level of a silent sample is no longer floored')

# ---------------------------------------------------------------- B.C13.linear / B.C13.silence (linearity typing)
m('c13-linear-allpass-clip', 'C13', 'effect/reverb/all_pass.rs',
  'let output = -input + buffer_output;', 'let output = (-input + buffer_output).clamp(-4.0, 4.0);',
  'B.C13.linear|Reverb', 'a safety clamp inside the reverb (linear only below the clip level)')
m('c13-linear-filter-square', 'C13', 'effect/filter.rs',
  'let v3 = *frame - self.ic2eq;', 'let v3 = (*frame - self.ic2eq) * (1.0 - self.ic1eq.left * 0.001);',
  'B.C13.linear|Filter', 'a state-dependent gain (signal times signal)')
m('c13-linear-delay-gate', 'C13', 'effect/reverb/comb.rs',
  '\t\tself.buffer[self.current_index] = input + self.filter_store * feedback;',
  '\t\tself.buffer[self.current_index] = if input.abs() < 1.0e-6 { 0.0 } else { input } + self.filter_store * feedback;',
  'B.C13.linear|Reverb', 'a noise gate on the comb input (branch on the signal)')
m('c13-silence-dc', 'C13', 'effect/reverb/all_pass.rs',
  'let output = -input + buffer_output;', 'let output = -input + buffer_output + 1.0e-20;',
  'B.C13.silence|Reverb', 'an anti-denormal offset: silence in, not silence out (also affine, so not linear)')
m('c13-silence-volume', 'C13', 'effect/volume_control.rs',
  '*frame *= ', '*frame = *frame + Frame::from_mono(1.0e-30); *frame *= ',
  'B.C13.silence|VolumeControl', 'a tiny offset before the gain')

# ---------------------------------------------------------------- C15
m('c15-range', 'C15', 'track/sub/spatial_builder.rs',
  '\t\tif !(self.min_distance < self.max_distance) {\n\t\t\treturn if distance < self.min_distance { 0.0 } else { 1.0 };\n\t\t}\n', '',
  'B.C15.range', 'inverted/empty distance ranges panic or give NaN', reverse_of='spatial track distances')
m('c15-no-listener-dry', 'C15', 'track/sub.rs',
  '\t\t\t\t} else {\n\t\t\t\t\t*frame = Frame::ZERO;\n\t\t\t\t}', '\t\t\t\t}', 'B.C15.nolistener', 'a spatial track without a listener plays unattenuated')
m('c15-strength', 'C15', 'track/sub.rs',
  '\t\t\t.interpolated_value(time_in_chunk)\n\t\t\t.clamp(0.0, 1.0);\n\t\tlet min_ear_amplitude', '\t\t\t.interpolated_value(time_in_chunk);\n\t\tlet min_ear_amplitude',
  'B.C15.strength', 'strength above 1 gives negative ear gains')
m('c15-inherit', 'C15', 'track/sub.rs',
  '\t\t\t\tlisteners,\n\t\t\t\tspatial_track_info,\n\t\t\t\tsend_tracks,', '\t\t\t\tlisteners,\n\t\t\t\tparent_spatial_track_info,\n\t\t\t\tsend_tracks,',
  'B.C15.inherit', 'children of a spatial track do not inherit its position')

# ---------------------------------------------------------------- C16
m('c16-skip-sends', 'C16', 'backend/resources/mixer.rs',
  '\t\tfor (_, track) in &mut self.send_tracks {\n\t\t\ttrack.on_change_sample_rate(sample_rate);\n\t\t}\n', '',
  'B.C16.cover|backend::resources::mixer::Mixer::on_change_sample_rate', 'send-track effects miss rate changes')
m('c16-const-rate', 'C16', 'manager.rs',
  '\t\ttrack.init_effects(self.renderer_shared.sample_rate.load(Ordering::SeqCst));\n\t\tself.resource_controllers\n\t\t\t.sub_track_controller\n\t\t\t.insert(track)?;\n\t\tOk(handle)\n\t}\n\n\t/// Adds a spatial mixer sub-track.',
  '\t\ttrack.init_effects(44100);\n\t\tself.resource_controllers\n\t\t\t.sub_track_controller\n\t\t\t.insert(track)?;\n\t\tOk(handle)\n\t}\n\n\t/// Adds a spatial mixer sub-track.',
  'B.C16.init|manager::AudioManager::<B>::add_sub_track', 'new tracks are initialised for 44.1 kHz whatever the device runs at')
m('c16-reverb-no-change', 'C16', 'effect/reverb.rs',
  '\tfn on_change_sample_rate(&mut self, sample_rate: u32) {\n\t\tself.init_filters(sample_rate);\n\t}\n\n', '',
  'B.C16.pair|effect::reverb::Reverb', 'the reverb keeps its filter lengths after a rate change')
m('c16-renderer-dt', 'C16', 'backend/renderer.rs',
  '\t\tself.dt = 1.0 / sample_rate as f64;\n\t\tself.shared.sample_rate.store', '\t\tself.shared.sample_rate.store',
  'B.C16.renderer|dt', 'dt keeps the old rate: everything runs at the wrong speed')
m('c16-delay-nested', 'C16', 'effect/delay.rs',
  '\t\tself.buffer = vec![Frame::ZERO; delay_time_frames];\n\t\tfor effect in &mut self.feedback_effects {\n\t\t\teffect.on_change_sample_rate(sample_rate);\n\t\t}',
  '\t\tself.buffer = vec![Frame::ZERO; delay_time_frames];',
  'B.C16', 'feedback effects of a delay miss rate changes')

# ---------------------------------------------------------------- C17
m('c17-mod-after-clocks', 'C17', 'backend/renderer.rs',
  '\t\tself.resources.modulators.process(\n\t\t\tself.dt * num_frames as f64,\n\t\t\t&self.resources.clocks,\n\t\t\t&self.resources.listeners,\n\t\t);\n\t\tself.resources.clocks.update(\n\t\t\tself.dt * num_frames as f64,\n\t\t\t&self.resources.modulators,\n\t\t\t&self.resources.listeners,\n\t\t);',
  '\t\tself.resources.clocks.update(\n\t\t\tself.dt * num_frames as f64,\n\t\t\t&self.resources.modulators,\n\t\t\t&self.resources.listeners,\n\t\t);\n\t\tself.resources.modulators.process(\n\t\t\tself.dt * num_frames as f64,\n\t\t\t&self.resources.clocks,\n\t\t\t&self.resources.listeners,\n\t\t);',
  'B.C05.order', 'clock speeds linked to a modulator lag one chunk')
m('c17-ease-before-clamp', 'C17', 'value.rs',
  '\t\tamount = amount.clamp(0.0, 1.0);\n\t\tamount = self.easing.apply(amount);', '\t\tamount = self.easing.apply(amount);\n\t\tamount = amount.clamp(0.0, 1.0);',
  'B.C17.map', 'out-of-range modulator values are eased before being clamped')
m('c17-stale-key', 'C17', 'backend/resources.rs',
  '\t\t\t\tself.keys.remove(i);\n\t\t\t} else {\n\t\t\t\ti += 1;\n\t\t\t}', '\t\t\t\ti += 1;\n\t\t\t} else {\n\t\t\t\ti += 1;\n\t\t\t}',
  'B.C17.once|keys-remove', 'removed modulators keep their key (index panic on the next update)')
m('c17-no-hold', 'C17', 'parameter.rs',
  '\t\tif let Some(raw_value) = self.calculate_new_raw_value(info) {\n\t\t\tself.raw_value = raw_value;\n\t\t}',
  '\t\tself.raw_value = self.calculate_new_raw_value(info).unwrap_or(self.previous_raw_value);',
  'B.C06.prev|hold', 'a parameter whose modulator is gone falls back instead of holding (C17 hold is checked through C06.prev)', )

# ---------------------------------------------------------------- C18
m('c18-unwrap-track', 'C18', 'sound/streaming/decoder/symphonia.rs',
  '\t\t\t.default_track()\n\t\t\t.ok_or(FromFileError::NoDefaultTrack)?;', '\t\t\t.default_track()\n\t\t\t.unwrap();',
  'B.C18.err', 'a file without a default track panics')
m('c18-channels', 'C18', 'sound/symphonia.rs',
  '\t\t_ => Err(FromFileError::UnsupportedChannelConfiguration),',
  '\t\t_ => Ok(buffer\n\t\t\t.chan(0)\n\t\t\t.iter()\n\t\t\t.zip(buffer.chan(1).iter())\n\t\t\t.map(|(left, right)| Frame::new((*left).into_sample(), (*right).into_sample()))\n\t\t\t.collect()),',
  'B.C18.chan', 'surround files are silently truncated to two channels (and 0-channel files index a missing channel)')
m('c18-swallow', 'C18', 'sound/static_sound/data/from_file.rs',
  '\t\t\t\t\terror => return Err(error.into()),', '\t\t\t\t\t_error => continue,', 'B.C18.eof', 'decode errors are skipped (hang on a broken file)')

# ---------------------------------------------------------------- C19
m('c19-sub', 'C19', 'clock/time.rs', '\t\t\tticks: self.ticks.saturating_sub(ticks),', '\t\t\tticks: self.ticks - ticks,', 'B.C19.sub', 'tick subtraction wraps', reverse_of='ClockTime - u64')
m('c19-frac-floor', 'C19', 'clock/time.rs', '\t\tlet fraction = ((self.fraction - ticks).fract() + 1.0) % 1.0;',
  '\t\tlet difference = self.fraction - ticks;\n\t\tlet fraction = difference - difference.floor();', 'B.C19.frac',
  'x - x.floor() is 1.0 for a tiny negative x (and the interval domain cannot bound it)')
m('c19-frac-add', 'C19', 'clock/time.rs', '\t\tlet fraction = (self.fraction + ticks).fract();',
  '\t\tlet fraction = (self.fraction + ticks) % 1.0 + 0.0;\n\t\tlet fraction = if ticks > 1.0 { fraction + f64::EPSILON } else { fraction };', 'B.C19.frac',
  'the sum of a fraction and an epsilon can reach 1.0')
m('ctrl-c19-frac', 'C19', 'clock/time.rs', '\t\tlet fraction = ((self.fraction - ticks).fract() + 1.0) % 1.0;',
  '\t\tlet difference = self.fraction - ticks;\n\t\tlet wrapped = difference.fract() + 1.0;\n\t\tlet fraction = wrapped % 1.0;', 'NONE',
  'the same expression through locals')
m('c19-frac-ctor', 'C19', 'clock/time.rs', '\t\t// a clock time cannot be negative (and the fraction must stay in 0..1)\n\t\tlet ticks = ticks.max(0.0);\n', '',
  'B.C19.frac|ctor', 'from_ticks_f64 without the clamp: a negative amount gives a negative fraction', reverse_of='from_ticks_f64(-0.25)')
m('c19-silence', 'C19', 'decibels.rs', '\t\tif self <= Self::SILENCE {\n\t\t\treturn 0.0;\n\t\t}\n', '', 'B.C19.db', '-60 dB is no longer exact silence')
m('c19-center', 'C19', 'frame.rs', '\t\tif panning == Panning::CENTER {\n\t\t\treturn self;\n\t\t}\n', '', 'B.C19.pan', 'centre panning no longer returns the frame untouched')
m('c19-cmp', 'C19', 'clock/time.rs', '\t\tif self.clock != other.clock {\n\t\t\treturn None;\n\t\t}\n', '', 'B.C19.cmp', 'times of different clocks compare as ordered')


# ---------------------------------------------------------------- controls: behaviour-preserving edits, no rule may fire
m('ctrl-lines', 'C01', 'backend/renderer.rs', '\tfn process_chunk(&mut self, chunk: &mut [f32], num_channels: u16) {',
  '\t// (moved)\n\n\n\tfn process_chunk(&mut self, chunk: &mut [f32], num_channels: u16) {', 'NONE', 'line numbers shift')
m('ctrl-rename', 'C09', 'sound/static_sound/sound.rs', '\t\tlet num_frames = out.len();\n\t\tfor (i, frame) in out.iter_mut().enumerate() {\n\t\t\tlet time_in_chunk = (i + 1) as f64 / num_frames as f64;',
  '\t\tlet total = out.len();\n\t\tfor (i, frame) in out.iter_mut().enumerate() {\n\t\t\tlet time_in_chunk = (i + 1) as f64 / total as f64;', 'NONE', 'a local is renamed')
m('ctrl-swap-independent', 'C02', 'track/sub.rs',
  '\t\tself.volume.update(dt * out.len() as f64, &info);\n\t\tfor (_, route) in &mut self.sends {\n\t\t\troute.volume.update(dt * out.len() as f64, &info);\n\t\t}',
  '\t\tfor (_, route) in &mut self.sends {\n\t\t\troute.volume.update(dt * out.len() as f64, &info);\n\t\t}\n\t\tself.volume.update(dt * out.len() as f64, &info);', 'NONE', 'two independent parameter updates swapped')
m('ctrl-c03-rename', 'C03', 'playback_state_manager.rs', 'let finished = self.volume_fade.update(dt, info);\n\t\tmatch &mut self.state {\n\t\t\tState::Playing => {}\n\t\t\tState::Pausing => {\n\t\t\t\tif finished {',
  'let fade_done = self.volume_fade.update(dt, info);\n\t\tlet finished = fade_done;\n\t\tmatch &mut self.state {\n\t\t\tState::Playing => {}\n\t\t\tState::Pausing => {\n\t\t\t\tif finished {', 'NONE', 'the fade result goes through one more local')
m('ctrl-c12-helper', 'C12', 'track/sub.rs', '\t\t\tself.shared().is_marked_for_removal()\n\t\t}\n\t}', '\t\t\tlet marked = self.shared().is_marked_for_removal();\n\t\t\tmarked\n\t\t}\n\t}', 'NONE', 'result bound to a local before returning')
m('ctrl-c07-order', 'C07', 'sound/static_sound/sound.rs',
  '\t\tif let Some(amount) = self.command_readers.seek_by.read() {\n\t\t\tself.seek_by(amount);\n\t\t}\n\t\tif let Some(position) = self.command_readers.seek_to.read() {\n\t\t\tself.seek_to(position);\n\t\t}',
  '\t\tlet seek_by = self.command_readers.seek_by.read();\n\t\tif let Some(amount) = seek_by {\n\t\t\tself.seek_by(amount);\n\t\t}\n\t\tlet seek_to = self.command_readers.seek_to.read();\n\t\tif let Some(position) = seek_to {\n\t\t\tself.seek_to(position);\n\t\t}', 'NONE', 'read results bound to locals first')

m('ctrl-rename-mirror', 'C03', 'sound/static_sound/sound.rs', 'update_shared_playback_state', 'publish_playback_state', 'NONE', 'a private helper is renamed (all occurrences)', )
m('ctrl-rename-readcmds', 'C09', 'sound/streaming/sound.rs', 'read_commands(', 'poll_commands(', 'NONE', 'a private helper is renamed (all occurrences)')
m('ctrl-match-read', 'C07', 'clock.rs',
  '\t\tif let Some(ticking) = self.command_readers.set_ticking.read() {\n\t\t\tself.set_ticking(ticking);\n\t\t}',
  '\t\tmatch self.command_readers.set_ticking.read() {\n\t\t\tSome(ticking) => self.set_ticking(ticking),\n\t\t\tNone => {}\n\t\t}', 'NONE', 'if-let rewritten as match')
m('ctrl-zip-ref', 'C02', 'track/main.rs',
  'for (summed_out, sound_out) in out.iter_mut().zip(self.temp_buffer.iter().copied()) {\n\t\t\t\t*summed_out += sound_out;',
  'for (summed_out, sound_out) in out.iter_mut().zip(self.temp_buffer.iter()) {\n\t\t\t\t*summed_out += *sound_out;', 'NONE', 'zip over references instead of copied()')
m('ctrl-silence-helper', 'C03', 'sound/streaming/sound.rs',
  '\t\tif !self.playback_state_manager.playback_state().is_advancing() {\n\t\t\tout.fill(Frame::ZERO);\n\t\t\treturn;\n\t\t}',
  '\t\tif !self.playback_state_manager.playback_state().is_advancing() {\n\t\t\tfor frame in out.iter_mut() {\n\t\t\t\t*frame = Frame::ZERO;\n\t\t\t}\n\t\t\treturn;\n\t\t}', 'NONE', 'fill rewritten as an explicit loop (behaviour-preserving, other idiom)')

m('ctrl-rename-pc', 'C01', 'backend/renderer.rs', 'process_chunk', 'render_chunk', 'NONE', 'a private method is renamed (all occurrences)')
m('ctrl-rename-fld', 'C02', 'track/main.rs', 'temp_buffer', 'scratch', 'NONE', 'a private field is renamed (all occurrences)', also=[('track/main/builder.rs', 'temp_buffer', 'scratch')])
m('ctrl-rename-psm', 'C03', 'playback_state_manager.rs', 'volume_fade', 'fade', 'NONE', 'a private field is renamed (all occurrences)')
