"""A small abstract interpreter over value descriptions (Engine B): closed/open real intervals with IEEE-754 aware
transfer functions.  It is deliberately conservative about rounding: a sum or difference may round onto a bound the real
result excludes (0.99999999999999994 + 1.0 == 2.0), so Add/Sub/Mul results always have closed bounds; `fract`, `%`
(fmod) and `trunc`/`floor`/`ceil` are exact operations and keep open bounds; `rem_euclid(x, d)` is documented to return
`d` itself for a tiny negative x, so its upper bound is closed.  NaN and infinities are outside the domain (the properties
quantify over finite arguments)."""
import math
from .paths import parse_term

INF = float('inf')


class Iv:
    __slots__ = ('lo', 'hi', 'lo_open', 'hi_open')

    def __init__(self, lo, hi, lo_open=False, hi_open=False):
        self.lo, self.hi = lo, hi
        self.lo_open = lo_open or lo == -INF
        self.hi_open = hi_open or hi == INF

    def __repr__(self):
        return '%s%s, %s%s' % ('(' if self.lo_open else '[', self.lo, self.hi, ')' if self.hi_open else ']')

    def within(self, o):
        lo_ok = self.lo > o.lo or (self.lo == o.lo and (self.lo_open or not o.lo_open))
        hi_ok = self.hi < o.hi or (self.hi == o.hi and (self.hi_open or not o.hi_open))
        return lo_ok and hi_ok

    def nonneg(self):
        return self.lo >= 0

    def nonpos(self):
        return self.hi <= 0


TOP = Iv(-INF, INF)


def _lit(s):
    s = s.strip()
    if s.startswith('const '):
        s = s[6:]
    for suf in ('_f64', '_f32', 'f64', 'f32', '_usize', '_u64', '_i32'):
        if s.endswith(suf) and len(s) > len(suf):
            s = s[:-len(suf)]
            break
    try:
        v = float(s)
    except ValueError:
        return None
    if math.isnan(v) or math.isinf(v):
        return None
    return v


def evaluate(d, env=None, field_inv=None):
    """Interval of the value described by `d`.  env: {description string: Iv} facts established on the path;
    field_inv: {field suffix: Iv} inductive invariants of struct fields read (e.g. '.fraction' -> [0,1))."""
    env = env or {}
    field_inv = field_inv or {}
    d = d.strip()
    if d in env:
        return env[d]
    v = _lit(d)
    if v is not None:
        return Iv(v, v)
    name, args = parse_term(d)
    if args is None:
        for suf, iv in field_inv.items():
            if d.endswith(suf):
                return iv
        return TOP
    a = [evaluate(x, env, field_inv) for x in args]
    short = name.split('::')[-1]
    if name in ('Add', 'AddUnchecked') and len(a) == 2:
        return Iv(a[0].lo + a[1].lo, a[0].hi + a[1].hi)
    if name in ('Sub', 'SubUnchecked') and len(a) == 2:
        return Iv(a[0].lo - a[1].hi, a[0].hi - a[1].lo)
    if name == 'Neg' and len(a) == 1:
        return Iv(-a[0].hi, -a[0].lo, a[0].hi_open, a[0].lo_open)
    if name == 'Mul' and len(a) == 2:
        c = []
        for x in (a[0].lo, a[0].hi):
            for y in (a[1].lo, a[1].hi):
                c.append(0.0 if (x == 0 or y == 0) else x * y)
        return Iv(min(c), max(c))
    if name == 'Rem' and len(a) == 2:
        dv = a[1]
        if dv.lo == dv.hi and dv.lo > 0:
            if a[0].nonneg():
                return Iv(0.0, min(dv.lo, a[0].hi) if a[0].hi < dv.lo else dv.lo, False, not (a[0].hi < dv.lo and not a[0].hi_open))
            if a[0].nonpos():
                return Iv(-dv.lo, 0.0, True, False)
            return Iv(-dv.lo, dv.lo, True, True)
        return TOP
    if 'f64' in name or 'f32' in name:
        if short == 'fract' and len(a) == 1:
            if a[0].nonneg():
                return Iv(0.0, 1.0, False, True)
            if a[0].nonpos():
                return Iv(-1.0, 0.0, True, False)
            return Iv(-1.0, 1.0, True, True)
        if short == 'rem_euclid' and len(a) == 2 and a[1].lo == a[1].hi and a[1].lo > 0:
            return Iv(0.0, a[1].lo)  # closed: documented to return rhs for a tiny negative lhs
        if short == 'abs' and len(a) == 1:
            lo = 0.0 if a[0].lo <= 0 <= a[0].hi else min(abs(a[0].lo), abs(a[0].hi))
            return Iv(lo, max(abs(a[0].lo), abs(a[0].hi)))
        if short == 'clamp' and len(a) == 3 and a[1].lo == a[1].hi and a[2].lo == a[2].hi:
            return Iv(max(a[0].lo, a[1].lo), min(a[0].hi, a[2].lo)) if a[0].lo != -INF or a[0].hi != INF else Iv(a[1].lo, a[2].lo)
        if short == 'min' and len(a) == 2:
            return Iv(min(a[0].lo, a[1].lo), min(a[0].hi, a[1].hi))
        if short == 'max' and len(a) == 2:
            return Iv(max(a[0].lo, a[1].lo), max(a[0].hi, a[1].hi))
        if short in ('trunc', 'floor', 'ceil', 'round') and len(a) == 1:
            lo = a[0].lo if a[0].lo == -INF else math.floor(a[0].lo)
            hi = a[0].hi if a[0].hi == INF else math.ceil(a[0].hi)
            return Iv(lo, hi)
        if short == 'sqrt' and len(a) == 1 and a[0].nonneg():
            return Iv(math.sqrt(a[0].lo), math.sqrt(a[0].hi) if a[0].hi != INF else INF)
    return TOP


def path_env(decisions):
    """Facts about described values established by the branch decisions of a path."""
    from .paths import bool_label
    env = {}
    for bb, desc, lab in decisions:
        v = bool_label(lab)
        if v is None:
            continue
        name, args = parse_term(desc)
        if not args:
            continue
        short = name.split('::')[-1]
        if short == 'is_sign_negative' and len(args) == 1:
            env[args[0]] = Iv(-INF, 0.0) if v else Iv(0.0, INF)
        elif short == 'is_sign_positive' and len(args) == 1:
            env[args[0]] = Iv(0.0, INF) if v else Iv(-INF, 0.0)
        elif name in ('Lt', 'Le', 'Gt', 'Ge') and len(args) == 2:
            c = _lit(args[1])
            if c is None:
                continue
            op = name if v else {'Lt': 'Ge', 'Le': 'Gt', 'Gt': 'Le', 'Ge': 'Lt'}[name]
            env[args[0]] = {'Lt': Iv(-INF, c, True, True), 'Le': Iv(-INF, c), 'Gt': Iv(c, INF, True, True), 'Ge': Iv(c, INF)}[op]
    return env
