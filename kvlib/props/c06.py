"""C06 — tweens start on time, end exactly on target, never jump (structural clauses)."""
from ..paths import parse_term, explore, describe, bool_label, pretty_place, describe_rv
from ..rules import calls_to, calls_where, order_ok, blocks_of
from ..facts import callee_path, is_place, op_local

TEXT = ("Parameter::update copies raw_value to previous_raw_value first, dominating every other store; the finish edge of update_tween (time >= duration) leaves Idle{value: *target} and Idle yields the target's raw value unmodified; Parameter::set starts from the current value with time 0 and clears stagnant; stagnant is only set on the finish edge for fixed targets; Parameter::update_tween and Tweener::update (two hand-maintained copies) agree on start-time handling, time accumulation and the finish comparison. Interpolation values and easing curves are not decided. Every Parameter field is updated per chunk and receives its command reader; clock start times are due exactly when Info::when_to_start says so. No exit of a per-chunk function skips a time-keeping update unless the owner was just stopped; modulators, clocks and listeners advance by dt times the frames of this chunk. Each parameter has one update site per function and all time-keeping of a pass advances by the same duration; interpolated_value interpolates from the previous value on every path; Parameter::new falls back to the default of its own setting; a Duration is interpolated through signed seconds; both copies of the tween-timing logic test the delay before they subtract. A field that keeps a value derived from a Parameter of the same object is recomputed after every update of that parameter on every path (all Parameter::update sites are instances); Parameter::update recomputes the raw value on every path on which the parameter is not stagnant. Every running sum of the time step is an f64; per-frame reads are given index / length of the slice being processed; per-chunk time-keeping advances by dt times the length of the slice (or the function's own dt). The stagnant flag has no writer other than the finish edge for fixed targets, set and the constructor; a tweening parameter's value is the interpolation from its start value towards its target (or held). resume(tween) hands on StartTime::Immediate (the tween's own start time is honoured once, by the fade); new sounds are picked up before the callback's command poll. Tweenable::interpolate of f32 / f64 / Vec3 is a + (b - a) x amount and of the unit newtypes the blend of the wrapped numbers as they are (endpoints are not clamped); the gain stages that ramp a volume across the chunk lie on every path of their mixing function. What the tween-advancing function carries from one update to the next (elapsed time, a started latch) lives in the Tweening state or is written by set on every path; clock speeds of different units blend in the target's unit. Every Parameter::new in a constructor is given the configured value as it is (47 sites) and a new parameter is stagnant exactly when that value is fixed; ClockTime::from_ticks_f64 clamps before it splits.")
TECHNIQUE = 'MIR dominance / path-predicate / sibling-agreement rules'

P = 'parameter::Parameter::<T>'
TW = '<modulator::tweener::Tweener as modulator::Modulator>::update'


PVAL = r'parameter::Parameter::<[^>]*>::(?:value|interpolated_value|previous_value)\(&?((?:\(\*+[A-Za-z_0-9.]+\)|[A-Za-z_][A-Za-z_0-9]*)(?:\.[A-Za-z_0-9]+)*)\.([A-Za-z_][A-Za-z_0-9]*)[,)]'


def param_cache(F, R, rule='B.C06.param-cache', fn_filter=None, floor=30):
    """A parameter's value is read where it is used.  Where a field keeps a value derived from a Parameter of the same
    object (a converted speed, an amplitude, a coefficient) and not from its own previous value (that is state: a phase,
    a filter memory), the field is a cache of the parameter and has to follow it: every `update` of that parameter is
    followed, on every path to the function's return, by a store that recomputes the field from the parameter.  A cache
    refreshed only when `update` reports a finished tween, or only when commands are read, is stale while the parameter
    moves (a tween in progress, a modulator link) - the value used is not the one the tween has."""
    import re
    from ..paths import describe_rv
    from ..rules import must_pass
    caches = {}      # (base type path, field, param) -> [(body, bb)]
    def owner_ty(b):
        q = b.path.split('::{closure')[0]
        if q.startswith('<'):
            return q[1:].split(' as ')[0]
        return q.rsplit('::', 1)[0]
    def note(b, bb, base, fld, d):
        for m in re.finditer(PVAL, d):
            pbase, par = m.group(1), m.group(2)
            if pbase != base or par == fld:
                continue
            if ('%s.%s' % (base, fld)) in d:
                continue          # depends on its own previous value: state, not a cache
            caches.setdefault((owner_ty(b), base, fld, par), []).append((b, bb))
    for b in F.bodies:
        if b.krate != 'kira' or (fn_filter is not None and not fn_filter(b.path)):
            continue
        for bb, si, st in b.stmts():
            if st['k'] != 'assign' or not st['lhs']['p']:
                continue
            pl = pretty_place(b, st['lhs'])
            if '.' not in pl:
                continue
            base, fld = pl.rsplit('.', 1)
            if not re.match(r'^[A-Za-z_][A-Za-z_0-9]*$', fld):
                continue
            note(b, bb, base, fld, describe_rv(b, st['rv'], depth=14, at=bb))
        for bb, t in b.calls():
            dest = t.get('dest')
            if dest and dest['p']:
                pl = pretty_place(b, dest)
                if '.' in pl:
                    base, fld = pl.rsplit('.', 1)
                    if re.match(r'^[A-Za-z_][A-Za-z_0-9]*$', fld):
                        note(b, bb, base, fld, '%s(%s)' % (callee_path(t), ', '.join(describe(b, a, depth=12, at=bb) for a in t['args'])))
    n = 0
    # every update of a parameter, in any method of the type that caches a value of it, is followed by a refresh
    for b in F.bodies:
        if b.krate != 'kira' or '{closure' in b.path or (fn_filter is not None and not fn_filter(b.path)):
            continue
        for u, t in b.calls():
            if (callee_path(t) or '') != 'parameter::Parameter::<T>::update':
                continue
            recv = describe(b, t['args'][0], depth=4, at=u).lstrip('&').replace('mut ', '')
            if '.' not in recv:
                continue
            rbase, par = recv.rsplit('.', 1)
            n += 1
            mine = [(k, sites) for k, sites in caches.items() if k[0] == owner_ty(b) and k[3] == par and (k[1] == rbase or k[1].startswith('(*'))]
            if not mine:
                R.ok(rule, '%s.%s|%s' % (owner_ty(b).split('::')[-1], par, b.path.split('::')[-1]), detail={'parameter': par, 'caches': 0}, nontrivial=False)
                continue
            for (ty, base, fld, _), sites in mine:
                ref = [bb for (sb, bb) in sites if sb is b]
                good = bool(ref) and must_pass(b, [u], b.return_blocks(), ref)
                R.check(good, rule, '%s.%s<-%s|%s' % (ty.split('::')[-1], fld, par, b.path.split('::')[-1]),
                        '%s keeps a value derived from its parameter `%s` in `%s` (set in %s), but %s updates the parameter without '
                        'recomputing it on every path: while the parameter moves, the stale value is used'
                        % (ty, par, fld, ', '.join(sorted(set(sb.path.split('::')[-1] for sb, _ in sites))), b.path),
                        detail={'type': ty, 'cache': fld, 'parameter': par}, where=b.where(u))
    # aggregates: a constructor that fills a field from the value of the parameter it also stores
    for b in F.bodies:
        if b.krate != 'kira' or (fn_filter is not None and not fn_filter(b.path)):
            continue
        for bb, si, st in b.stmts():
            if st['k'] != 'assign' or st['rv']['k'] != 'agg' or not st['rv'].get('adt') or not st['rv'].get('fields'):
                continue
            adt = st['rv']['adt']
            ops = dict(zip(st['rv']['fields'], st['rv']['ops']))
            pfields = {}
            for fn_, op in ops.items():
                if 'parameter::Parameter<' in (op.get('pl', {}).get('ty') or op.get('ty') or ''):
                    pfields[describe(b, op, depth=1, at=bb)] = fn_
            for fn_, op in ops.items():
                d = describe(b, op, depth=12, at=bb)
                for m in re.finditer(PVAL.replace('[,)]', '[,)]'), d):
                    src = (m.group(1) + '.' + m.group(2))
                    if src in pfields or m.group(2) in pfields or ('move ' + src) in pfields:
                        par = pfields.get(src) or pfields.get(m.group(2)) or pfields.get('move ' + src)
                        key = (adt, fn_, par)
                        if not any(k[0] == adt and k[2] == fn_ and k[3] == par for k in caches):
                            n += 1
                            R.bad(rule, '%s.%s<-%s|constructed' % (adt.split('::')[-1], fn_, par),
                                  '%s is built with `%s` holding a value derived from its own parameter `%s` and nothing refreshes it'
                                  % (adt, fn_, par), where=b.where(bb))
    R.floor(rule, n, floor)


def accumulators(F, R, rule='B.C06.accumulate', floor=6):
    """'To within one update of timing', for tweens of any length and updates of any size: elapsed time is accumulated in
    double precision.  Every place that keeps a running sum of the time step (`x += f(dt)`: a tween's time, a tweener's, the
    clock's fraction of a tick, the LFO's phase, the two playheads) is an f64.  In single precision each addition is rounded
    to the spacing of the running total - after a few minutes of 2.7 ms updates the sum runs fast or slow by tens of updates,
    by an amount that depends on the update period."""
    import re
    n = 0
    for b in F.bodies:
        if b.krate != 'kira':
            continue
        for bb, si, s in b.stmts():
            if s['k'] != 'assign' or s['rv']['k'] != 'bin' or s['rv']['op'] not in ('Add', 'AddWithOverflow') or not s['lhs']['p']:
                continue
            pl = pretty_place(b, s['lhs'])
            a = describe(b, s['rv']['a'], depth=2, at=bb)
            c = describe(b, s['rv']['b'], depth=6, at=bb)
            if a != pl and c != pl:
                continue
            other = c if a == pl else a
            if not re.search(r'(?<![A-Za-z_.])dt(?![A-Za-z_])', other):
                continue
            n += 1
            ty = s['lhs'].get('ty')
            R.check(ty == 'f64', rule, '%s|%s' % (b.path.split('::{closure')[0].lstrip('<').split(' as ')[0], pl.split('.')[-1]),
                    '%s accumulates elapsed time in %s, a %s: long tweens / delays / runs drift by an amount that depends on the update period'
                    % (b.path, pl, ty), detail={'place': pl, 'type': ty, 'step': other[:80]}, where=b.where(bb), nontrivial=False)
    R.floor(rule, n, floor)


def closure_in_chunk(F, b, bb, amount_op):
    """(index ok, length ok) for `Div(index, length)` evaluated inside a closure body `b`."""
    from ..facts import op_local
    from .. import nonfinite
    nonfinite.FACTS[0] = F
    l = op_local(amount_op)
    d = b.single_def(l) if l is not None else None
    for _ in range(4):
        if d and d[0] == 'stmt' and d[3]['rv']['k'] in ('use', 'cast') and op_local(d[3]['rv']['op']) is not None:
            d = b.single_def(op_local(d[3]['rv']['op']))
        else:
            break
    if not (d and d[0] == 'stmt' and d[3]['rv']['k'] == 'bin' and d[3]['rv']['op'] == 'Div'):
        return False, False
    def base(op):
        cur = op
        for _ in range(4):
            l2 = op_local(cur)
            d2 = b.single_def(l2) if l2 is not None and not cur['pl']['p'] else None
            if d2 and d2[0] == 'stmt' and d2[3]['rv']['k'] in ('use', 'cast'):
                cur = d2[3]['rv']['op']
            else:
                break
        return cur
    den = base(d[3]['rv']['b'])
    rc = nonfinite.resolve_capture(b, den) if 'pl' in den else None
    den_ok = False
    consumer_enumerates = False
    if rc is not None:
        owner, at, cap, clocal = rc
        den_ok = describe(owner, cap, depth=8, at=at).startswith('core::slice::<impl [T]>::len(')
        for x, t in owner.calls():
            if any(op_local(a2) == clocal for a2 in t['args'][1:]):
                consumer_enumerates = 'enumerate' in describe(owner, t['args'][0], depth=8, at=x).lower()
    num = describe(b, d[3]['rv']['a'], depth=6, at=bb)
    idx_ok = consumer_enumerates and bool(__import__('re').match(r'^(Add\(1, )?_2\.0\)?$', num))
    return idx_ok, den_ok


def in_chunk_time(F, R, rule='B.C06.in-chunk'):
    """'Independently of how time is partitioned into updates': inside a chunk a parameter is read at the position of the
    frame within THIS chunk - every per-frame read (`interpolated_value`, the state manager's fade, the listener's
    interpolated pose, `spatialize`) is given `index / len` or `(index + 1) / len`, the index coming from the enumeration of
    the slice being processed and `len` being the length of a slice - not a stored step or the nominal buffer size, which is
    a different number for the short slice at the end of a device callback."""
    from ..paths import parse_term
    targets = ('parameter::Parameter::<T>::interpolated_value', 'playback_state_manager::PlaybackStateManager::interpolated_fade_volume',
               'info::ListenerInfo::interpolated_position', 'info::ListenerInfo::interpolated_orientation', 'track::sub::SpatialData::spatialize')
    n = 0
    for b in F.bodies:
        if b.krate != 'kira':
            continue
        for bb, t in b.calls():
            cp = callee_path(t) or ''
            if cp not in targets:
                continue
            a = t['args'][-1] if cp.endswith('::spatialize') else t['args'][1]
            d = describe(b, a, depth=10, at=bb)
            params = [nm for l, nm in b.names.items() if 1 <= l <= b.arg_count]
            if d in params or (d.startswith('(*') and d.strip('(*)') in params):
                continue          # handed through: judged at the callers of this function
            n += 1
            name, args = parse_term(d)
            ok = name == 'Div' and args is not None and len(args) == 2
            if ok:
                num, den = args
                # the index: the counter of an enumeration, or the item of a range that ends at a slice's length
                idx_ok = ('Enumerate' in num and '::len(' not in num) or \
                    ('Range<A>>::next(' in num and 'std::ops::Range::Range(' in num and '::len(' in num.split('std::ops::Range::Range(', 1)[1])
                # ... or the second half of a zip of the slice's iterator with `1..=len` / `0..len`
                for ctor in ('std::ops::RangeInclusive::<Idx>::new(1, ', 'std::ops::Range::Range(0, '):
                    if 'Zip<A, B> as std::iter::Iterator>::next(' in num and ctor in num and '::len(' in num.split(ctor, 1)[1] \
                            and ('::iter_mut(' in num or '::iter(' in num):
                        idx_ok = True
                den_ok = den.startswith('core::slice::<impl [T]>::len(')
                if '::{closure' in b.path and not (idx_ok and den_ok):
                    # a closure handed to `..enumerate().for_each(..)`: the index is the first half of its argument, the
                    # length a captured local of the function that owns it
                    idx_ok, den_ok = closure_in_chunk(F, b, bb, a)
                ok = idx_ok and den_ok
            R.check(ok, rule, '%s|%s#%s' % (b.path.split('::{closure')[0].lstrip('<').split(' as ')[0], cp.split('::')[-1], b.blocks[bb]['term'].get('line', '')) if False else
                    '%s|%s' % (b.path.split('::{closure')[0].lstrip('<').split(' as ')[0], cp.split('::')[-1]),
                    '%s reads %s at %s: not the position of the frame inside the slice being processed (index / length of that slice)'
                    % (b.path, cp.split('::')[-1], d[:120]), detail={'amount': d[:160]}, where=b.where(bb), nontrivial=False)
    R.floor(rule, n, 24)


def ungated(F, R, rule='B.C06.ungated', fn_filter=None):
    """Time-keeping advances whether or not the owner is paused: in every per-chunk function that both updates a
    Parameter, a StartTime or the PlaybackStateManager of `self` and has a freeze gate (clock not ticking, state not
    advancing), those updates come before the gate (tweens issued while paused start when due; a scheduled start is
    latched or cancelled even while the sound is paused)."""
    n = 0
    for b in F.bodies:
        if b.krate != 'kira' or (fn_filter is not None and not fn_filter(b.path)):
            continue
        ups = [(bb, t) for bb, t in b.calls()
               if (callee_path(t) or '') in ('parameter::Parameter::<T>::update', 'start_time::StartTime::update',
                                             'playback_state_manager::PlaybackStateManager::update')
               and (describe(b, t['args'][0], depth=3, at=bb)).startswith('&(*self)')]
        if not ups:
            continue
        gates = []
        for x in range(b.n):
            t = b.blocks[x]['term']
            if b.blocks[x]['cleanup']:
                continue
            if t['k'] == 'switch' and describe(b, t['op'], depth=2, at=x) == '(*self).ticking':
                gates.append((x, 'ticking'))
            if t['k'] == 'call' and (callee_path(t) or '') == 'sound::PlaybackState::is_advancing':
                gates.append((x, 'is_advancing'))
        # every piece of time-keeping of one pass advances by the same duration (the chunk's): a per-frame `dt` handed to one
        # of them makes that one run `chunk length` times too slowly
        durs = sorted(set(describe(b, t['args'][1], depth=8, at=bb) for bb, t in ups if ' as Some' not in describe(b, t['args'][0], depth=3, at=bb)))
        # ... and that duration is the time THIS slice covers: the per-frame step times the length of the slice being processed,
        # or the function's own `dt` handed through - not a stored "buffer duration" (the last slice of a device callback is
        # shorter than the nominal buffer and would be charged a full one)
        params = [nm for l, nm in b.names.items() if 1 <= l <= b.arg_count]
        for d_ in durs:
            chunk = (d_.startswith('Mul(') and '::len(' in d_ and any(p_ in d_ for p_ in params)) or d_ in params
            R.check(chunk, rule, '%s|chunk-duration' % b.path,
                    '%s advances its time-keeping by %s: not `dt * len(slice)` of the slice being processed (nor its own dt argument)' % (b.path, d_[:80]),
                    detail={'fn': b.path, 'duration': d_[:100]}, where=b.file, nontrivial=False)
        if len(ups) > 1:
            R.check(len(durs) == 1, rule, '%s|same-duration' % b.path,
                    '%s advances its parameters / state machine / start time by different durations in one pass: %s' % (b.path, [d[:50] for d in durs]),
                    detail={'fn': b.path, 'duration': durs[0][:80] if durs else None}, where=b.file, nontrivial=False)
        if not gates:
            continue
        # the parameters of the items of a collection of `self` (a track's send routes) are time-keeping of `self` too: the
        # loop that updates them stands for them (its header is the block that has to come before the gate)
        from .c02 import iter_source, loop_of
        for bb, t in b.calls():
            if (callee_path(t) or '') != 'parameter::Parameter::<T>::update' or (bb, t) in ups:
                continue
            L_ = loop_of(b, bb)
            if L_ is None:
                continue
            src = iter_source(b, L_)
            m_ = __import__('re').search(r'\(\*self\)\.([a-z_]+)', src or '')
            if not m_:
                continue
            n += 1
            coll = m_.group(1)
            hdr = L_['header']
            late = [g for g, kind in gates if not b.dominates(hdr, g)]
            R.check(not late, rule, '%s|%s[..]' % (b.path, coll),
                    '%s updates the parameters of its %s only after its freeze gate (%s): while paused their tween clocks stand still'
                    % (b.path, coll, [k for g, k in gates if g in late]), detail={'fn': b.path, 'collection': coll}, where=b.where(bb))
        for bb, t in ups:
            fld = describe(b, t['args'][0], depth=3, at=bb)
            # parameters living inside an optional component (spatial data) are updated where that component is unpacked
            if ' as Some' in fld:
                continue
            n += 1
            late = [g for g, kind in gates if not b.dominates(bb, g)]
            R.check(not late, rule, '%s|%s' % (b.path, fld.split('.')[-1]),
                    '%s updates %s only after its freeze gate (%s): while paused the parameter\'s tween clock stands still, so a tween '
                    'issued during the pause does not start or finish when it is due' % (b.path, fld, [k for g, k in gates if g in late]),
                    detail={'fn': b.path, 'parameter': fld}, where=b.where(bb))
            # ... and no exit of the function skips the update, unless the owner was just declared dead (mark_as_stopped):
            # an early return on "no data yet" / "nothing to do" placed above it freezes fades and scheduled starts
            marks = [x for x, t2 in b.calls() if (callee_path(t2) or '').endswith('::mark_as_stopped')]
            from ..rules import must_pass_f
            R.check(must_pass_f(b, b.return_blocks(), [bb] + marks), rule, '%s|%s|every-path' % (b.path, fld.split('.')[-1]),
                    '%s can return without having updated %s (and without stopping): a fade or a scheduled start does not '
                    'advance on that path' % (b.path, fld), detail={'fn': b.path, 'parameter': fld}, where=b.where(bb))
    R.floor(rule, n, 8 if fn_filter is None else 2)


def run(ctx, R, tier):
    F = ctx.facts('default')
    ungated(F, R)
    prev(F, R)
    getters(F, R)
    finish(F, R)
    set_rule(F, R)
    set_unconditional(F, R)
    sib(F, R)
    # "keeps its old value until the tween's start time": a clock start time is reached exactly when
    # Info::when_to_start says so (ticking and clock time >= start time, fraction included) -- the C05 rule
    from . import c05
    c05.when(F, R)
    c05.start_time_rule(F, R)
    cover(F, R)
    # "independently of how time is partitioned into updates": modulators, clocks and listeners advance by dt * the number
    # of frames of THIS chunk (the C05 rule)
    c05.order(F, R)
    # 'a new tween begins from the current, possibly mid-tween, value' for the pause / resume / stop fades
    from .c03 import fade_continuity
    fade_continuity(F, R, rule='B.C06.fade-continuity')
    defaults_match(F, R)
    param_cache(F, R)
    in_chunk_time(F, R)
    # 'keeps its old value until the tween's start time, then follows ...': the start time of a resume's fade is waited for once
    from .c03 import resume_is_immediate
    resume_is_immediate(F, R, rule='B.C06.resume')
    # a request made before a sound's first callback is read in that callback: new sounds are picked up before they are polled
    from .c07 import first as polled_after_pickup
    polled_after_pickup(F, R)
    # 'never jump': the gain stage that interpolates a volume across the chunk lies on every path of its mixing function (no
    # shortcut on the chunk-end value, which skips the ramp of the chunk in which a tween arrives)
    from .c02 import stages_every_path
    stages_every_path(F, R, rule='B.C06.flow')
    accumulators(F, R)
    duration_interp(F, R)
    interp_shapes(F, R)
    progress_reset(F, R)
    config_verbatim(F, R)
    # 'keeps its old value until the tween's start time': a clock time built from a float is clamped before it is split
    from .c19 import from_ticks
    from_ticks(F, R, rule='B.C06.start')
    # clock speeds of different units are blended in the target's unit (the C19 rule)
    from .c19 import speed_units
    speed_units(F, R, rule='B.C06.speed-units')
    # 'with the built-in easings the value never leaves the interval': their powers stay inside their domain (A.singular)
    from ..enginea import run_singular_only
    run_singular_only(R, F, lambda fn: fn.startswith('tween::'), floor=2)


def interp_shapes(F, R, rule='B.C06.interp'):
    """'follows start + (target - start) x ease(elapsed / duration)': what Tweenable::interpolate returns for the scalar types
    is the linear blend itself - `a + (b - a) * amount` for f32 / f64 / Vec3, and for the unit newtypes (Decibels, Mix, Panning,
    PlaybackRate, Semitones) the blend of the two wrapped numbers as they are, rewrapped.  Endpoints are not clamped, rounded
    or otherwise adjusted: a tween from below a limit starts below it."""
    n = 0
    for b in F.bodies:
        if b.krate != 'kira' or not b.path.endswith(' as tween::tweenable::Tweenable>::interpolate'):
            continue
        ty = b.path[1:].split(' as ')[0]
        rets = sorted(set(str(p.ret) for p in explore(b) if p.end == 'return'))
        short = ty.split('::')[-1]
        # (through a generic helper over the operator traits the same expression reads `Add::add(a, Mul::mul(Sub::sub(b, a), amount))`)
        generic = ['std::ops::Add::add(a, std::ops::Mul::mul(std::ops::Sub::sub(b, a), amount))']
        if ty in ('f32', 'f64'):
            want = generic if rets == generic else ['Add(Mul(Sub(b, a), amount), a)']
        elif ty == 'glam::Vec3':
            want = generic if rets == generic else ['<glam::Vec3 as std::ops::Add>::add(a, <glam::Vec3 as std::ops::Mul<f32>>::mul(<glam::Vec3 as std::ops::Sub>::sub(b, a), amount))']
        elif ty.startswith(('decibels::', 'mix::', 'panning::', 'playback_rate::', 'semitones::')):
            want = None
            # (the inner call resolved to the float's impl, or - through a generic helper shared by the newtypes - left generic)
            for inner in ('<f32 as tween::tweenable::Tweenable>', '<f64 as tween::tweenable::Tweenable>', 'tween::tweenable::Tweenable'):
                w = '%s::%s(%s::interpolate(a.0, b.0, amount))' % (ty, short, inner)
                if rets == [w]:
                    want = [w]
            want = want or ['%s::%s(<f.. as Tweenable>::interpolate(a.0, b.0, amount))' % (ty, short)]
        else:
            continue    # ClockSpeed, Duration, Quat have rules of their own (speed_units, duration_interp) / are a library call
        n += 1
        R.check(rets == want, rule, short, 'Tweenable::interpolate for %s returns %s, not the plain blend %s of its two endpoints' % (ty, [r[:120] for r in rets], want[0]),
                detail={'returns': rets[0][:160] if rets else None}, where=b.file, nontrivial=False)
    R.floor(rule, n, 8)


def cover(F, R):
    """Every Parameter the audio side owns is driven: each struct field of type Parameter<_> has a site that calls
    Parameter::update on it (otherwise its tween never advances and a handle's setter has no effect) and, unless it is the
    internally driven pause fade, a site that hands it its command reader (Parameter::read_command)."""
    from .c07 import origin_pl, last_field
    fields = set()
    for path, a in F.adts.items():
        if a['kind'] != 'Struct' or not a.get('file', '').startswith('crates/kira/'):
            continue
        for f in a['variants'][0]['fields']:
            if f['ty'] == 'parameter::Parameter' or f['ty'].startswith('parameter::Parameter<'):
                fields.add((path, f['name']))
    upd, rc = set(), set()
    for b in F.bodies:
        if b.krate != 'kira':
            continue
        for bb, t in b.calls():
            cp = callee_path(t) or ''
            if cp in (P + '::update', P + '::read_command'):
                lf = last_field(origin_pl(b, t['args'][0]) or {})
                if lf:
                    (upd if cp.endswith('::update') else rc).add((lf[1], lf[0]))
    for adt, f in sorted(fields):
        R.check((adt, f) in upd, 'B.C06.cover', '%s.%s:update' % (adt, f),
                'Parameter %s.%s is never updated: a tween set on it never advances (the handle setter has no effect)' % (adt, f),
                detail={'field': '%s.%s' % (adt, f)}, where=F.adts[adt]['file'])
        if f != 'volume_fade':
            R.check((adt, f) in rc, 'B.C06.cover', '%s.%s:read_command' % (adt, f),
                    'Parameter %s.%s never receives its command reader: its setter command is never applied' % (adt, f),
                    detail={'field': '%s.%s' % (adt, f)}, where=F.adts[adt]['file'])
    R.floor('B.C06.cover', len(fields), 41)
    # ... exactly once per pass, by the time of that pass: within one function a parameter has one update site, and a site
    # inside a loop advances by the duration of that iteration's own slice (a second site, or a block-wide duration applied
    # once per sub-chunk, makes the tween run n times too fast)
    for b in F.bodies:
        if b.krate != 'kira':
            continue
        per = {}
        for bb, t in b.calls():
            if (callee_path(t) or '') == P + '::update':
                lf = last_field(origin_pl(b, t['args'][0]) or {})
                if lf:
                    per.setdefault((lf[1], lf[0]), []).append((bb, t))
        for (adt, f), sites in sorted(per.items()):
            why = None
            if len(sites) > 1:
                why = 'is updated at %d sites of %s' % (len(sites), b.path)
            else:
                bb, t = sites[0]
                loops = [l for l in b.loops() if bb in l['blocks']]
                if loops:
                    d = describe(b, t['args'][1], depth=10, at=bb)
                    # ... or the parameter itself belongs to the loop's item (one parameter per send route)
                    item = 'Iterator>::next(' in d or 'Iterator>::next(' in describe(b, t['args'][0], depth=10, at=bb)
                    from ..facts import operand_place
                    rp = operand_place(b, t['args'][0])
                    if rp is not None:
                        bd = b.defs().get(rp['l'], [])
                        if bd and all(x[0] == 'call' and (x[2].get('callee') or {}).get('name') in ('next', 'next_back') for x in bd):
                            item = True
                    if not item:
                        why = 'is updated inside a loop of %s by %s, a duration that is not that of the iteration\'s own slice' % (b.path, d[:80])
            R.check(why is None, 'B.C06.cover', '%s.%s:once@%s' % (adt.split('::')[-1], f, b.path.split(' as ')[0].split('::')[-1].strip('<>')),
                    'Parameter %s.%s %s: its tweens run too fast' % (adt, f, why), detail={'field': '%s.%s' % (adt, f), 'fn': b.path}, where=b.file,
                    nontrivial=False)


def getters(F, R):
    """`Parameter::value()` is the current raw value and `previous_value()` the one before the last update (what the
    in-chunk interpolation and every user of the two getters starts from)."""
    for nm, want in (('value', '(*self).raw_value'), ('previous_value', '(*self).previous_raw_value')):
        b = F.body(P + '::' + nm)
        if not R.check(b is not None, 'B.C06.prev', 'anchor:' + nm, 'Parameter::%s not found' % nm):
            continue
        rets = [str(p.ret) for p in explore(b) if p.end == 'return']
        R.check(rets == [want], 'B.C06.prev', 'getter:' + nm, 'Parameter::%s returns %s, not %s' % (nm, rets, want), detail={'returns': rets})


def prev(F, R):
    b = F.body(P + '::update')
    if not R.check(b is not None, 'B.C06.prev', 'anchor', 'Parameter::update not found'):
        return
    prevs = [(bb, s) for bb, si, s in b.stmts() if s['k'] == 'assign' and pretty_place(b, s['lhs']) == '(*self).previous_raw_value']
    raws = [(bb, s) for bb, si, s in b.stmts() if s['k'] == 'assign' and pretty_place(b, s['lhs']) == '(*self).raw_value']
    ok = len(prevs) == 1 and describe_rv(b, prevs[0][1]['rv']) == '(*self).raw_value'
    ok = ok and all(b.dominates(prevs[0][0], r) for r in b.return_blocks())
    ok = ok and all(b.dominates(prevs[0][0], bb) and bb != prevs[0][0] for bb, _ in raws) and bool(raws)
    R.check(ok, 'B.C06.prev', 'Parameter::update',
            'previous_raw_value = raw_value does not dominate every return and every store to raw_value: a chunk would not '
            'interpolate from the previous chunk\'s final value', detail='previous = current first, on every path', where=b.file)
    # the early return on stagnant comes after that store
    sw = [bb for bb in range(b.n) if b.blocks[bb]['term']['k'] == 'switch' and describe(b, b.blocks[bb]['term']['op']).endswith('.stagnant')]
    R.check(len(sw) == 1 and (b.dominates(prevs[0][0], sw[0]) if prevs else False), 'B.C06.stagnant', 'early-return',
            'the stagnant early return precedes previous = current', detail='previous = current ≺ if stagnant { return }')
    # raw_value is only stored under Some(..) from calculate_new_raw_value (hold the last value on None)
    okh = False
    for p in explore(b):
        pass
    calc = calls_to(b, P + '::calculate_new_raw_value', suffix=False)
    if calc and raws:
        okh = True
        for bb, s in raws:
            d = describe_rv(b, s['rv'])
            if 'as Some' not in d or not b.dominates(calc[0][0], bb):
                okh = False
    R.check(okh, 'B.C06.prev', 'hold', 'raw_value is overwritten even when the linked value does not resolve (None)',
            detail='raw_value = v only under Some(v)')
    # ... and it is recomputed in every update of a parameter that is not stagnant (a parameter following a modulator or a
    # listener, or in a tween, has no 'nothing changed' shortcut: what it follows is looked at each time)
    if calc and len(sw) == 1:
        t = b.blocks[sw[0]]['term']
        stag_true = [tb_ for v, tb_ in t['targets'] if str(v) != '0'] + ([t['otherwise']] if any(str(v) == '0' for v, _ in t['targets']) else [])
        from ..rules import must_pass
        skipped = [r for r in b.return_blocks() if not must_pass(b, [0], [r], [calc[0][0]] + stag_true)]
        R.check(not skipped, 'B.C06.prev', 'recomputed', 'Parameter::update can return (at %s) without recomputing the raw value although the parameter is '
                'not stagnant: a linked or tweening parameter keeps a stale value on that path' % (b.where(skipped[0]) if skipped else ''),
                detail='not stagnant => calculate_new_raw_value on every path', where=b.file)
    iv = F.body(P + '::interpolated_value')
    if R.check(iv is not None, 'B.C06.prev', 'anchor:interpolated_value', 'not found'):
        cs = calls_where(iv, lambda p, t: t['callee'].get('name') == 'interpolate')
        d = [describe(iv, a) for a in cs[0][1]['args']] if cs else []
        R.check(d[:2] == ['(*self).previous_raw_value', '(*self).raw_value'] and d[2:] == ['amount'], 'B.C06.prev', 'interpolated_value',
                'interpolated_value interpolates %s' % d, detail={'args': d})
        # ... on every path: the chunk in which a tween ends still interpolates from the previous chunk's final value (a
        # shortcut for a parameter "at rest" turns that last chunk into a step)
        rets = [str(p.ret) for p in explore(iv) if p.end == 'return']
        R.check(bool(rets) and all('::interpolate(' in r and 'previous_raw_value' in r for r in rets), 'B.C06.prev', 'interpolated_value:every-path',
                'interpolated_value has a path that returns %s instead of interpolating from the previous value' % [r[:60] for r in rets if 'previous_raw_value' not in r][:2],
                detail={'returns': [r[:80] for r in rets]})


def finish(F, R):
    b = F.body(P + '::update_tween')
    if not R.check(b is not None, 'B.C06.finish', 'anchor', 'update_tween not found'):
        return
    prs = [p for p in explore(b) if p.end == 'return']
    ok = True
    why = ''
    n_true = 0
    stag_ok = True
    from .c03 import ret_bool
    for p in prs:
        rb = ret_bool(p.ret, p.decisions)
        ge = None
        started = None
        fixed = None
        for bb, desc, lab in p.decisions:
            _n, _a = parse_term(desc)
            tr = time_reached(desc, lab)
            if tr is not None:
                ge = tr
            if desc.startswith('discr(') and lab in ('Fixed', 'FromModulator', 'FromListenerDistance') and ('target' in desc or desc.startswith('discr(_')):
                fixed = (lab == 'Fixed')
            elif desc.startswith('discr(_') and lab == 'otherwise' and fixed is None and any(l2 == 'Fixed' for _, d2, l2 in
                                                                                             [x for q in prs for x in q.decisions if x[1] == desc]):
                fixed = False       # the arm of `matches!(target, Value::Fixed(_))` that is not Fixed
        stores = [(bb, s) for bb in p.blocks for s in b.blocks[bb]['stmts'] if s['k'] == 'assign']
        st_state = [s for bb, s in stores if pretty_place(b, s['lhs']) == '(*self).state']
        st_stag = [s for bb, s in stores if pretty_place(b, s['lhs']) == '(*self).stagnant']
        if rb is True:
            n_true += 1
            if ge is not True:
                ok = False
                why = 'update_tween reports completion on a path where time >= duration was not established'
            if len(st_state) != 1:
                ok = False
                why = 'the finish edge does not set the state'
            else:
                d = describe_rv(b, st_state[0]['rv'])
                if not (d.startswith('parameter::State::Idle(') and 'target' in d):
                    ok = False
                    why = 'the finish edge leaves state %s, not Idle{value: *target}' % d
        else:
            if st_state:
                ok = False
                why = 'the state changes on a path that does not report completion'
        if st_stag:
            if not (rb is True and fixed is True and describe_rv(b, st_stag[0]['rv']) == 'True'):
                stag_ok = False
    R.check(ok and n_true >= 1, 'B.C06.finish', 'update_tween', why or 'no completing path', detail={'paths': len(prs), 'finishing': n_true}, where=b.file)
    R.check(stag_ok, 'B.C06.stagnant', 'only-on-finish-fixed', 'stagnant is set outside the finish edge of a fixed target',
            detail='stagnant = true only when finishing towards Value::Fixed')
    # ... and nowhere else: the only other writers of the flag are `set` (clears it) and the constructor (a parameter whose
    # target is linked to a modulator or a listener must never be marked at rest: it would stop following it)
    others = []
    for ob in F.bodies:
        if ob.krate != 'kira' or not ob.path.startswith(P + '::') or ob.path == b.path:
            continue
        for bb2, _, s2 in ob.stmts():
            if s2['k'] == 'assign' and s2['lhs']['p'] and pretty_place(ob, s2['lhs']).endswith('.stagnant'):
                v = describe_rv(ob, s2['rv'], depth=4, at=bb2)
                if not (ob.path == P + '::set' and v == 'False'):
                    others.append('%s: stagnant = %s' % (ob.path.split('::')[-1], v[:50]))
    R.check(not others, 'B.C06.stagnant', 'no-other-writer', 'the stagnant flag is also written by %s' % others[:2], detail={'writers': 'update_tween (finish, fixed), set (false), new'})
    cb = F.body(P + '::calculate_new_raw_value')
    if R.check(cb is not None, 'B.C06.finish', 'anchor:calc', 'calculate_new_raw_value not found'):
        okc = False
        for p in explore(cb):
            if p.end == 'return' and any(lab == 'Idle' for _, _, lab in p.decisions):
                okc = str(p.ret).startswith('value::Value::<T>::raw_value(')
        R.check(okc, 'B.C06.finish', 'idle-value', 'an idle parameter does not return its value\'s raw value unmodified',
                detail='Idle{value} => value.raw_value(info)')
        # while a tween is pending or running the value is the interpolation from `start` towards the target's raw value
        # (or held, when the target does not resolve) - never the raw value of something else, which the tween would leave
        # with a jump when it starts
        bad_t = []
        nt = 0
        for p in explore(cb):
            if p.end == 'return' and any(lab == 'Tweening' for _, _, lab in p.decisions):
                nt += 1
                r = str(p.ret)
                tgt = 'value::Value::<T>::raw_value(((*self).state as Tweening).target'
                good = r == 'std::option::Option::None' \
                    or (r.startswith('std::option::Option::<T>::map(' + tgt) and 'as Tweening).start' in r) \
                    or ('::from_residual(' in r and tgt in r and 'interpolate' not in r) \
                    or (r.startswith('std::option::Option::Some(tween::tweenable::Tweenable::interpolate(((*self).state as Tweening).start, ') and tgt in r)
                if not good:
                    bad_t.append(r[:90])
        R.check(nt >= 1 and not bad_t, 'B.C06.finish', 'tweening-value', 'a tweening parameter can have the value %s: not the interpolation from its start value towards its target' % bad_t[:2],
                detail='Tweening => target.raw_value(info).map(|t| interpolate(start, t, tween.value(time)))')


def set_rule(F, R):
    b = F.body(P + '::set')
    if not R.check(b is not None, 'B.C06.set', 'anchor', 'Parameter::set not found'):
        return
    st = [(bb, s) for bb, si, s in b.stmts() if s['k'] == 'assign' and pretty_place(b, s['lhs']) == '(*self).state']
    ok = len(st) == 1
    d = describe_rv(b, st[0][1]['rv']) if st else '?'
    ok = ok and d.startswith('parameter::State::Tweening(parameter::Parameter::<T>::value(') and ', target, 0.0, tween)' in d
    if not ok and len(st) == 1:
        # whatever the fields are called and in whichever order (or through a private constructor): the new state holds the
        # current value as its start, the command's target and tween, and an elapsed time of zero
        aggs = [(bb, s) for bb, si, s in b.stmts() if s['k'] == 'assign' and s['rv']['k'] == 'agg' and s['rv'].get('ak') == 'adt'
                and (s['rv'].get('adt') or '').endswith('parameter::State') and s['rv'].get('variant') == 'Tweening']
        if len(aggs) == 1:
            ops = sorted(describe(b, o, depth=5, at=aggs[0][0]) for o in aggs[0][1]['rv']['ops'])
            ok = ops == sorted(['0.0', 'parameter::Parameter::<T>::value(&(*self))', 'target', 'tween'])
            d = 'Tweening(%s)' % ', '.join(ops)
    R.check(ok, 'B.C06.set', 'state', 'Parameter::set builds %s, not Tweening{start: self.value(), target, time: 0.0, tween}' % d,
            detail={'state': d[:160]}, where=b.file)
    sg = [(bb, s) for bb, si, s in b.stmts() if s['k'] == 'assign' and pretty_place(b, s['lhs']) == '(*self).stagnant']
    R.check(len(sg) == 1 and describe_rv(b, sg[0][1]['rv']) == 'False', 'B.C06.set', 'stagnant', 'Parameter::set does not clear stagnant',
            detail='stagnant = false')


def config_verbatim(F, R, rule='B.C06.config', fn_filter=None, floor=40):
    """What a builder or settings struct says is what the running parameter starts from: every `Parameter::new(x, default)` in
    a constructor is given `x` as it was configured - a parameter of the constructor, a field of its builder / settings
    argument, the item of the builder's own map of routes, or a constant - never a value converted, clamped or otherwise
    rewritten on the way (a speed mapping re-expressed in another unit interpolates along another curve)."""
    n = 0
    for b in F.bodies:
        if b.krate != 'kira' or (fn_filter is not None and not fn_filter(b.path)):
            continue
        params = [nm for l, nm in b.names.items() if 1 <= l <= b.arg_count]
        for bb, t in b.calls():
            if (callee_path(t) or '') != P + '::new':
                continue
            n += 1
            d = describe(b, t['args'][0], depth=6, at=bb)
            base = d.replace('(*', '').replace(')', '')
            root = base.split('.')[0]
            good = (root in params or _re_local.match(root) is not None) and all(_re_ident.match(x) for x in base.split('.')[1:]) and '(' not in base
            good = good or d.startswith('value::Value::Fixed(const ') \
                or (d.startswith('<std::collections::hash_map::IntoIter<K, V, A> as std::iter::Iterator>::next(') and '.sends' in d)
            R.check(good, rule, 'verbatim:%s#%d' % (b.path.split('::{closure')[0].lstrip('<').split(' as ')[0], n),
                    '%s starts a parameter from %s: not the configured value as it was given' % (b.path, d[:120]),
                    detail={'initial': d[:120]}, where=b.where(bb), nontrivial=False)
    R.floor(rule, n, floor)
    # ... and inside Parameter::new: only a fixed initial value makes the parameter stagnant (a linked one is polled)
    pn = F.body(P + '::new')
    if R.check(pn is not None, rule, 'anchor:Parameter::new', 'Parameter::new not found'):
        ok, why = True, ''
        seen_true = False
        for p in explore(pn):
            if p.end != 'return':
                continue
            arm = [lab for _, desc, lab in p.decisions if desc.startswith('discr(') and 'initial_value' in desc]
            st = None
            for x in p.blocks:
                for s in pn.blocks[x]['stmts']:
                    if s['k'] == 'assign' and s['rv']['k'] == 'agg' and 'stagnant' in (s['rv'].get('fields') or []):
                        st = s['rv']['ops'][s['rv']['fields'].index('stagnant')]
            if st is None:
                ok, why = False, 'no Parameter is built on a path'
                continue
            from ..paths import origin_def
            # the flag's value on this path: a constant, or a temporary assigned per arm
            val = None
            for _, desc, lab in p.decisions:
                pass
            dv = describe(pn, st, depth=3)
            l = op_local(st) if is_place(st) else None
            if l is not None and ('c', l) in p.env:
                val = bool(p.env[('c', l)])
            elif dv in ('True', 'False'):
                val = dv == 'True'
            else:
                # (through temporaries that copy it)
                for _ in range(4):
                    if is_place(st) and not st['pl']['p']:
                        ds_ = pn.defs().get(st['pl']['l'], [])
                        if len(ds_) == 1 and ds_[0][0] == 'stmt' and ds_[0][3]['rv']['k'] == 'use':
                            st = ds_[0][3]['rv']['op']
                            continue
                    break
            if val is None and is_place(st) and len(st['pl']['p']) == 1 and st['pl']['p'][0][0] == 'field':
                # `let (raw_value, stagnant) = match initial_value { .. => (x, true), .. }`: the pair assigned on this path
                from ..facts import const_value, is_const
                for x in p.blocks:
                    for s in pn.blocks[x]['stmts']:
                        if s['k'] == 'assign' and not s['lhs']['p'] and s['lhs']['l'] == st['pl']['l'] and s['rv']['k'] == 'agg' and s['rv'].get('ak') == 'tuple':
                            o = s['rv']['ops'][st['pl']['p'][0][1]]
                            val = bool(const_value(o)) if is_const(o) and const_value(o) is not None else None
            fixed = bool(arm) and arm[-1] == 'Fixed'
            if val is None or not arm:
                ok, why = False, 'unrecognised-shape: the stagnant flag of a new parameter is %s' % dv[:60]
            elif val != fixed:
                ok, why = False, 'a new parameter whose initial value is %s starts with stagnant = %s' % (arm[-1], val)
            seen_true = seen_true or (val is True)
        R.check(ok and seen_true, rule, 'Parameter::new:stagnant', 'Parameter::new: %s (a linked parameter that starts stagnant is never polled and keeps its default)' % (why or 'no path sets it'),
                detail='stagnant iff the initial value is Fixed', where=pn.file)


import re as _re0
_re_local = _re0.compile(r'^_\d+$')
_re_ident = _re0.compile(r'^[A-Za-z_0-9]+$')


def progress_reset(F, R, rule='B.C06.set'):
    """A new tween starts from scratch: what the tween-advancing function carries from one update to the next (a field of
    `self` it both reads and writes - elapsed time, a 'has started' latch) either lives inside the Tweening state, which
    `set` replaces, or is written by `set` on every path.  Progress kept beside the state survives a second `set` issued
    while the first transition is still running: the new tween inherits the old one's elapsed time or skips its own
    start time."""
    from ..rules import must_pass
    n = 0
    for adv, setter, key in ((P + '::update_tween', P + '::set', 'Parameter'),
                             ('<modulator::tweener::Tweener as modulator::Modulator>::update', 'modulator::tweener::Tweener::set', 'Tweener')):
        b, sb = F.body(adv), F.body(setter)
        if b is None and key == 'Parameter':
            b = F.body(P + '::update')      # the helper folded back into its caller
        if not R.check(b is not None and sb is not None, rule, 'anchor:progress:' + key, '%s / %s not found' % (adv, setter)):
            continue
        n += 1

        def top_field(pl):
            pr = pl['p']
            if pl['l'] == 1 and len(pr) >= 2 and pr[0][0] == 'deref' and pr[1][0] == 'field':
                return pr[1][2]
            return None
        reads, writes = set(), set()
        for bb, pl, kind in b.all_places():
            f = top_field(pl)
            if f is None or f == 'state':
                continue
            # a write is a store to the field itself (or a part of it); lending it out mutably counts as both
            (writes if kind == 'def' else reads).add(f)
        for bb, si, s in b.stmts():
            if s['k'] == 'assign' and s['rv']['k'] in ('ref', 'rawptr') and s['rv'].get('bk') != 'shared':
                f = top_field(s['rv']['pl'])
                if f and f != 'state':
                    writes.add(f)
        carried = sorted((reads & writes) - ({'raw_value', 'previous_raw_value'} if b.path.endswith('::update') and key == 'Parameter' else set()))
        bad = []
        for f in carried:
            ws = [bb for bb, si, s in sb.stmts() if s['k'] == 'assign' and top_field(s['lhs']) == f]
            if not ws or not must_pass(sb, [0], sb.return_blocks(), ws):
                bad.append(f)
        R.check(not bad, rule, key + ':progress-reset',
                '%s carries %s from one update to the next outside the Tweening state and %s does not reset it: a second set issued while a '
                'transition is running starts a tween that inherits the progress of the one it replaces' % (b.path, bad, setter),
                detail={'carried': carried}, where=b.file)
    R.floor(rule + '.progress', n, 2)


def set_unconditional(F, R, rule='B.C06.set'):
    """A set command always replaces the pending transition: in Parameter::set and Tweener::set the store of the new
    Tweening state lies on every path (a command is never dropped because of the current value)."""
    for path, key in ((P + '::set', 'Parameter::set'), ('modulator::tweener::Tweener::set', 'Tweener::set')):
        b = F.body(path)
        if not R.check(b is not None, rule, 'anchor:' + key, '%s not found' % path):
            continue
        st = [bb for bb, si, s in b.stmts() if s['k'] == 'assign' and pretty_place(b, s['lhs']) == '(*self).state']
        ok = len(st) == 1 and all(b.dominates(st[0], r) for r in b.return_blocks())
        d = describe_rv(b, [s for bb, si, s in b.stmts() if s['k'] == 'assign' and pretty_place(b, s['lhs']) == '(*self).state'][0]['rv'], depth=3) if st else '?'
        ok = ok and 'State::Tweening(' in d
        R.check(ok, rule, key + ':unconditional',
                '%s does not start the new transition on every path (a set command can be dropped, e.g. when the target equals the current '
                'value while an earlier transition is still pending)' % path, detail={'state': d[:100]}, where=b.file)


def time_reached(desc, lab):
    """A path decision about the tween's time and its duration -> whether `time >= duration` holds on that edge (None if
    the decision is about something else, or tests strictly).  `time >= d`, `d <= time` taken, or `time < d`, `d > time`
    not taken."""
    n_, a_ = parse_term(desc)
    if n_ not in ('Le', 'Lt', 'Ge', 'Gt') or not a_ or len(a_) != 2:
        return None
    dur = [i for i, x in enumerate(a_) if 'as_secs_f64' in x and 'duration' in x]
    if len(dur) != 1:
        return None
    rel = n_ if dur[0] == 1 else {'Le': 'Ge', 'Lt': 'Gt', 'Ge': 'Le', 'Gt': 'Lt'}[n_]     # time REL duration
    bl = bool_label(lab)
    if bl is None:
        return None
    if rel == 'Ge':
        return bl
    if rel == 'Lt':
        return not bl
    return None


def timing_features(b):
    """Structural features of the duplicated tween-timing logic."""
    f = {}
    fam = ('std::time::Duration::is_zero', 'std::time::Duration::saturating_sub', 'std::time::Duration::from_secs_f64',
           "info::Info::<'a>::when_to_start", 'std::time::Duration::as_secs_f64')
    calls = sorted(cp for bb, t in b.calls() for cp in [callee_path(t) or ''] if cp in fam)
    f['calls'] = calls
    # arms of the start-time match
    arms = set()
    for bb in range(b.n):
        t = b.blocks[bb]['term']
        if t['k'] == 'switch' and not b.blocks[bb]['cleanup']:
            from ..paths import switch_info
            desc, labels, dplace = switch_info(b, bb)
            if dplace and dplace.endswith('start_time'):
                arms |= set(labels.values())
    f['start_arms'] = sorted(arms)
    bins = []
    for bb, si, s in b.stmts():
        if s['k'] == 'assign' and s['rv']['k'] == 'bin':
            ra, rb = describe(b, s['rv']['a']), describe(b, s['rv']['b'])
            op = s['rv']['op']
            # operand order does not matter: `time += dt` / `dt + time`; `time >= d` / `d <= time`
            if op.startswith('Add') and 'dt' in (ra, rb):
                bins.append(('accumulate', 'Add', 'dt'))
            elif op in ('Ge', 'Gt', 'Le', 'Lt', 'Eq', 'Ne') and ('as_secs_f64' in ra or 'as_secs_f64' in rb):
                if 'as_secs_f64' in ra and 'as_secs_f64' not in rb:
                    op = {'Le': 'Ge', 'Lt': 'Gt', 'Ge': 'Le', 'Gt': 'Lt'}.get(op, op)   # duration OP time  ->  time OP' duration
                kind = 'finish' if op in ('Ge', 'Gt', 'Le', 'Lt') else op
                # `time < d` (not finished yet) is the same test as `time >= d` (finished) read from the other side: which
                # edge finishes is what B.C06.finish / tweener-finish establish
                op = {'Lt': 'Ge', 'Le': 'Gt'}.get(op, op)
                bins.append((kind, op, 'duration.as_secs_f64'))
    f['arith'] = sorted(bins)
    # the Delayed arm subtracts from_secs_f64(dt)
    sub = [describe(b, t['args'][1]) for bb, t in b.calls() if (callee_path(t) or '') == 'std::time::Duration::saturating_sub']
    f['delay_step'] = sub
    # the Delayed arm: "has the delay run out?" is asked BEFORE this update's dt is taken off (the tween starts in the update
    # after the one in which the delay reaches zero; asked after the subtraction it starts one update early)
    from ..rules import order_ok
    zs = [bb for bb, t in b.calls() if (callee_path(t) or '') == 'std::time::Duration::is_zero' and 'duration' not in describe(b, t['args'][0], depth=4, at=bb)]
    ss = [bb for bb, t in b.calls() if (callee_path(t) or '') == 'std::time::Duration::saturating_sub']
    f['delay_order'] = 'test-then-subtract' if zs and ss and order_ok(b, zs, ss) else ('subtract-then-test' if zs and ss else 'none')
    eq = [describe(b, t['args'][1]) for bb, t in b.calls() if t['callee'].get('name') == 'eq' and 'WhenToStart' in ' '.join(t['callee'].get('args', []))]
    f['clock_start'] = eq
    return f


def sib(F, R):
    a = F.body(P + '::update_tween')
    b = F.body(TW)
    if not R.check(a is not None and b is not None, 'B.C06.sib', 'anchor', 'siblings not found'):
        return
    fa, fb = timing_features(a), timing_features(b)
    want = {'calls': None, 'start_arms': ['ClockTime', 'Delayed', 'Immediate'],
            'arith': [('accumulate', 'Add', 'dt'), ('finish', 'Ge', 'duration.as_secs_f64')],
            'delay_step': ['std::time::Duration::from_secs_f64(dt)'], 'delay_order': 'test-then-subtract'}
    for k in sorted(fa):
        same = fa[k] == fb[k]
        exp = want.get(k)
        good = same and (exp is None or fa[k] == exp)
        R.check(good, 'B.C06.sib', k,
                'Parameter::update_tween and Tweener::update disagree on %s: %s vs %s%s' % (k, fa[k], fb[k], '' if same else ''),
                detail={'feature': k, 'parameter': fa[k], 'tweener': fb[k]})
    # finish: the tweener lands exactly on values.1
    ok = False
    for p in explore(b):
        if p.end != 'return':
            continue
        ge = None
        for bb, desc, lab in p.decisions:
            _n, _a = parse_term(desc)
            tr = time_reached(desc, lab)
            if tr is not None:
                ge = tr
        st = [s for x in p.blocks for s in b.blocks[x]['stmts'] if s['k'] == 'assign' and pretty_place(b, s['lhs']) == '(*self).value']
        if ge is True:
            ok = len(st) == 1 and describe_rv(b, st[0]['rv']).endswith(('.values.1', ' as Tweening).target', ' as Tweening).to'))
    R.check(ok, 'B.C06.sib', 'tweener-finish', 'the tweener does not land exactly on its target when time >= duration', detail='value = values.1')


def defaults_match(F, R, rule='B.C06.defaults'):
    """Builder-to-constructor hand-over: where a struct field is initialised with `Parameter::new(<value>, <X>::DEFAULT_<NAME>)`
    - the fallback the parameter holds while its value does not resolve - NAME is the field's own name.  (A neighbour's
    default is a copy-paste slip that only shows with an unresolved modulator / listener link: a compressor whose ratio
    falls back to the threshold's 0.0 outputs NaN.)"""
    import re
    from ..paths import origin_def
    from ..facts import is_const
    n = 0
    for b in F.bodies:
        if b.krate != 'kira':
            continue
        for bb, si, s in b.stmts():
            if not (s['k'] == 'assign' and s['rv']['k'] == 'agg' and s['rv'].get('ak') == 'adt' and s['rv'].get('fields')):
                continue
            for f, op in zip(s['rv']['fields'], s['rv']['ops']):
                d, _ = origin_def(b, op)
                if not (d and d[0] == 'call' and (callee_path(d[2]) or '') == P + '::new' and len(d[2]['args']) == 2):
                    # through a private forwarding helper spliced in (`parameter(value, DEFAULT)`): read the description instead
                    nm_, ar_ = parse_term(describe(b, op, depth=6, at=bb))
                    m2 = re.search(r'^const .*DEFAULT_([A-Z0-9_]+)$', ar_[1]) if nm_ == P + '::new' and ar_ and len(ar_) == 2 else None
                    if m2:
                        n += 1
                        R.check(m2.group(1).lower() == f.lower(), rule, '%s.%s' % (s['rv'].get('adt', '?').split('::')[-1], f),
                                '%s initialises the parameter `%s` with the fallback %s (the default of another setting)' % (b.path, f, ar_[1]),
                                detail={'field': f, 'default': ar_[1]}, where=b.where(bb))
                    continue
                dflt = d[2]['args'][1]
                d2 = None
                if not is_const(dflt):
                    d2, _ = origin_def(b, dflt)
                    if d2 and d2[0] == 'const':
                        dflt = d2[1]
                name = dflt.get('def') if isinstance(dflt, dict) else None
                m = re.search(r'DEFAULT_([A-Z0-9_]+)$', name or '')
                if not m:
                    nm_, ar_ = parse_term(describe(b, op, depth=6, at=bb))
                    m = re.search(r'^const .*DEFAULT_([A-Z0-9_]+)$', ar_[1]) if nm_ == P + '::new' and ar_ and len(ar_) == 2 else None
                    name = ar_[1] if m else name
                if not m:
                    continue
                n += 1
                R.check(m.group(1).lower() == f.lower(), rule, '%s.%s' % (s['rv'].get('adt', '?').split('::')[-1], f),
                        '%s initialises the parameter `%s` with the fallback %s (the default of another setting)' % (b.path, f, name),
                        detail={'field': f, 'default': name}, where=b.where(bb))
    R.floor(rule, n, 4)


def duration_interp(F, R, rule='B.C06.interp'):
    """"Follows start + (target - start) x ease(..)" for the one Tweenable that cannot be negative: a Duration is interpolated
    through signed seconds - `a_secs + (b_secs - a_secs) * amount` - so that it moves towards a SHORTER target as well as
    towards a longer one (a saturating or absolute difference only ever moves one way)."""
    b = F.body('<std::time::Duration as tween::tweenable::Tweenable>::interpolate')
    if not R.check(b is not None, rule, 'anchor', 'Tweenable for Duration not found'):
        return
    uns = [(callee_path(t) or '').split('::')[-1] for _, t in b.calls() if (callee_path(t) or '').split('::')[-1] in ('saturating_sub', 'abs_diff', 'checked_sub', 'saturating_add')]
    ds = [describe(b, t['args'][0], depth=8, at=bb) for bb, t in b.calls() if (callee_path(t) or '').endswith(('try_from_secs_f64', 'from_secs_f64'))]
    want = 'Add(Mul(Sub(std::time::Duration::as_secs_f64(&b), std::time::Duration::as_secs_f64(&a)), amount), std::time::Duration::as_secs_f64(&a))'
    from ..paths import parse_term
    ok = not uns and bool(ds) and all(('Sub(std::time::Duration::as_secs_f64(&b), std::time::Duration::as_secs_f64(&a))' in d) for d in ds)
    R.check(ok, rule, 'Duration', 'Duration::interpolate builds its result from %s%s' % ([d[:100] for d in ds], (' using ' + ', '.join(uns)) if uns else ''),
            detail={'seconds': ds[:1]}, where=b.file)
