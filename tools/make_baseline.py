#!/usr/bin/env python3
"""Regenerate tables/names_baseline.json from the facts of /repo's current tree (run only when /repo itself changes by a
`fix:` commit): the names of all kira functions (with impl and signature), the fields of all structs, and the shape of
all ADTs.  The canonicalisation layer (kvlib/facts.py) maps renamed / moved items of a later tree back onto these names."""
import json, os, re, sys
VERIF = os.path.dirname(os.path.dirname(os.path.abspath(__file__)))
sys.path.insert(0, VERIF)
from kvlib.core import build_facts
from kvlib.facts import norm, adt_shape

out = {'fns': {}, 'fields': {}, 'adts': {}, 'params': {}}
for cfg in ('default', 'nodefault', 'serde', 'assert_no_alloc', 'cpal-only', 'wav-only'):
    j = json.load(open(build_facts(cfg)))
    for f in j['fns']:
        out['fns'].setdefault(norm(f['path']), {'impl_self': f['impl_self'], 'impl_trait': f['impl_trait'], 'pub': f['pub'], 'sig': f['sig']})
    for b in j['bodies']:
        if b['krate'] == 'kira' and b['key'].startswith('D:') and '{closure' not in b['path']:
            names = {d['v']['l']: d['name'] for d in b['debug'] if 'l' in d['v'] and not d['v']['p'] and 1 <= d['v']['l'] <= b.get('arg_count', 0)}
            out['params'].setdefault(norm(b['path']), [names.get(i) for i in range(1, b.get('arg_count', 0) + 1)])
    for a in j['adts']:
        ap = norm(a['path'])
        if a['kind'] == 'Struct':
            out['fields'].setdefault(ap, [(f['name'], f['ty']) for f in a['variants'][0]['fields']])
        out['adts'].setdefault(ap, adt_shape(a))
json.dump(out, open(os.path.join(VERIF, 'tables', 'names_baseline.json'), 'w'), indent=0, sort_keys=True)
print({k: len(v) for k, v in out.items()})
