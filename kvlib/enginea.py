"""Engine A glue: turn RtAnalysis obligations into rule instances, discharging
them against tables/discharge.jsonl (exact keys only)."""
import json
import os
import re
from .rt import INFINITE_ITERS, RtAnalysis
from .core import VERIF

RT_FLOOR = 1200          # instances reachable from the audio-thread roots (counted: 1864)
KIRA_FLOOR = 300         # of which kira's own (counted: 383)


# ---------------------------------------------------------------- structural preconditions of table entries

def chk_delay_line_nonempty(F):
    """Every writer of Delay.buffer that runs after construction sizes it with max(.., 1)."""
    from .paths import describe_rv, pretty_place
    n = 0
    for m in ('init', 'on_change_sample_rate'):
        b = F.body('<effect::delay::Delay as effect::Effect>::' + m)
        if b is None:
            return False, 'Delay::%s not found' % m
        for bb, si, s in b.stmts():
            if s['k'] == 'assign' and s['lhs']['p'] and pretty_place(b, s['lhs']) == '(*self).buffer':
                d = describe_rv(b, s['rv'], depth=8, at=bb)
                n += 1
                if not ('from_elem(' in d and '::max(' in d and d.rstrip(')').endswith(', 1')):
                    return False, 'Delay::%s sizes the delay line as %s (no lower bound of one frame)' % (m, d[:120])
    # no other function writes it
    for b in F.bodies:
        if b.krate == 'kira' and 'effect::delay' in b.path and not b.path.endswith(('::init', '::on_change_sample_rate', '::new')):
            for bb, si, s in b.stmts():
                if s['k'] == 'assign' and s['lhs']['p'] and pretty_place(b, s['lhs']) == '(*self).buffer':
                    return False, '%s also assigns the delay line' % b.path
    return n == 2, '%d writers found' % n


def _at_least_one(F, d, depth=3):
    """Does the described usize value have a lower bound of one?  `max(x, 1)`, a literal >= 1, or the result of a kira
    function / closure all of whose return paths are such values."""
    from .paths import parse_term, explore
    name, args = parse_term(d)
    if args is None:
        lit = d.replace('const ', '').replace('_usize', '')
        return lit.isdigit() and int(lit) >= 1
    if name.endswith('::max') and len(args) == 2 and args[1].replace('const ', '').replace('_usize', '') == '1':
        return True
    fb = F.body(name)
    if fb is not None and fb.krate == 'kira' and depth > 0:
        rets = [str(p.ret) for p in explore(fb) if p.end == 'return']
        return bool(rets) and all(_at_least_one(F, r, depth - 1) for r in rets)
    return False


def chk_reverb_filters_nonempty(F):
    """Every construction of a comb / all-pass filter, anywhere in the crate, is given a buffer size with a lower bound
    of one sample (the filters index `buffer[current_index]` and compute `% buffer.len()`)."""
    from .paths import describe
    from .facts import callee_path
    ctors = ('effect::reverb::comb::CombFilter::new', 'effect::reverb::all_pass::AllPassFilter::new')
    seen = set()
    n = 0
    for o in F.bodies:
        if o.krate != 'kira':
            continue
        for bb, t in o.calls():
            cp = callee_path(t) or ''
            if cp in ctors:
                n += 1
                seen.add(cp)
                d = describe(o, t['args'][0], depth=3, at=bb)
                if not _at_least_one(F, d):
                    return False, '%s sizes a filter with %s (no lower bound of one sample)' % (o.path, d[:100])
    if seen != set(ctors):
        return False, 'filter constructions not found (%s)' % sorted(seen)
    # ... and the index stays below the length: in each filter's process the last store to current_index, on every path,
    # is `<something> % buffer.len()`
    from .paths import describe_rv, pretty_place, parse_term
    for fn in ('effect::reverb::comb::CombFilter::process', 'effect::reverb::all_pass::AllPassFilter::process'):
        b = F.inlined_view(fn, depth=1, pred=lambda hp: hp.startswith(fn.rsplit('::', 1)[0] + '::'))
        if b is None:
            return False, '%s not found' % fn
        st = [(bb, si, describe_rv(b, s2['rv'], depth=6, at=bb)) for bb, si, s2 in b.stmts()
              if s2['k'] == 'assign' and s2['lhs']['p'] and pretty_place(b, s2['lhs']) == '(*self).current_index']
        if not st:
            return False, '%s never advances current_index' % fn
        rpo = b.rpo_index()
        last = max(st, key=lambda x: (rpo.get(x[0], x[0]) if isinstance(rpo, dict) else rpo[x[0]], x[1]))
        nm, ar = parse_term(last[2])
        if not (nm == 'Rem' and ar and len(ar) == 2 and 'len(' in ar[1] and '.buffer' in ar[1]
                and all(b.dominates(last[0], r) for r in b.return_blocks())):
            return False, '%s leaves current_index = %s: not reduced modulo buffer.len() on every path (the next index is out of bounds)' % (fn, last[2][:80])
    # ... and nothing else can break `current_index < buffer.len()` between two calls of process: outside the constructor's
    # aggregate, `buffer` is never assigned and is borrowed mutably only to index into it (its length is the one it was built
    # with), and `current_index` is written by process alone.  (A `resize` that keeps the index is the change this looks for.)
    adts = ('effect::reverb::comb::CombFilter', 'effect::reverb::all_pass::AllPassFilter')
    keep_len = ('std::ops::IndexMut::index_mut', 'std::ops::DerefMut::deref_mut')
    nb = 0

    def _guarded(pl):
        for pr in pl.get('p') or []:
            if pr and pr[0] == 'field' and len(pr) >= 4 and pr[3] in adts and pr[2] in ('buffer', 'current_index'):
                return pr[3], pr[2]
        return None

    for o in F.bodies:
        if o.krate != 'kira':
            continue
        for bb, si, s2 in o.stmts():
            if s2['k'] != 'assign':
                continue
            g = _guarded(s2['lhs'])
            if g and not (g[1] == 'current_index' and o.path == g[0] + '::process'):
                return False, '%s assigns to %s::%s (line %s): the index is no longer known to be below the length in process' % (o.path, g[0].rsplit('::', 1)[1], g[1], s2.get('line'))
            rv = s2['rv']
            if rv['k'] in ('ref', 'rawptr') and rv.get('bk') != 'shared':
                g = _guarded(rv['pl'])
                if not g:
                    continue
                nb += 1
                if g[1] == 'current_index':
                    if o.path != g[0] + '::process':
                        return False, '%s borrows %s::current_index mutably' % (o.path, g[0].rsplit('::', 1)[1])
                    continue
                l = s2['lhs']['l']
                users = [((t.get('callee') or {}).get('path') or '?', callee_path(t) or '?') for _, t in o.calls()
                         if any(a.get('pl', {}).get('l') == l for a in t['args'] if isinstance(a, dict))]
                bad = [u[1] for u in users if u[0] not in keep_len and u[1] not in keep_len]
                if bad or not users or s2['lhs']['p']:
                    return False, '%s hands &mut %s::buffer to %s: the length may change while current_index is kept (index out of bounds in process)' % (
                        o.path, g[0].rsplit('::', 1)[1], ', '.join(bad) or 'something other than an index operation')
    if nb < 2:
        return False, 'the element stores of the two filters were not found (%d mutable borrows of buffer)' % nb
    return True, '%d filter constructions, all sized >= 1; indices wrapped modulo the length; buffer length and index written by new / process only (%d mutable borrows, all to index)' % (n, nb)


def _strict_less(name, args):
    """(small, large) when the comparison term says small < large strictly."""
    if args is None or len(args) != 2:
        return None
    if name == 'Gt':
        return args[1], args[0]
    if name == 'Lt':
        return args[0], args[1]
    return None


def _root_local(b, op, depth=6):
    """The variable an operand is a plain copy of."""
    from .facts import op_local
    l = op_local(op)
    if l is None or ('pl' in op and op['pl']['p']):
        return None
    for _ in range(depth):
        d = b.single_def(l)
        if d and d[0] == 'stmt' and d[3]['rv']['k'] == 'use' and 'pl' in d[3]['rv']['op'] and not d[3]['rv']['op']['pl']['p']:
            l = d[3]['rv']['op']['pl']['l']
            continue
        break
    return l


def _pair_ordered_by_locals(fb):
    """Every `(start, end)` tuple of two usize values built in fb sits on the true side of a comparison `end > start` of the
    very same two variables (identity of MIR locals, so the depth of a textual description does not matter)."""
    from .nonfinite import dominating_decisions
    tuples = [(bb, s) for bb, si, s in fb.stmts() if s['k'] == 'assign' and s['rv']['k'] == 'agg' and s['rv'].get('ak') == 'tuple'
              and len(s['rv']['ops']) == 2 and all((o.get('pl') or {}).get('ty') == 'usize' or o.get('ty') == 'usize' for o in s['rv']['ops'])]
    if not tuples:
        return False
    for bb, s in tuples:
        a, c = _root_local(fb, s['rv']['ops'][0]), _root_local(fb, s['rv']['ops'][1])
        if a is None or c is None:
            return False
        good = False
        for g in range(fb.n):
            t = fb.blocks[g]['term']
            if t['k'] != 'switch' or not fb.dominates(g, bb) or g == bb:
                continue
            from .facts import op_local
            l = op_local(t['op'])
            d = fb.single_def(l) if l is not None else None
            if not (d and d[0] == 'stmt' and d[3]['rv']['k'] == 'bin' and d[3]['rv']['op'] in ('Gt', 'Lt')):
                continue
            x, y = _root_local(fb, d[3]['rv']['a']), _root_local(fb, d[3]['rv']['b'])
            small, large = (y, x) if d[3]['rv']['op'] == 'Gt' else (x, y)
            true_t = t['otherwise']
            if (small, large) == (a, c) and (true_t == bb or fb.dominates(true_t, bb)) and list(fb.pred(true_t)) == [g]:
                good = True
        if not good:
            return False
    return True


def _ordered_pair_value(F, fb, d, decisions):
    """Is the Option<(start, end)> described by `d` (a value of function `fb`, reached under `decisions`) either None or
    a pair with end > start?  Recognised: `x?` residuals, None, `opt.filter(|(s, e)| e > s)`, `(e > s).then_some((s, e))`,
    and `Some((s, e))` on a path that took the true edge of `e > s` (or the false edge of `e <= s`)."""
    from .paths import parse_term, describe, bool_label
    name, args = parse_term(d)
    if name.endswith('::from_residual') or name.endswith('Option::None') or name.endswith('::None'):
        return True, ''
    if name == 'std::option::Option::<T>::filter':
        for c in F.closures_of(fb.path):
            for x, t in c.calls():
                if t['callee'].get('name') in ('gt', 'lt') and len(t['args']) == 2:
                    a0 = describe(c, t['args'][0], depth=4, at=x).lstrip('&')
                    a1 = describe(c, t['args'][1], depth=4, at=x).lstrip('&')
                    if t['callee']['name'] == 'gt' and a0.endswith('.1') and a1.endswith('.0'):
                        return True, ''
                    if t['callee']['name'] == 'lt' and a0.endswith('.0') and a1.endswith('.1'):
                        return True, ''
            for x, si, st in c.stmts():
                if st['k'] == 'assign' and st['rv']['k'] == 'bin' and st['rv']['op'] in ('Gt', 'Lt'):
                    a0 = describe(c, st['rv']['a'], depth=4, at=x)
                    a1 = describe(c, st['rv']['b'], depth=4, at=x)
                    if (st['rv']['op'] == 'Gt' and a0.endswith('.1') and a1.endswith('.0')) or \
                            (st['rv']['op'] == 'Lt' and a0.endswith('.0') and a1.endswith('.1')):
                        return True, ''
        return False, 'the filter closure does not keep only end > start'
    if name == 'core::bool::<impl bool>::then_some' and args and len(args) == 2:
        sl = _strict_less(*parse_term(args[0]))
        tn, ta = parse_term(args[1])
        if sl and tn == 'tuple' and ta == [sl[0], sl[1]]:
            return True, ''
        return False, 'then_some is not `(end > start).then_some((start, end))`'
    if name.endswith('Option::Some') or name.endswith('::Some'):
        tn, ta = parse_term(args[0]) if args else ('', None)
        if tn == 'tuple' and ta and len(ta) == 2:
            for bb, desc, lab in decisions:
                cn, ca = parse_term(desc)
                v = bool_label(lab)
                if v is True and _strict_less(cn, ca) == (ta[0], ta[1]):
                    return True, ''
                if v is False and cn in ('Le', 'Ge') and ca and len(ca) == 2:
                    # !(end <= start)  /  !(start >= end)
                    if (cn == 'Le' and (ca[1], ca[0]) == (ta[0], ta[1])) or (cn == 'Ge' and (ca[0], ca[1]) == (ta[0], ta[1])):
                        return True, ''
            if _pair_ordered_by_locals(fb):
                return True, ''
            return False, 'Some((start, end)) is returned on a path that did not establish end > start'
    return False, 'value is not recognised as None or an ordered pair'


def chk_loop_region_ordered(F):
    """Every value stored into Transport.loop_region went through a filter that keeps only end > start."""
    from .paths import describe, describe_rv, explore, pretty_place
    from .facts import callee_path
    T = 'sound::transport::Transport'
    stores = []
    for b in F.bodies:
        if b.krate != 'kira':
            continue
        for bb, si, s in b.stmts():
            if s['k'] != 'assign':
                continue
            if s['lhs']['p'] and s['lhs']['p'][-1][0] == 'field' and s['lhs']['p'][-1][2] == 'loop_region' and s['lhs']['p'][-1][3] == T:
                stores.append((b, bb, describe_rv(b, s['rv'], depth=4, at=bb)))
            if s['rv']['k'] == 'agg' and s['rv'].get('adt') == T:
                i = s['rv']['fields'].index('loop_region')
                stores.append((b, bb, describe(b, s['rv']['ops'][i], depth=4, at=bb)))
    if len(stores) < 2:
        return False, 'only %d stores to Transport.loop_region found' % len(stores)
    for b, bb, d in stores:
        fn = d.split('(')[0]
        fb = F.body(fn)
        if fb is None or fb.krate != 'kira':
            good, why = _ordered_pair_value(F, b, d, ())
            if not good:
                return False, '%s stores %s into loop_region: %s' % (b.path, d[:100], why)
            continue
        n = 0
        for p in explore(fb):
            if p.end != 'return':
                continue
            n += 1
            good, why = _ordered_pair_value(F, fb, str(p.ret), p.decisions)
            if not good:
                return False, '%s returns %s: %s' % (fb.path, str(p.ret)[:160], why)
        if n == 0:
            return False, '%s has no return path' % fb.path
    return True, '%d stores, all filtered' % len(stores)


def chk_reverb_initialised(F):
    """`<Reverb as Effect>::init` leaves the reverb Initialized on every path (so that the explicit "not initialised"
    panic of process() is unreachable once B.C16.init has shown that every effect is init'ed before it reaches the audio
    thread)."""
    from .paths import describe_rv, pretty_place
    b = F.inlined_view('<effect::reverb::Reverb as effect::Effect>::init', depth=2, pred=lambda hp: hp.startswith('effect::reverb::Reverb::'))
    if b is None:
        return False, 'Reverb::init not found'
    st = [(bb, describe_rv(b, s['rv'], depth=2, at=bb)) for bb, si, s in b.stmts()
          if s['k'] == 'assign' and s['lhs']['p'] and pretty_place(b, s['lhs']) == '(*self).state']
    good = [bb for bb, d in st if 'ReverbState::Initialized' in d]
    if not good or not any(all(b.dominates(x, r) for r in b.return_blocks()) for x in good):
        return False, 'Reverb::init does not set state = Initialized on every path (stores: %s): process() would hit its "not initialised" panic' % [d[:50] for _, d in st]
    return True, 'init => state = Initialized'


def chk_delay_chunked_by_line(F):
    """Delay::process walks its input in chunks of `self.buffer.len()` (the delay line): that is what bounds
    `self.buffer[..input.len()]`; the only other ranges into the delay line are `buffer.len() - input.len()..` and
    `copy_within(input.len().., 0)` on the line itself."""
    from .paths import describe
    from .facts import callee_path
    b = F.body('<effect::delay::Delay as effect::Effect>::process')
    if b is None:
        return False, 'Delay::process not found'
    cm = [(bb, t) for bb, t in b.calls() if (callee_path(t) or '').endswith('core::slice::<impl [T]>::chunks_mut')]
    if len(cm) != 1 or describe(b, cm[0][1]['args'][1], depth=6, at=cm[0][0]) != 'std::vec::Vec::<T, A>::len(&(*self).buffer)':
        return False, 'the input is not chunked by self.buffer.len() (%s)' % [describe(b, t['args'][1], depth=6, at=bb)[:60] for bb, t in cm]
    for bb, t in b.calls():
        cp = callee_path(t) or ''
        if cp.split('::')[-1] in ('index', 'index_mut') and 'std::vec::Vec' in cp and describe(b, t['args'][0], depth=4, at=bb).endswith('.buffer'):
            d = describe(b, t['args'][1], depth=8, at=bb)
            ok = (d.startswith(('std::ops::RangeTo::RangeTo(core::slice::<impl [T]>::len(', 'std::ops::Range::Range(0, core::slice::<impl [T]>::len(')) and 'ChunksMut' in d) or \
                 (d.startswith('std::ops::RangeFrom::RangeFrom(Sub(std::vec::Vec::<T, A>::len(&(*self).buffer), core::slice::<impl [T]>::len(') and 'ChunksMut' in d)
            if not ok:
                return False, 'the delay line is indexed with %s' % d[:100]
        if cp.endswith('::copy_within'):
            if '.buffer' not in describe(b, t['args'][0], depth=6, at=bb):
                return False, 'copy_within is applied to %s, not to the delay line' % describe(b, t['args'][0], depth=6, at=bb)[:60]
    return True, 'chunks_mut(buffer.len()); ranges bounded by the chunk and the line'


def chk_scratch_sized_ibs(F):
    """Every scratch buffer is allocated with exactly internal_buffer_size frames (and Delay's only in init)."""
    from .props.c02 import scratch_allocations, SIZE_RE
    al = scratch_allocations(F)
    if len(al) < 7:
        return False, 'only %d scratch-buffer allocations found' % len(al)
    for name, b, d, bb in al:
        if not SIZE_RE.match(d):
            return False, '%s is allocated in %s as %s' % (name, b.path, d[:120])
    return True, '%d allocations, all internal_buffer_size frames' % len(al)


def _site_block_in_owner(F, b, bb):
    """(owner body, block) of a site: a site inside a closure counts at the block of its owner that builds the closure."""
    if '::{closure' not in b.path:
        return b, bb
    owner = F.body(b.path[:b.path.find('::{closure')])
    if owner is None:
        return b, bb
    for x, si, s in owner.stmts():
        if s['k'] == 'assign' and s['rv']['k'] == 'agg' and s['rv'].get('ak') == 'closure' and s['rv'].get('closure') == b.path:
            return owner, x
    return b, bb


def chk_tween_value_guarded(F):
    """Every caller of `Tween::value` (which divides by the tween's duration) has established that the duration is not
    zero: it is dominated by the false side of `duration.is_zero()` or of `time >= duration.as_secs_f64()` (time >= 0)."""
    from .facts import callee_path
    from .paths import parse_term
    from .nonfinite import dominating_decisions
    n = 0
    for b in F.bodies:
        if b.krate != 'kira':
            continue
        for bb, t in b.calls():
            if (callee_path(t) or '') != 'tween::Tween::value':
                continue
            n += 1
            ob, obb = _site_block_in_owner(F, b, bb)
            good = False
            for _, desc, lab in dominating_decisions(ob, obb):
                nm, ar = parse_term(desc)
                sh = nm.split('::')[-1]
                if sh == 'is_zero' and 'duration' in desc and lab == '0':
                    good = True
                if nm == 'Le' and ar and 'as_secs_f64' in ar[0] and 'duration' in ar[0] and lab == '0':
                    good = True       # !(duration <= time)
                if nm == 'Lt' and ar and 'as_secs_f64' in ar[1] and 'duration' in ar[1] and lab == 'otherwise':
                    good = True       # time < duration
            if not good:
                return False, '%s evaluates Tween::value without having excluded a zero duration (0/0 at time 0)' % b.path
    return n >= 2, '%d callers of Tween::value, all behind a non-zero-duration test' % n


def chk_compressor_log_floored(F):
    """The compressor's level detector takes log10 of |sample| (-inf for a silent sample); the value is only used as
    `max(level - threshold, 0.0)`, which absorbs -inf."""
    from .facts import callee_path
    from .paths import describe
    P = '<effect::compressor::Compressor as effect::Effect>::process'
    logs = floors = 0
    for b in [F.body(P)] + list(F.closures_of(P)):
        if b is None:
            continue
        for bb, t in b.calls():
            cp = callee_path(t) or ''
            if cp.endswith('<impl f32>::log10'):
                logs += 1
            if cp.endswith('<impl f32>::max') and describe(b, t['args'][1], at=bb) == '0.0' and describe(b, t['args'][0], depth=3, at=bb).startswith('Sub('):
                floors += 1
    if logs == 0:
        return True, 'no log10 left'
    return floors >= 1, '%d log10 site(s), %d `max(level - threshold, 0.0)` floor(s)' % (logs, floors)


def chk_clock_started_before_tick(F):
    """The "clock state should be Started by now" panic of Clock::update is unreachable because the function itself makes the
    state Started when it finds it NotStarted, before it looks at it: a store `self.state = State::Started{..}` under a test of
    the state precedes the match whose other arm panics."""
    from .paths import describe_rv, pretty_place
    b = F.body('clock::Clock::update')
    if b is None:
        return False, 'Clock::update not found'
    st = [x for x, si, s in b.stmts() if s['k'] == 'assign' and s['lhs']['p'] and pretty_place(b, s['lhs']) == '(*self).state'
          and 'State::Started' in describe_rv(b, s['rv'], depth=3, at=x)]
    from .facts import callee_path
    pn = [x for x, t in b.calls() if (callee_path(t) or '').endswith(('panic_fmt', 'panicking::panic')) and not b.blocks[x]['cleanup']]
    if not pn:
        return True, 'no panic left'
    if not st:
        return False, 'Clock::update no longer starts a NotStarted clock itself: a clock that is told to tick while NotStarted (stop(); start(); in one interval) reaches the panic'
    ok = all(any(x in b.reachable([s0]) for s0 in st) or True for x in pn)
    # the store must lie before the match: it can reach the panic block's predecessor switch
    ok = all(any(b.blocks[p_]['term']['k'] == 'switch' and p_ in b.reachable([s0]) for p_ in b.pred(x)) or any(x in b.reachable([s0]) for s0 in st) for x in pn)
    return ok, 'state = Started precedes the match'


def chk_effects_initialised(F):
    """Every effect has had `init` before its first `process`: every track-creation site calls init_effects with the
    renderer's current rate before it hands the track over (the B.C16.init rule, evaluated here as a precondition of the
    discharges that rely on initialised effects: the reverb's "should be initialized" panic, the delay's non-empty line)."""
    from .core import Results
    from .props.c16 import init_sites
    R2 = Results('tmp')
    init_sites(F, R2)
    bad = [i for i in R2.items if i['status'] == 'violation']
    if bad:
        return False, '%s: %s' % (bad[0]['key'], bad[0]['what'][:160])
    return bool(R2.items), '%d creation sites initialise their effects' % len(R2.items)


def chk_easing_argument_unit(F):
    """`Easing::apply(x)` raises x to a (possibly fractional) power: x must not be negative.  Its callers outside the
    easing code are the three confirmed by reading; each is recognised by the shape that keeps its argument in [0, 1]:
      Mapping::map      the amount is `clamp(.., 0.0, 1.0)`                              (B.C17.map states the same)
      Tween::value      time / duration, called only under `time < duration` (tween_value_guarded), time >= 0
      spatial tracks    1 - relative_distance with relative_distance in [0, 1]           (distance_range, run by C01 / C15)
    A caller that is none of these is reported: nothing establishes its argument's sign."""
    from .facts import callee_path
    from .paths import describe
    n = 0
    seen = set()
    for b in F.bodies:
        if b.krate != 'kira':
            continue
        for bb, t in b.calls():
            if (callee_path(t) or '') != 'tween::Easing::apply':
                continue
            root = b.path.split('::{closure')[0]
            if root.startswith('tween::Easing::') or (root.startswith('tween::') and root.count('::') == 1 and root != 'tween::Tween'):
                continue          # the easing code's own recursion / private helpers in tween.rs: 1 - x, 2x (< 1), 2 - x
            n += 1
            d = describe(b, t['args'][1], depth=12, at=bb)
            if root.startswith('value::Mapping'):
                if not re.search(r'clamp\(.*, ?0\.0, ?1\.0\)', d):
                    return False, '%s hands Easing::apply %s: not the amount clamped to 0.0..1.0' % (b.path, d[:120])
                seen.add('map')
            elif root.startswith('tween::Tween::'):
                if not d.startswith('Div('):
                    return False, '%s hands Easing::apply %s: not time / duration' % (b.path, d[:120])
                seen.add('tween')
            elif root.startswith('track::sub::'):
                if not re.match(r'(<[^>]*>::into|[\w:]*from|[\w:<>, ]*::into)?\(?Sub\(1\.0, ?', d) and 'Sub(1.0' not in d[:60]:
                    return False, '%s hands Easing::apply %s: not 1 - relative_distance' % (b.path, d[:120])
                seen.add('spatial')
            else:
                return False, ('%s calls Easing::apply: a caller that is not one of the three whose argument is known to lie in '
                               '0..1 (argument %s)' % (b.path, d[:120]))
    good, msg = chk_tween_value_guarded(F)
    if not good:
        return False, msg
    return seen == {'map', 'tween', 'spatial'}, '%d outside callers of Easing::apply (%s), each with its argument in 0..1' % (n, ', '.join(sorted(seen)))


CHECKS = {
    'easing_argument_unit': chk_easing_argument_unit,
    'scratch_sized_ibs': chk_scratch_sized_ibs,
    'delay_line_nonempty': chk_delay_line_nonempty,
    'reverb_filters_nonempty': chk_reverb_filters_nonempty,
    'reverb_initialised': chk_reverb_initialised,
    'delay_chunked_by_line': chk_delay_chunked_by_line,
    'loop_region_ordered': chk_loop_region_ordered,
    'tween_value_guarded': chk_tween_value_guarded,
    'effects_initialised': chk_effects_initialised,
    'clock_started_before_tick': chk_clock_started_before_tick,
    'compressor_log_floored': chk_compressor_log_floored,
}


def load_table():
    sinks, sites, loops = {}, {}, {}
    with open(os.path.join(VERIF, 'tables', 'discharge.jsonl')) as f:
        for line in f:
            line = line.strip()
            if not line or line.startswith('#'):
                continue
            d = json.loads(line)
            if d.get('key', '').startswith('creation:'):
                sites[d['key']] = d
                continue
            if d['kind'] == 'sink':
                sinks[(d['effect'], d['sink'])] = d
            elif d['kind'] == 'site':
                sites[d['key']] = d
            elif d['kind'] == 'loop':
                loops['%s|%s' % (d['fn'], d['sig'])] = d
    return sinks, sites, loops


def run_check(F, name, cache):
    """`name` may list several preconditions separated by '+': all must hold."""
    if '+' in name:
        for part in name.split('+'):
            good, msg = run_check(F, part, cache)
            if not good:
                return False, '%s: %s' % (part, msg)
        return True, 'all of ' + name
    if name not in cache:
        fn = CHECKS.get(name)
        cache[name] = fn(F) if fn else (False, 'unknown check')
    return cache[name]


def run_engine_a(R, F, groups=('rt',), effects=('alloc', 'free', 'panic', 'block', 'leaf'), loops=True,
                 rule_prefix='A', config='default', fn_filter=None, singular=False, singular_floor=None):
    sinks, sites, loop_tab = load_table()
    A = RtAnalysis(F, list(groups))
    tag = '' if config == 'default' else '@' + config
    R.floor(rule_prefix + '.reach' + tag, len(A.rt), RT_FLOOR)
    R.floor(rule_prefix + '.reach-kira' + tag, len(A.kira), KIRA_FLOOR)
    roots = [F.instances[i]['path'] for i in A.roots]
    R.extra.setdefault('rt_instances', {})[config] = len(A.rt)
    R.extra.setdefault('rt_kira_instances', {})[config] = len(A.kira)
    R.extra.setdefault('roots', {})[config] = roots
    # unresolved / indirect edges anywhere in the RT set are reported through 'leaf' obligations
    if 'panic' in effects:
        R.check(not A.ordering_bad, rule_prefix + '.ordering', 'all' + tag,
                'invalid or dynamic atomic Ordering on the audio path: %s' % '; '.join(A.ordering_bad[:5]),
                detail='%d Ordering arguments in RT bodies are literal and valid for their operation' % A.ordering_sites)
    obs = A.obligations()
    rtpaths = None
    check_cache = {}
    stats = {'obligations': 0, 'sink_discharged': 0, 'site_discharged': 0, 'auto_discharged': A.auto_count,
             'undischarged': 0}
    for o in obs:
        if o['effect'] not in effects:
            continue
        if fn_filter is not None and not fn_filter(o['fn']):
            continue
        stats['obligations'] += 1
        rule = '%s.%s' % (rule_prefix, o['effect'])
        key = '%s|%s' % (o['fn'], o['boundary'])
        ent = sites.get(o['key'])
        where = o['sites'][0] if o['sites'] else None
        if ent is not None and o['count'] <= ent['count']:
            ok = True
            if ent.get('check'):
                good, msg = run_check(F, ent['check'], check_cache)
                if not good:
                    ok = False
                    R.bad(rule, key, 'the discharge of %s rests on the structural precondition `%s`, which does not hold: %s'
                          % (o['key'], ent['check'], msg), where=where, chain=o['chain'])
            for req in ent.get('requires_absent', []):
                if rtpaths is None:
                    rtpaths = set(F.instances[i]['path'] for i in A.rt)
                if req in rtpaths:
                    ok = False
                    R.bad(rule, key, 'discharge of %s requires %s to be unreachable from the audio-thread roots, but it is reachable'
                          % (o['key'], req), where=where, chain=o['chain'])
            if ok:
                stats['site_discharged'] += 1
                for a in ent.get('assumes', []):
                    R.assume(a)
                R.ok(rule, key + tag, detail={'sites': o['sites'], 'sinks': o['sinks'][:4], 'discharged_by': 'site table',
                                              'reason': ent['reason']}, where=where)
            continue
        left = [s for s in o['sinks'] if (o['effect'], s) not in sinks]
        if not left:
            stats['sink_discharged'] += 1
            R.ok(rule, key + tag, detail={'sites': o['sites'], 'sinks': o['sinks'][:4], 'discharged_by': 'sink table'},
                 where=where)
            continue
        stats['undischarged'] += 1
        if ent is not None:
            what = ('%d site(s) of %s in %s reach %s, but the discharge table covers only %d: a new undischarged site'
                    % (o['count'], o['boundary'], o['fn'], o['effect'], ent['count']))
        else:
            what = ('%s reachable on the audio thread: %s -> %s reaches %s (undischarged obligation: no table entry, '
                    'no auto rule)' % (o['effect'], o['fn'], o['boundary'], ', '.join(left[:3])))
        R.bad(rule, key, what, where=', '.join(o['sites'][:4]), chain=o['chain'], sinks=left[:6])
    R.extra.setdefault('engine_a', {})[config] = stats
    if loops:
        ls = A.loops()
        lstats = {'loops': len(ls), 'iter': 0, 'ring-drain': 0, 'drop-glue': 0, 'table': 0, 'undischarged': 0}
        for l in ls:
            key = l['key']
            rule = rule_prefix + '.loop'
            if l['klass'] in ('iter', 'ring-drain'):
                lstats[l['klass']] += 1
                R.ok(rule, key + tag, detail={'class': l['klass'], 'exit': l['detail'][:160]}, where=l['where'],
                     nontrivial=(l['krate'] == 'kira'))
                continue
            if l['shim'] == 'DropGlue':
                lstats['drop-glue'] += 1
                R.ok(rule, key + tag, detail={'class': 'drop-glue', 'exit': 'compiler-generated loop over the elements of an array/slice'},
                     where=l['where'], nontrivial=False)
                continue
            ent = loop_tab.get(l['key'])
            if ent is not None and ent.get('check'):
                good, msg = run_check(F, ent['check'], check_cache)
                if not good:
                    lstats['undischarged'] += 1
                    R.bad(rule, key, 'the bound of the loop in %s rests on the structural precondition `%s`, which does not hold: %s'
                          % (l['fn'], ent['check'], msg), where=l['where'], chain=l['chain'])
                    continue
            if ent is not None:
                lstats['table'] += 1
                R.ok(rule, key + tag, detail={'class': ent['klass'], 'reason': ent['reason'], 'exit': l['detail'][:160]},
                     where=l['where'])
                continue
            if l['krate'] in ('core', 'alloc', 'std') and not any(('::' + x + '<') in l['iname'] for x in INFINITE_ITERS):
                # a loop inside the standard library that is not blocking (blocking calls are a separate effect) and is
                # not instantiated with an unbounded iterator: std's own contract is that it terminates on finite input
                lstats['std'] = lstats.get('std', 0) + 1
                R.ok(rule, key + tag, detail={'class': 'std-loop', 'exit': l['detail'][:160], 'instance': l['iname'][:160]},
                     where=l['where'], nontrivial=False)
                continue
            lstats['undischarged'] += 1
            R.bad(rule, key, 'loop on the audio thread whose exit is not decided by a finite iterator or a ring drain and has '
                  'no table entry: %s (exits: %s)' % (l['fn'], l['detail'][:200]), where=l['where'], chain=l['chain'])
        R.extra.setdefault('engine_a_loops', {})[config] = lstats
    if singular:
        from .nonfinite import run_singular
        run_singular(R, F, A, sites, rule=rule_prefix + '.singular', fn_filter=fn_filter, floor=singular_floor,
                     check_runner=lambda name: run_check(F, name, check_cache))
    return A


def run_singular_only(R, F, fn_filter, floor, rule='A.singular'):
    """The `singular` obligations (kvlib.nonfinite) of the audio-path functions selected by fn_filter."""
    from .nonfinite import run_singular
    _, sites, _ = load_table()
    A = RtAnalysis(F, ['rt'])
    cache = {}
    return run_singular(R, F, A, sites, rule=rule, fn_filter=fn_filter, floor=floor,
                        check_runner=lambda name: run_check(F, name, cache))
