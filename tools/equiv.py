#!/usr/bin/env python3
"""Systematic behaviour-preserving single-line edits (controls): commute `+`, `*`, `==`, `!=` between two simple operands,
mirror a comparison (`a < b` -> `b > a`), `if c {A} else {B}` is not attempted.  Every alarm on such an edit is a false
alarm (or a mis-parse of this tool: triage by hand).  usage: tools/equiv.py [--max N] [--workers 8] [--out /tmp/equiv.jsonl]"""
import concurrent.futures, glob, json, os, random, re, shutil, subprocess, sys, tempfile
VERIF = os.path.dirname(os.path.dirname(os.path.abspath(__file__)))
SRC = 'crates/kira/src'
PROPS = ['C01', 'C02', 'C03', 'C05', 'C06', 'C07', 'C08', 'C09', 'C10', 'C12', 'C13', 'C15', 'C16', 'C17', 'C18', 'C19']
OPND = r'(?:[A-Za-z_][\w]*(?:\.[A-Za-z_0-9]\w*)*|\d+(?:\.\d+)?(?:_?[a-z]\w*)?)'
PAT = re.compile(r'(?P<pre>(?:^|[\(=,\{]|return|&&|\|\|)\s*)(?P<a>%s) (?P<op>==|!=|\+|\*|<=|>=|<|>) (?P<b>%s)(?P<post>\s*(?:[\);,\{]|&&|\|\||$))' % (OPND, OPND))
MIRROR = {'<': '>', '>': '<', '<=': '>=', '>=': '<=', '==': '==', '!=': '!=', '+': '+', '*': '*'}


def candidates(text):
    out = []
    lines = text.split('\n')
    for i, l in enumerate(lines):
        st = l.strip()
        if re.match(r'^(pub )?mod tests? \{', st):
            break
        if not st or st.startswith(('//', '#', '/*', '*', 'use ', 'pub use', 'fn ', 'pub fn', 'impl', 'where', 'type ', 'pub type')) or '->' in st or '=>' in st or '<' in st and '>' in st:
            continue
        if not l.startswith('\t\t'):
            continue
        m = PAT.search(l)
        if not m or m.group('a') == m.group('b'):
            continue
        if m.group('op') in ('<', '>') and ('::' in l or 'impl' in l):
            continue
        new = l[:m.start()] + m.group('pre') + m.group('b') + ' ' + MIRROR[m.group('op')] + ' ' + m.group('a') + m.group('post') + l[m.end():]
        if new != l:
            out.append((i, new, 'commute' + m.group('op')))
    return out


def run(args):
    slot, mu = args
    d = tempfile.mkdtemp(prefix='kvequiv-')
    try:
        for item in ('crates', 'Cargo.toml', 'Cargo.lock'):
            s = os.path.join('/repo', item)
            t = os.path.join(d, item)
            if os.path.isdir(s):
                shutil.copytree(s, t, ignore=shutil.ignore_patterns('target'))
            else:
                shutil.copy(s, t)
        f = os.path.join(d, SRC, mu['file'])
        lines = open(f).read().split('\n')
        lines[mu['line']] = mu['new']
        open(f, 'w').write('\n'.join(lines))
        env = dict(os.environ, KV_REPO=d, KV_EVIDENCE=os.path.join(d, 'ev'), KV_NO_SELFTEST='1', KV_KEEP_FACTS='1',
                   KV_TARGET=os.path.join(VERIF, '.cache', 'target-scratch-%d' % (50 + slot)))
        alarms = {}
        for p in PROPS:
            x = subprocess.run([os.path.join(VERIF, 'kv'), 'check', p], env=env, stdout=subprocess.PIPE, stderr=subprocess.STDOUT, text=True)
            if x.returncode == 2 and 'building facts failed' in x.stdout:
                return dict(mu, status='no-compile')
            if x.returncode == 1:
                alarms[p] = [l.split('key=')[1].strip() for l in x.stdout.splitlines() if l.strip().startswith('rule=')][:3]
            elif x.returncode != 0:
                alarms[p] = ['CRASH ' + x.stdout[-200:]]
        return dict(mu, status='ALARM' if alarms else 'silent', alarms=alarms)
    finally:
        shutil.rmtree(d, ignore_errors=True)


def main():
    a = sys.argv[1:]
    def opt(n, dflt=None):
        return a[a.index(n) + 1] if n in a else dflt
    mx = int(opt('--max', '100000'))
    nw = int(opt('--workers', '8'))
    out = opt('--out', '/tmp/equiv.jsonl')
    random.seed(1)
    mus = []
    for f in sorted(glob.glob('/repo/%s/**/*.rs' % SRC, recursive=True)):
        fn = f[len('/repo/%s/' % SRC):]
        if fn.endswith('test.rs') or '/test' in fn or fn in ('test_helpers.rs', 'lib.rs') or 'wasm' in fn:
            continue
        text = open(f).read()
        for i, new, op in candidates(text):
            mus.append({'file': fn, 'line': i, 'old': text.split('\n')[i], 'new': new, 'op': op})
    random.shuffle(mus)
    mus = mus[:mx]
    print('%d equivalent edits' % len(mus), flush=True)
    import queue
    q = queue.Queue()
    for i in range(nw):
        q.put(i)

    def work(mu):
        s = q.get()
        try:
            return run((s, mu))
        finally:
            q.put(s)
    stats = {}
    with open(out, 'a') as fo, concurrent.futures.ThreadPoolExecutor(max_workers=nw) as ex:
        for r in ex.map(work, mus):
            stats[r['status']] = stats.get(r['status'], 0) + 1
            fo.write(json.dumps(r) + '\n')
            fo.flush()
            if r['status'] == 'ALARM':
                print('ALARM %s:%d [%s] %s  ->  %s   %s' % (r['file'], r['line'] + 1, r['op'], r['old'].strip()[:60], r['new'].strip()[:60], json.dumps(r['alarms'])[:200]), flush=True)
    print(stats)


if __name__ == '__main__':
    main()
