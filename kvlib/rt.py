"""Engine A — rt-reach: whole-program effect analysis of the audio callback.

Input: the monomorphic instance graph exported by the driver (resolved callees,
virtual fan-out, drop glue).  Output: a list of *obligations*, one per
(effect, kira function, boundary callee) with the number of sites, the shortest
call chain from a root and the sink reached.  Nothing is decided here: the
caller discharges obligations against tables/discharge.jsonl and
known_findings.jsonl.
"""
from collections import defaultdict, deque
from .facts import const_value, is_const, callee_path

ALLOC = {'alloc::alloc::__rust_alloc', 'alloc::alloc::__rust_alloc_zeroed',
         'alloc::alloc::__rust_realloc'}
FREE = {'alloc::alloc::__rust_dealloc'}

# leaves without MIR that are known not to allocate, block or panic
BENIGN_LEAF_PREFIX = (
    'std::sys::cmath::',            # libm
    'core::core_arch::',            # SIMD intrinsics
    'alloc::alloc::__rust_no_alloc_shim_is_unstable',
)
# formatting leaves: pure, write into a caller-supplied Formatter (only ever on a panic path here)
FMT_LEAF_MARK = ('::fmt',)

BLOCKING_PREFIX = (
    'std::thread::', 'std::sys::pal::', 'std::sys::sync::', 'std::sync::mpsc', 'std::sync::mpmc',
    'std::sync::Condvar', 'std::sync::poison::condvar', 'std::sync::poison::mutex',
    'std::sync::Mutex', 'std::sync::RwLock', 'std::sync::poison::rwlock', 'std::io::', 'std::fs::',
    'std::net::', 'std::process::', 'std::env::', 'std::sys::thread', 'std::sys::fs', 'std::sys::io',
    'std::sys::net', 'std::sys::process', 'std::sys::os', 'std::sys::stdio', 'std::sys::futex',
    'std::sys::sync', 'std::time::Instant::now', 'std::time::SystemTime::now', 'std::sys::time',
    'std::sys::pal::unix::time', 'std::sys::pal::unix::futex', 'std::sys::pal::unix::thread',
    'std::os::', 'std::sys::random', 'std::backtrace', 'std::sys::backtrace',
)


def is_kira(inst):
    return inst['krate'] == 'kira'


_BASE = [None]


def baseline_fns():
    if _BASE[0] is None:
        import json, os
        p = os.path.join(os.path.dirname(os.path.dirname(os.path.abspath(__file__))), 'tables', 'names_baseline.json')
        _BASE[0] = set(json.load(open(p))['fns']) if os.path.exists(p) else set()
    return _BASE[0]


def strip_closures(path):
    """Obligations inside a closure are attributed to the function that contains it (closure numbering is not stable)."""
    i = path.find('::{closure')
    return path[:i] if i >= 0 else path


def classify_leaf(inst):
    """-> (effect or None, note).  effect in alloc/free/panic/block/leaf/None(benign)"""
    p = inst['path']
    if p in ALLOC:
        return 'alloc', p
    if p in FREE:
        return 'free', p
    if inst.get('never'):
        return 'panic', p
    if inst['leaf'] == 'intrinsic':
        return None, 'intrinsic'
    if inst['leaf'] == 'virtual':
        return None, 'virtual'
    if inst['leaf'] == 'ctor':
        return None, 'ctor'
    for pre in BLOCKING_PREFIX:
        if p.startswith(pre):
            return 'block', p
    for pre in BENIGN_LEAF_PREFIX:
        if p.startswith(pre):
            return None, 'benign'
    if inst['leaf'] == 'no-mir' and p.endswith('::fmt'):
        return None, 'fmt'
    if inst['leaf'] in ('no-mir', 'foreign'):
        return 'leaf', p
    return None, ''


def is_filtered(inst):
    """Instances not followed: ub_checks-guarded precondition checks of std's
    unsafe helpers (they guard UB, not behaviour; compiled out in release)."""
    return inst['path'].endswith('::precondition_check')


class RtAnalysis:
    def __init__(self, F, groups, overflow=False):
        self.F = F
        self.groups = groups
        self.roots = F.root_instances(groups)
        self.rt, self.parent = F.reach_instances(self.roots)
        # drop filtered instances and what is only reachable through them
        self.rt, self.parent = self._reach_filtered()
        self.kira = [i for i in self.rt if is_kira(F.instances[i])]
        self._memo = {}
        self.auto_count = 0
        OVERFLOW_ON[0] = bool(F.overflow_checks)
        self.ordering_sites, self.ordering_bad = self.check_orderings()

    def owner_of(self, k):
        """The function an obligation of instance k is reported under: the enclosing function of a closure; for a function
        that did not exist on the pinned tree (an extracted helper), its nearest caller that did.  A closure written in such
        a helper belongs to the helper's callers, not to whoever happens to invoke the closure."""
        F = self.F
        base = baseline_fns()
        if getattr(self, '_by_path', None) is None:
            self._by_path = {}
            for i in self.rt:
                self._by_path.setdefault(F.instances[i]['path'], i)
        cur = k
        for _ in range(12):
            full = F.instances[cur]['path']
            p = strip_closures(full)
            if not base or p in base or F.instances[cur]['krate'] != 'kira':
                return p
            if p != full and p in self._by_path and self._by_path[p] != cur:
                cur = self._by_path[p]          # lexical owner of the closure
                continue
            par = self.parent.get(cur)
            if not par:
                return p
            cur = par[0]
            # skip non-kira frames between the helper and its kira caller
            while F.instances[cur]['krate'] != 'kira' and self.parent.get(cur):
                cur = self.parent[cur][0]
        return strip_closures(F.instances[k]['path'])

    def _reach_filtered(self):
        F = self.F
        seen = set()
        parent = {}
        dq = deque()
        for r in self.roots:
            parent[r] = None
            dq.append(r)
        while dq:
            x = dq.popleft()
            if x in seen:
                continue
            seen.add(x)
            if is_filtered(F.instances[x]):
                continue
            for e in F.out.get(x, []):
                t = e['to']
                if t is None:
                    continue
                if t not in parent:
                    parent[t] = (x, e)
                    dq.append(t)
        return seen, parent

    # effects reachable from instance c through non-kira instances only
    def effects_from(self, c):
        """Effects reachable from instance c through non-kira instances only.
        -> {(effect, sink description): chain of instance indices}.  A panic sink is
        named by the function that contains the diverging call (or the assert)."""
        F = self.F
        if c in self._memo:
            return self._memo[c]
        eff = {}
        cinst = F.instances[c]
        if cinst['leaf'] or cinst.get('never'):
            e, note = classify_leaf(cinst)
            if e == 'panic':
                note = '-> ' + note
            if e:
                eff[(e, note)] = (c,)
            self._memo[c] = eff
            return eff
        seen = set()
        stack = [(c, (c,))]
        while stack:
            x, ch = stack.pop()
            if x in seen:
                continue
            seen.add(x)
            inst = F.instances[x]
            if is_filtered(inst):
                continue
            if x != c and is_kira(inst):
                continue
            if not is_kira(inst):
                b = F.body_of_instance(x)
                if b is not None:
                    idead = set(inst.get('dead') or ())
                    for bi, blk in enumerate(b.blocks):
                        if blk['cleanup'] or bi in idead:
                            continue
                        t = blk['term']
                        if t['k'] == 'assert':
                            if auto_assert(b, t):
                                continue
                            eff.setdefault(('panic', 'assert:%s in %s' % (t['msg'], via(F, ch))), ch)
                        elif t['k'] == 'asm':
                            eff.setdefault(('leaf', 'inline asm in %s' % inst['path']), ch)
            for e in F.out.get(x, []):
                t = e['to']
                if t is None:
                    if e['kind'] in ('unresolved', 'indirect', 'generic-impl', 'asm'):
                        eff.setdefault(('leaf', '%s in %s: %s' % (e['kind'], inst['path'], e.get('note'))), ch)
                    continue
                tinst = F.instances[t]
                if is_filtered(tinst):
                    continue
                if tinst['leaf'] or tinst.get('never'):
                    k, note = classify_leaf(tinst)
                    if k == 'panic':
                        note = '%s -> %s' % (via(F, ch), note)
                    elif k == 'leaf' or k == 'block':
                        note = '%s -> %s' % (inst['path'], note)
                    if k:
                        eff.setdefault((k, note), ch + (t,))
                    if tinst['leaf'] != 'virtual':
                        continue
                if t not in seen:
                    stack.append((t, ch + (t,)))
        self._memo[c] = eff
        return eff

    # ------------------------------------------------------------ argument-sensitive auto rules
    def check_orderings(self):
        """A.ordering: every `Ordering` argument passed in a body on the RT path is a
        literal variant that is valid for the operation, or the enclosing function's own
        parameter handed through.  When this holds, the "invalid memory ordering" panics
        inside core::sync::atomic are unreachable."""
        from .facts import trace
        F = self.F
        seen = set()
        n = 0
        bad = []
        for i in sorted(self.rt):
            b = F.body_of_instance(i)
            if b is None or b.idx in seen:
                continue
            seen.add(b.idx)
            for bb, t in b.calls():
                c = t.get('callee') or {}
                name = c.get('name') or ''
                ords = [a for a in t['args'] if (a.get('pl') or a).get('ty') == 'std::sync::atomic::Ordering']
                if not ords:
                    continue
                for pos, a in enumerate(ords):
                    n += 1
                    v = None
                    for st in trace(b, a):
                        if st['kind'] == 'rv' and st['rv']['k'] == 'agg' and st['rv'].get('adt') == 'std::sync::atomic::Ordering':
                            v = st['rv']['variant']
                        elif st['kind'] == 'arg':
                            v = '<param>'
                        elif st['kind'] == 'const':
                            v = st['op'].get('text', '').split('::')[-1]
                    if v is None:
                        v = self._multi_ordering(b, a)
                    if v is None:
                        bad.append('%s: dynamic Ordering passed to %s' % (b.where(bb), callee_path(t)))
                        continue
                    if v == '<param>':
                        continue
                    vs = v if isinstance(v, (list, set)) else [v]
                    for v1 in vs:
                        if not ordering_valid(name, pos, len(ords), v1):
                            bad.append('%s: Ordering::%s is invalid for %s' % (b.where(bb), v1, callee_path(t)))
        return n, bad

    def _multi_ordering(self, b, a):
        """A local assigned on several paths (e.g. a `match` computing the failure
        ordering in std): all definitions must be literal variants."""
        from .facts import op_local
        l = op_local(a)
        if l is None:
            return None
        vs = set()
        for d in b.defs().get(l, []):
            if d[0] == 'stmt' and d[3]['rv']['k'] == 'agg' and d[3]['rv'].get('adt') == 'std::sync::atomic::Ordering':
                vs.add(d[3]['rv']['variant'])
            elif d[0] == 'stmt' and d[3]['rv']['k'] == 'use':
                o = d[3]['rv']['op']
                l2 = op_local(o)
                if l2 is not None and 1 <= l2 <= b.arg_count:
                    continue
                return None
            else:
                return None
        return vs or None

    def auto_sink(self, body, term, tinst, sink):
        from .facts import trace
        # invalid-ordering panics: discharged globally by A.ordering
        if sink.startswith('std::sync::atomic::') and sink.endswith('-> std::rt::panic_fmt') and not self.ordering_bad:
            return True
        # f32/f64::clamp(x, min, max) panics iff !(min <= max): literal bounds
        if sink.startswith('core::f32::<impl f32>::clamp ->') or sink.startswith('core::f64::<impl f64>::clamp ->'):
            if tinst['path'] in ('core::f32::<impl f32>::clamp', 'core::f64::<impl f64>::clamp') and term['k'] == 'call':
                lo = const_of(body, term['args'][1])
                hi = const_of(body, term['args'][2])
                if lo is not None and hi is not None and lo <= hi:
                    return True
                if clamp_guarded(body, term):
                    return True
        # chunks/chunks_mut(n) panics iff n == 0: literal non-zero size
        if sink.startswith('core::slice::<impl [T]>::chunks') and tinst['path'].startswith('core::slice::<impl [T]>::chunks') and term['k'] == 'call':
            n = const_of(body, term['args'][1])
            if n is not None and n > 0:
                return True
        return False

    def obligations(self):
        """-> list of obligation dicts."""
        F = self.F
        obs = {}

        def add(effect, kfn, boundary, sink, where, chain, inst_idx, site=None):
            boundary = norm_boundary(boundary)
            key = '%s|%s|%s' % (effect, kfn, boundary)
            o = obs.get(key)
            if o is None:
                o = obs[key] = {'key': key, 'effect': effect, 'fn': kfn, 'boundary': boundary,
                                'sites': set(), 'ids': set(), 'sinks': set(), 'chain': None, 'where': []}
            o['sites'].add(where)
            # a site is one MIR terminator (two index expressions on one source line are two sites; the count must
            # not depend on how the line is wrapped)
            o['ids'].add(site if site is not None else where)
            o['sinks'].add(sink)
            if o['chain'] is None:
                o['chain'] = chain

        base = baseline_fns()

        owner_of = self.owner_of

        for k in sorted(self.kira):
            inst = F.instances[k]
            body = F.body_of_instance(k)
            if body is None:
                continue
            kfn = owner_of(k)
            root_chain = F.chain(self.parent, k)
            # own asserts
            idead = set(inst.get('dead') or ())
            for bi, blk in enumerate(body.blocks):
                if blk['cleanup'] or bi in idead or blk.get('inl'):
                    continue  # (spliced-in helper blocks are analysed with the helper's own instance)
                t = blk['term']
                if t['k'] == 'assert':
                    if auto_assert(body, t):
                        continue
                    add('panic', kfn, 'assert:' + t['msg'], 'assert', body.where(bi), root_chain, k, site=(body.idx, bi))
                elif t['k'] == 'asm':
                    add('leaf', kfn, 'asm', 'inline asm', body.where(bi), root_chain, k, site=(body.idx, bi))
            for e in F.out.get(k, []):
                t = e['to']
                where = body.where(e['bb'])
                if t is None:
                    if e['kind'] in ('unresolved', 'indirect', 'generic-impl'):
                        add('leaf', kfn, e['kind'], str(e.get('note')), where, root_chain, k, site=(body.idx, e['bb']))
                    continue
                tinst = F.instances[t]
                if is_kira(tinst) and not tinst['leaf']:
                    continue
                if tinst['leaf'] == 'virtual':
                    continue  # fan-out targets are kira instances analysed on their own
                if e['kind'] in ('drop', 'vdrop'):
                    boundary = 'drop(%s)' % (e.get('note') or tinst['name'])
                else:
                    boundary = tinst['path']
                effs = self.effects_from(t)
                if not effs:
                    continue
                term = body.blocks[e['bb']]['term']
                for (eff, sink), ch in sorted(effs.items()):
                    if eff == 'panic' and self.auto_sink(body, term, tinst, sink):
                        self.auto_count += 1
                        continue
                    chain = root_chain + [F.instances[x]['name'] for x in ch]
                    add(eff, kfn, boundary, sink, where, chain, k, site=(body.idx, e['bb']))
        out = []
        for key in sorted(obs):
            o = obs[key]
            o['count'] = len(o['ids'])
            del o['ids']
            o['sites'] = sorted(o['sites'])
            o['sinks'] = sorted(o['sinks'])
            out.append(o)
        return out

    # ------------------------------------------------------------ loops
    def loops(self):
        """Every natural loop in a body of an RT instance (deduplicated per body).
        -> list of {fn (owner), krate, sig, key, where, klass, detail}.  A loop is identified by the function that owns it
        (closures and extracted helpers are attributed to their owner) and by the signature of its exit tests, not by its
        position in the function."""
        import re
        F = self.F
        base = baseline_fns()

        owner_of = self.owner_of
        seen_bodies = {}
        for i in sorted(self.rt):
            b = F.body_of_instance(i)
            if b is None or b.idx in seen_bodies:
                continue
            seen_bodies[b.idx] = i
        out = []
        counts = {}
        for bidx, i in sorted(seen_bodies.items()):
            b = F.all_bodies[bidx]
            owner = owner_of(i)
            for n, l in enumerate(b.loops()):
                if b.blocks[l['header']].get('inl'):
                    continue  # loop of a spliced-in helper: reported with the helper's own instance
                klass, detail = classify_loop(b, l)
                sig = ';'.join(sorted(set(re.sub(r'@bb\d+', '', d.strip()) for d in detail.split(';'))))
                sig = re.sub(r'_\d+', '_', sig)[:160]
                c = counts.get((owner, sig), 0)
                counts[(owner, sig)] = c + 1
                key = '%s|%s' % (owner, sig) + ('#%d' % c if c else '')
                out.append({'fn': owner, 'krate': b.krate, 'sig': sig, 'key': key, 'header': l['header'],
                            'where': b.where(l['header']), 'klass': klass, 'detail': detail,
                            'chain': F.chain(self.parent, i), 'shim': b.j.get('shim'), 'iname': F.instances[i]['name']})
        return out


OVERFLOW_ON = [False]

# thin std wrappers: a panic inside them is named after the function that called the wrapper
WRAPPERS = (
    'std::option::Option::<T>::unwrap', 'std::option::Option::<T>::expect',
    'std::result::Result::<T, E>::unwrap', 'std::result::Result::<T, E>::expect',
    'std::result::Result::<T, E>::unwrap_err', 'std::result::Result::<T, E>::expect_err',
    '<usize as std::slice::SliceIndex<[T]>>::index', '<usize as std::slice::SliceIndex<[T]>>::index_mut',
    'core::slice::index::<impl std::ops::Index<I> for [T]>::index',
    'core::slice::index::<impl std::ops::IndexMut<I> for [T]>::index_mut',
    '<std::vec::Vec<T, A> as std::ops::Index<I>>::index',
    '<std::vec::Vec<T, A> as std::ops::IndexMut<I>>::index_mut',
    'core::array::<impl std::ops::Index<I> for [T; N]>::index',
    'core::array::<impl std::ops::IndexMut<I> for [T; N]>::index_mut',
)


INDEX_RE = None


def norm_boundary(b):
    """All forms of slice/Vec/array indexing are one obligation class ('index'): `v[i]` on a Vec is a call of
    Index::index, on a slice it is a BoundsCheck assert, and which one a site is changes with the receiver's type."""
    import re
    global INDEX_RE
    if INDEX_RE is None:
        INDEX_RE = re.compile(r"^(<std::vec::Vec<T, A> as std::ops::Index(Mut)?<I>>::index(_mut)?"
                              r"|core::slice::index::<impl std::ops::Index(Mut)?<I> for \[T\]>::index(_mut)?"
                              r"|core::array::<impl std::ops::Index(Mut)?<I> for \[T; N\]>::index(_mut)?"
                              r"|assert:BoundsCheck)$")
    if INDEX_RE.match(b):
        return 'index'
    if b.startswith('<atomic_arena::Arena<T> as std::ops::Index'):
        return 'arena-index'
    return b


def via(F, ch, upto=None):
    """Name of the innermost function on the chain that is not a thin wrapper."""
    idx = list(ch if upto is None else ch[:upto])
    names = [F.instances[x]['path'] for x in idx]
    wr = []
    while names and names[-1] in WRAPPERS:
        wr.append(names.pop().split('::')[-1])
    if not names:
        return '<site>' + ('.' + wr[-1] if wr else '')
    return names[-1] + ('.' + wr[-1] if wr else '')


def auto_assert(body, t):
    """Auto-discharge: bounds check with a constant index below a constant length;
    Overflow asserts when the analysed configuration has overflow checks off (codegen
    drops them: `Assert(Overflow)` is an optional check, also inside std's
    #[rustc_inherit_overflow_checks] functions)."""
    if t['msg'].startswith('Overflow') and not OVERFLOW_ON[0]:
        return True
    if t['msg'] == 'Overflow(Add)' and t.get('mops'):
        # `index + 1` where the index counts the items of a slice (the counter of `slice.iter..().enumerate()`, the item of
        # `0..slice.len()`): below the slice's length, which is at most isize::MAX
        a, b_ = t['mops'].get('a'), t['mops'].get('b')
        if a is not None and b_ is not None:
            one = [o for o in (a, b_) if const_of(body, o) == 1]
            other = [o for o in (a, b_) if const_of(body, o) != 1]
            if len(one) == 1 and len(other) == 1:
                from .paths import describe
                bb = None
                for i_, blk in enumerate(body.blocks):
                    if blk['term'] is t:
                        bb = i_
                d = describe(body, other[0], depth=10, at=bb) if bb is not None else ''
                if ('Enumerate<I> as std::iter::Iterator>::next(' in d and d.endswith('as Some.0.0') and 'core::slice::<impl [T]>::iter' in d) \
                        or ('Range<A>>::next(' in d and d.endswith('as Some.0') and 'std::ops::Range::Range(0, core::slice::<impl [T]>::len(' in d):
                    return True
    if t['msg'] == 'BoundsCheck':
        ln = t['mops'].get('len')
        ix = t['mops'].get('index')
        lv = const_of(body, ln)
        iv = const_of(body, ix)
        if lv is not None and iv is not None and 0 <= iv < lv:
            return True
        # `for i in 0..x.len() { x[i] }`: the index is the item of a Range that ends at the length of the very slice indexed
        import re
        from .paths import describe
        bb = None
        for i_, blk in enumerate(body.blocks):
            if blk['term'] is t:
                bb = i_
        if bb is not None:
            ld = describe(body, ln, depth=6, at=bb)
            xd = describe(body, ix, depth=10, at=bb)
            m = re.match(r'^(?:PtrMetadata|Len)\(&?(.+)\)$', ld)
            m2 = re.search(r'Range<A>>::next\(&.*std::ops::Range::Range\([^,]+, core::slice::<impl \[T\]>::len\(&?(.+?)\)\)\)\) as Some\.0$', xd)
            if m and m2 and m.group(1).strip('()*&') == m2.group(1).strip('()*&') and re.match(r'^\(?\*?[a-z_][a-z0-9_]*\)?$', m.group(1)):
                name = m.group(1).strip('()*&')
                params = [nm for l, nm in body.names.items() if 1 <= l <= body.arg_count]
                if name in params:
                    return True
    return False


INFINITE_ITERS = ('Repeat', 'RangeFrom', 'Cycle', 'Successors', 'FromFn', 'RepeatWith', 'Iterate')
ITER_METHODS = ('next', 'next_back', 'nth', 'next_chunk')


def classify_loop(body, loop):
    """Classify a natural loop by what decides its exits.
    iter        every exit tests the Option returned by Iterator::next/next_back of a
                finite std/dependency iterator
    ring-drain  exits test the Result of rtrb Consumer::pop / read_chunk
    cas-retry   exits test the Result of an atomic compare_exchange
    other       anything else (numeric guards, counters): an obligation
    """
    blocks = loop['blocks']
    exits = []
    for b in sorted(blocks):
        for s in body.succ(b):
            if s not in blocks and not dead_end(body, s):
                exits.append((b, s))
    if not exits:
        return 'no-exit', 'loop has no exit edge'
    # calls inside the loop
    kinds = set()
    details = []
    for (b, s) in exits:
        t = body.blocks[b]['term']
        k, d = exit_kind(body, loop, b, t)
        kinds.add(k)
        details.append('%s@bb%d:%s' % (k, b, d))
    if kinds == {'iter'}:
        return 'iter', '; '.join(details)
    if kinds <= {'iter', 'ring'} and 'ring' in kinds:
        return 'ring-drain', '; '.join(details)
    if kinds == {'cas'}:
        return 'cas-retry', '; '.join(details)
    return 'other', '; '.join(details)


def exit_kind(body, loop, b, t):
    from .facts import trace, op_local
    if t['k'] == 'call':
        # an exit directly after a call (e.g. call returning to a block outside the loop): look at callee
        return 'call', callee_path(t) or '?'
    if t['k'] != 'switch':
        return t['k'], ''
    # what is switched on?
    op = t['op']
    src = switch_source(body, op)
    if src is None:
        return 'num', 'switch on %s' % (op.get('pl', {}).get('s') if 'pl' in op else op.get('text'))
    kind, callee = src
    return kind, callee


def switch_source(body, op, depth=6):
    """Trace the switch operand to the call that produced the value it tests.
    Returns ('iter'|'ring'|'cas'|'num', description) or None."""
    from .facts import op_local, is_place
    cur = op
    for _ in range(depth):
        if not is_place(cur):
            return None
        pl = cur['pl']
        l = pl['l']
        if pl['p']:
            # projection of a local: look at the def of the base local
            base_defs = body.defs().get(l, [])
        else:
            base_defs = body.defs().get(l, [])
        if len(base_defs) != 1:
            # multiple defs: all must be calls of the same class
            cl = set()
            desc = []
            for d in base_defs:
                if d[0] == 'call':
                    k = call_class(d[2])
                    cl.add(k[0])
                    desc.append(k[1])
                else:
                    cl.add('num')
            if len(cl) == 1 and base_defs:
                return cl.pop(), ','.join(desc)
            return None
        d = base_defs[0]
        if d[0] == 'call':
            return call_class(d[2])
        rv = d[3]['rv']
        if rv['k'] == 'discr':
            cur = {'k': 'copy', 'pl': rv['pl']}
            # the discriminated place may itself be a projection of a call result
            pl2 = rv['pl']
            ds = body.defs().get(pl2['l'], [])
            if len(ds) == 1 and ds[0][0] == 'call':
                return call_class(ds[0][2])
            if len(ds) == 1 and ds[0][0] == 'stmt' and ds[0][3]['rv']['k'] in ('use', 'ref'):
                r = ds[0][3]['rv']
                cur = r['op'] if r['k'] == 'use' else {'k': 'copy', 'pl': r['pl']}
                continue
            return None
        if rv['k'] == 'use':
            cur = rv['op']
            continue
        if rv['k'] == 'ref':
            cur = {'k': 'copy', 'pl': rv['pl']}
            continue
        return ('num', rv['k'] + (':' + rv.get('op', '') if isinstance(rv.get('op'), str) else ''))
    return None


def call_class(t):
    c = t.get('callee') or {}
    p = callee_path(t) or '?'
    decl = c.get('path') or ''
    name = c.get('name')
    tr = c.get('trait') or ''
    if tr.endswith('iter::Iterator') or tr.endswith('iter::DoubleEndedIterator') \
            or tr.endswith('iter::traits::iterator::Iterator') or tr.endswith('double_ended::DoubleEndedIterator'):
        if name in ITER_METHODS:
            self_ty = (c.get('args') or ['?'])[0]
            for bad in INFINITE_ITERS:
                if ('::' + bad + '<') in self_ty or self_ty.endswith('::' + bad):
                    return 'num', 'infinite iterator %s' % self_ty
            return 'iter', '%s on %s' % (name, self_ty)
    if 'rtrb::Consumer' in p and (p.endswith('::pop') or p.endswith('::read_chunk') or p.endswith('::peek')):
        return 'ring', p
    if 'rtrb::chunks' in p and p.endswith('::next'):
        return 'iter', p
    if 'compare_exchange' in p:
        return 'cas', p
    if p == 'core::slice::<impl [T]>::get':
        # `while let Some(x) = slice.get(i)`: None exactly when i >= len - the guard `i < slice.len()` under another spelling
        return 'num', 'bin:Lt'
    return 'num', 'call ' + p


def const_of(body, op):
    from .facts import trace
    for st in trace(body, op):
        if st['kind'] == 'const':
            return const_value(st['op'])
        if st['kind'] == 'rv' and st['rv']['k'] == 'un' and st['rv']['op'] == 'Neg':
            v = const_of(body, st['rv']['a'])
            return -v if v is not None else None
    return None


def ordering_valid(name, pos, n, v):
    if name in ('load', 'atomic_load'):
        return v not in ('Release', 'AcqRel')
    if name in ('store', 'atomic_store'):
        return v not in ('Acquire', 'AcqRel')
    if name in ('fence', 'compiler_fence'):
        return v != 'Relaxed'
    if 'compare_exchange' in name or name == 'fetch_update':
        if n == 2 and pos == 1:
            return v not in ('Release', 'AcqRel')
        return True
    return True


def dead_end(body, s, depth=4):
    """An exit edge into a block that cannot return (unreachable / diverging call):
    not a loop exit in the sense of termination analysis (a panic is reported as such)."""
    for _ in range(depth):
        t = body.blocks[s]['term']
        if t['k'] == 'unreachable':
            return True
        if t['k'] == 'call' and t.get('t') is None:
            return True
        if t['k'] == 'goto':
            s = t['t']
            continue
        return False
    return False


def clamp_guarded(body, term):
    """x.clamp(a, b) on a path where `a < b` (or `a <= b`) was established by a dominating branch on the same operands."""
    from .paths import describe
    call_bb = None
    for i, blk in enumerate(body.blocks):
        if blk['term'] is term:
            call_bb = i
    if call_bb is None:
        return False
    a = describe(body, term['args'][1], depth=4, at=call_bb)
    b = describe(body, term['args'][2], depth=4, at=call_bb)
    for g in range(body.n):
        t = body.blocks[g]['term']
        if t['k'] != 'switch' or g == call_bb or not body.dominates(g, call_bb):
            continue
        d = describe(body, t['op'], depth=5, at=g)
        want = ('Lt(%s, %s)' % (a, b), 'Le(%s, %s)' % (a, b), 'Gt(%s, %s)' % (b, a), 'Ge(%s, %s)' % (b, a))
        if d in want:
            # the call must lie on the true edge only
            true_t = t['otherwise']
            false_ts = [x for _, x in t['targets']]
            if body.dominates(true_t, call_bb) and not any(call_bb in body.reachable([f], removed=[true_t]) for f in false_ts):
                return True
    return False
