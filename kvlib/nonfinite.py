"""Engine A, effect `singular`: float operations on the audio path that can turn finite operands into a non-finite value
(NaN or an infinity) - the structural half of "every sample is a finite number" (C01), "finite output for finite input"
(C13) and "finite for every finite position" (C15).

A *singular site* is, in the MIR of a kira function reachable from the audio-thread roots:
  div      float `a / b`, `a % b` (also through `Frame`'s `/`, `/=`), `recip`      - domain: b != 0
  sqrt     `sqrt(a)`                                                               - domain: a >= 0
  log      `ln`, `log10`, `log2`, `log`                                            - domain: a > 0
  pow-exp  `powf(base, e)`, `powi(base, n)`                                        - domain: base > 0, or base >= 0 and e >= 0
  pow-base `powf(base, e)`                                                         - domain: base >= 0 (or e a whole constant)
  exp      `exp(a)`, `exp2(a)`                                                     - domain: a <= 700 (no overflow to +inf)
  inv-trig `acos`, `asin`                                                          - domain: |a| <= 1
  dep      a call into glam that normalises or divides internally (listed in GLAM_SINGULAR)
`tan`, `sin`, `cos`, `atan2`, `abs`, `min`, `max`, `clamp`, casts are total on finite operands (no f64 equals pi/2) and are
not sites.  Overflow of `+`, `-`, `*` to an infinity through very large finite magnitudes is NOT decided.

Every site is an obligation.  It is discharged automatically when the interval of the operand (kvlib.intervals, with the
branch decisions that dominate the site as path facts) lies inside the domain, or when a division by a slice's length sits
in a loop over that very slice (the body does not run for an empty slice); everything else needs an exact entry in
tables/discharge.jsonl (kind `site`, key `singular|fn|kind:operand`) with its reason, or is a finding.
"""
import math
import re
from .facts import callee_path
from .paths import describe, parse_term, switch_info, bool_label
from .intervals import evaluate, path_env, Iv, INF
from .rt import strip_closures, baseline_fns

FLOAT = ('f32', 'f64')
CALL_KINDS = {
    'sqrt': 'sqrt', 'ln': 'log', 'log10': 'log', 'log2': 'log', 'log': 'log', 'ln_1p': 'log',
    'powf': 'pow', 'powi': 'pow', 'exp': 'exp', 'exp2': 'exp', 'exp_m1': 'exp',
    'acos': 'inv-trig', 'asin': 'inv-trig', 'recip': 'div', 'rem_euclid': 'div', 'div_euclid': 'div',
    'acosh': 'inv-trig', 'atanh': 'inv-trig', 'cosh': 'exp', 'sinh': 'exp', 'hypot': None,
}
FRAME_DIV = ('<frame::Frame as std::ops::Div<f32>>::div', '<frame::Frame as std::ops::DivAssign<f32>>::div_assign')

# glam functions called from kira's audio-path code, classified by reading glam 0.30's source: total on finite operands
# (sums, products, comparisons, sin/cos, sqrt of a sum of squares, the zero-safe normalisation) ...
GLAM_TOTAL = (
    '<glam::Quat as std::ops::Mul<glam::Vec3>>::mul', '<glam::Vec3 as std::ops::Add>::add', '<glam::Vec3 as std::ops::Sub>::sub',
    '<glam::Vec3 as std::ops::Mul<f32>>::mul', '<glam::Vec3 as std::ops::Mul>::mul', '<glam::Vec3 as std::ops::Neg>::neg',
    'glam::Quat::from_rotation_y', 'glam::Quat::from_rotation_x', 'glam::Quat::from_rotation_z',
    'glam::Vec3::distance', 'glam::Vec3::distance_squared', 'glam::Vec3::dot', 'glam::Vec3::length', 'glam::Vec3::length_squared',
    'glam::Vec3::lerp', 'glam::Vec3::normalize_or_zero', 'glam::Vec3::new', 'glam::Vec3::splat', 'glam::Quat::from_xyzw',
    'glam::Vec3::cross', 'glam::Vec3::min', 'glam::Vec3::max', 'glam::Vec3::abs',
)
# ... or singular: they divide by a length / a sine that is zero for some finite operands (NaN for the zero vector or
# quaternion).  Any glam function in neither list is reported as unclassified (fail closed).
GLAM_SINGULAR = {
    'glam::Quat::lerp': 'normalises the interpolated quaternion (NaN when it is zero)',
    'glam::Quat::slerp': 'divides by the sine of the angle / normalises (NaN for a zero quaternion)',
    'glam::Quat::normalize': 'divides by the length', 'glam::Vec3::normalize': 'divides by the length',
    'glam::Vec3::normalize_or': 'total', 'glam::Vec3::try_normalize': 'total',
    'glam::Vec3::recip': 'component-wise reciprocal', 'glam::Vec3::angle_between': 'acos of a quotient of lengths',
    'glam::Vec3::project_onto': 'divides by the squared length', 'glam::Vec3::reject_from': 'divides by the squared length',
    'glam::Quat::from_rotation_arc': 'normalises', 'glam::Quat::inverse': 'assumes unit length',
    '<glam::Vec3 as std::ops::Div<f32>>::div': 'division', '<glam::Vec3 as std::ops::Div>::div': 'division',
}
GLAM_SINGULAR = {k: v for k, v in GLAM_SINGULAR.items() if v != 'total'}


def short(d, n=70, canon=True):
    """A compact, position- and name-free rendering of an operand description for keys: paths cut to their last segment,
    dereferences and borrows dropped, and the names of locals / parameters replaced by `_` (a key must not change when a
    local is renamed or an expression moves into a helper whose parameter has another name); fields of `self`, called
    functions, literals and named constants stay."""
    s = re.sub(r'[A-Za-z_][A-Za-z0-9_]*::', '', d)
    s = re.sub(r'<[^<>]*>', '', s)
    s = re.sub(r'<[^<>]*>', '', s)
    s = s.replace('&', '').replace('(*self)', 'self').replace('impl ', '')
    s = re.sub(r'\(\*([A-Za-z_0-9.]+)\)', r'\1', s)
    s = re.sub(r'_\d+', '_', s)
    s = re.sub(r'\s+', '', s).replace('::', '')
    if canon:
        s = re.sub(r'(?<![\w.])(?!self\b)[a-z_][a-z0-9_]*(?![\w(])', '_', s)
    return s[:n]


def dominating_decisions(body, bb):
    """Branch decisions that hold whenever control is at `bb`: for every switch block S dominating bb, the edge S -> T
    whose target T dominates bb and has S as its only predecessor.  -> [(S, description of the operand, label)]"""
    out = []
    for s in range(len(body.blocks)):
        t = body.blocks[s]['term']
        if t['k'] != 'switch' or s == bb or not body.dominates(s, bb):
            continue
        _, labels, _ = switch_info(body, s)
        desc = describe(body, t['op'], depth=10)
        edges = [(str(v), tgt) for v, tgt in t['targets']] + [('otherwise', t['otherwise'])]
        took = [(v, tgt) for v, tgt in edges if tgt is not None and (tgt == bb or body.dominates(tgt, bb)) and list(body.pred(tgt)) == [s]]
        if len(took) != 1:
            continue
        v, tgt = took[0]
        if v == 'otherwise':
            lab = 'otherwise'
        else:
            lab = labels.get(v, labels.get(int(v), None) if v.isdigit() else None) or v
        out.append((s, desc, lab))
    return out


def _env(decisions):
    """path_env plus the facts intervals cannot hold: `x != 0` (set `nonzero`) and strict order between two
    descriptions (set `less`: (a, b) means a < b)."""
    env = path_env(decisions)
    nonzero, less = set(), set()
    for bb, desc, lab in decisions:
        v = bool_label(lab)
        if v is None:
            continue
        name, args = parse_term(desc)
        if not args or len(args) != 2:
            continue
        z = [a for a in args if a.replace('const ', '') in ('0.0', '-0.0', '0')]
        if name in ('Eq', 'Ne') and len(z) == 1:
            other = args[0] if args[1] in z else args[1]
            if (name == 'Ne') == v:
                nonzero.add(other)
        if name in ('Lt', 'Le'):
            a, b = args
            if name == 'Lt' and v:
                less.add((a, b))
            if name == 'Le' and not v:
                less.add((b, a))
            if name == 'Lt' and v and b.replace('const ', '') in ('0.0', '0'):
                nonzero.add(a)
            if name == 'Lt' and v and a.replace('const ', '') in ('0.0', '0'):
                nonzero.add(b)
    return env, nonzero, less


POS = Iv(0.0, INF)


def value_range(d, env, less):
    """Interval of a described value; knows a few more total functions than kvlib.intervals (lengths, durations, powers
    of a positive literal, exp, tan on (0, pi/2], strict differences established by a branch)."""
    d = d.strip()
    name, args = parse_term(d)
    if args is not None:
        sh = name.split('::')[-1]
        if sh == 'len' and len(args) == 1:
            return POS
        if sh in ('as_secs_f64', 'as_secs_f32') and len(args) == 1:
            return POS
        if sh in ('exp', 'exp2') and len(args) == 1 and ('f64' in name or 'f32' in name):
            return POS
        if sh == 'powf' and len(args) == 2 and ('f64' in name or 'f32' in name):
            b = value_range(args[0], env, less)
            if b.lo >= 0:
                return POS
        if sh == 'tan' and len(args) == 1 and ('f64' in name or 'f32' in name):
            a = value_range(args[0], env, less)
            if a.lo >= 0 and a.hi <= math.pi / 2 + 1e-9:
                return Iv(math.tan(a.lo), INF)
        if name == 'Sub' and len(args) == 2 and (args[1], args[0]) in less:
            return Iv(0.0, INF, True, True)     # a != b implies a - b != 0 (gradual underflow)
        if name in ('Add', 'Sub', 'Mul', 'Neg') or sh in ('abs', 'min', 'max', 'clamp', 'sqrt'):
            sub = {}
            for a in args:
                sub[a] = value_range(a, env, less)
            e2 = dict(env)
            e2.update(sub)
            return evaluate(d, e2)
        if name == 'Div' and len(args) == 2:
            a, b = value_range(args[0], env, less), value_range(args[1], env, less)
            if b.lo > 0 and a.lo >= 0:
                return Iv(0.0 if a.lo == 0 else a.lo / b.hi if b.hi != INF else 0.0, INF if a.hi == INF else a.hi / b.lo)
            if b.lo >= 0 and a.hi <= 0:
                return Iv(-INF, 0.0)
            if b.lo >= 0 and a.lo >= 0:
                return POS
            return evaluate(d, env)
    return evaluate(d, env)


def _meet(a, b):
    lo, lo_open = (a.lo, a.lo_open) if a.lo > b.lo or (a.lo == b.lo and a.lo_open) else (b.lo, b.lo_open)
    hi, hi_open = (a.hi, a.hi_open) if a.hi < b.hi or (a.hi == b.hi and a.hi_open) else (b.hi, b.hi_open)
    return Iv(lo, hi, lo_open, hi_open)


def _hull(ivs):
    lo = min(ivs, key=lambda i: (i.lo, not i.lo_open))
    hi = max(ivs, key=lambda i: (i.hi, i.hi_open))
    return Iv(lo.lo, hi.hi, lo.lo_open, hi.hi_open)


def iv_operand(b, op, at, env, less, depth=8):
    """Interval of a MIR operand: the description-based evaluation (which knows the branch facts) met with a structural
    one that follows definitions in the MIR itself - through variables assigned on several branches (the hull of the
    branches) and through tuples built on those branches (`let (g, k) = match kind { .. }`)."""
    from .facts import op_local, is_const
    d = describe(b, op, depth=9, at=at)
    iv = value_range(d, env, less)
    if depth <= 0 or is_const(op) or 'pl' not in op:
        return iv
    pl = op['pl']
    l = pl['l']
    if 1 <= l <= b.arg_count:
        return iv
    proj = pl['p']
    if proj and not (len(proj) == 1 and proj[0][0] == 'field'):
        return iv
    ds = b.defs().get(l, [])
    if not ds or len(ds) > 6:
        return iv
    parts = []
    for dd in ds:
        if dd[0] == 'call':
            if proj:
                return iv
            t = dd[2]
            args = [iv_operand(b, a, dd[1], env, less, depth - 1) for a in t['args']]
            term = '%s(%s)' % (callee_path(t), ', '.join('@%d' % i for i in range(len(args))))
            parts.append(value_range(term, dict(('@%d' % i, a) for i, a in enumerate(args)), less))
            continue
        rv = dd[3]['rv']
        at2 = dd[1]
        if proj:
            if rv['k'] == 'agg' and rv.get('ak') == 'tuple' and proj[0][1] < len(rv['ops']):
                parts.append(iv_operand(b, rv['ops'][proj[0][1]], at2, env, less, depth - 1))
                continue
            if rv['k'] == 'use' and 'pl' in rv['op'] and not rv['op']['pl']['p']:
                parts.append(iv_operand(b, {'k': 'copy', 'pl': {'l': rv['op']['pl']['l'], 'p': proj, 'ty': pl.get('ty')}}, at2, env, less, depth - 1))
                continue
            return iv
        if rv['k'] in ('use', 'cast'):
            if rv['k'] == 'cast' and str(rv.get('ck', '')).startswith('IntToFloat') and 'pl' in rv['op'] and str(rv['op']['pl'].get('ty', '')).startswith('u'):
                parts.append(_meet(POS, iv_operand(b, rv['op'], at2, env, less, depth - 1)))
            else:
                parts.append(iv_operand(b, rv['op'], at2, env, less, depth - 1))
        elif rv['k'] == 'bin':
            x = iv_operand(b, rv['a'], at2, env, less, depth - 1)
            y = iv_operand(b, rv['b'], at2, env, less, depth - 1)
            opn = {'AddWithOverflow': 'Add', 'SubWithOverflow': 'Sub', 'MulWithOverflow': 'Mul'}.get(rv['op'], rv['op'])
            parts.append(value_range('%s(@0, @1)' % opn, {'@0': x, '@1': y}, less))
        elif rv['k'] == 'un' and rv['op'] == 'Neg':
            x = iv_operand(b, rv['a'], at2, env, less, depth - 1)
            parts.append(value_range('Neg(@0)', {'@0': x}, less))
        else:
            return iv
    if not parts:
        return iv
    return _meet(iv, _hull(parts)) if len(ds) == 1 else _meet(iv, _hull(parts)) if all(True for _ in parts) else iv


def excludes_zero(iv):
    return iv.lo > 0 or iv.hi < 0 or (iv.lo == 0 and iv.lo_open and iv.lo != -INF) or (iv.hi == 0 and iv.hi_open and iv.hi != INF)


def len_divisor_in_own_loop(body, bb, d):
    """`x / slice.len()` evaluated only inside a loop that iterates the same slice: not reached when the slice is empty."""
    name, args = parse_term(d)
    if args is None or name.split('::')[-1] != 'len' or len(args) != 1:
        return False
    inner = args[0].lstrip('&')
    if not inner or inner == '?':
        return False
    for l in body.loops():
        if bb not in l['blocks']:
            continue
        for x in l['blocks']:
            t = body.blocks[x]['term']
            if t['k'] == 'call' and (t['callee'].get('name') in ('next', 'next_back')):
                r = describe(body, t['args'][0], depth=16, at=x)
                if inner in r and '?' not in inner:
                    return True
    return False


def owner_type(path):
    """The type (for methods) or module (for free functions) a function belongs to: obligations are keyed by it, so that
    moving a step between methods of one type (extracting or inlining a private method) keeps its key."""
    path = strip_closures(path)
    m = re.match(r'^<(.+?) as .+>::[A-Za-z_0-9]+$', path)
    if m:
        return m.group(1)
    parts = path.rsplit('::', 1)
    return parts[0] if len(parts) == 2 else path


class Site:
    __slots__ = ('owner', 'body', 'bb', 'kind', 'opname', 'operand', 'desc', 'line', 'extra')

    def __init__(self, **kw):
        for k, v in kw.items():
            setattr(self, k, v)


def collect_sites(F, A):
    """All singular sites in kira bodies that belong to an instance reachable from the roots of `A`."""
    base = baseline_fns()
    owners = {}
    for i in A.kira:
        p = strip_closures(F.instances[i]['path'])
        owners.setdefault(p, i)

    def owner_of(path):
        p = strip_closures(path)
        i = owners.get(p)
        cur = i
        for _ in range(12):
            if cur is None:
                return p
            q = strip_closures(F.instances[cur]['path'])
            if not base or q in base:
                return q
            par = A.parent.get(cur)
            if not par:
                return q
            cur = par[0]
            while F.instances[cur]['krate'] != 'kira' and A.parent.get(cur):
                cur = A.parent[cur][0]
        return p
    sites = []
    unclassified = []
    nbodies = 0
    for b in F.bodies:
        if b.krate != 'kira' or strip_closures(b.path) not in owners:
            continue
        if b.path in FRAME_DIV:
            continue      # the operator itself: its call sites are the sites
        nbodies += 1
        own = owner_of(b.path)
        for bb, si, s in b.stmts():
            if s['k'] == 'assign' and s['rv']['k'] == 'bin' and s['rv']['op'] in ('Div', 'Rem') and s['lhs'].get('ty') in FLOAT:
                sites.append(Site(owner=own, body=b, bb=bb, kind='div', opname=s['rv']['op'], operand=s['rv']['b'],
                                  desc=None, line=s.get('line'), extra=None))
        for bb, t in b.calls():
            cp = callee_path(t) or ''
            nm = cp.split('::')[-1]
            if cp in FRAME_DIV:
                sites.append(Site(owner=own, body=b, bb=bb, kind='div', opname='Frame/', operand=t['args'][1], desc=None,
                                  line=t.get('line'), extra=None))
            elif ('<impl f32>' in cp or '<impl f64>' in cp) and CALL_KINDS.get(nm):
                k = CALL_KINDS[nm]
                opi = 1 if (nm in ('rem_euclid', 'div_euclid')) else 0
                if k == 'pow':
                    # two domain conditions, two obligations (a recorded finding about one does not hide the other):
                    #   pow-exp   base > 0, or base >= 0 and exponent >= 0   (0 to a negative power is +inf)
                    #   pow-base  powf only: base >= 0                       (a negative base to a fractional power is NaN)
                    sites.append(Site(owner=own, body=b, bb=bb, kind='pow-exp', opname=nm, operand=t['args'][0], desc=None,
                                      line=t.get('line'), extra=t['args'][1]))
                    if nm == 'powf':
                        sites.append(Site(owner=own, body=b, bb=bb, kind='pow-base', opname=nm, operand=t['args'][0], desc=None,
                                          line=t.get('line'), extra=t['args'][1]))
                    continue
                sites.append(Site(owner=own, body=b, bb=bb, kind=k, opname=nm, operand=t['args'][opi], desc=None,
                                  line=t.get('line'), extra=None))
            elif cp.startswith('glam::') or cp.startswith('<glam::'):
                if cp in GLAM_SINGULAR:
                    sites.append(Site(owner=own, body=b, bb=bb, kind='dep', opname=cp, operand=None, desc=cp.split('::', 1)[1],
                                      line=t.get('line'), extra=GLAM_SINGULAR[cp]))
                elif cp not in GLAM_TOTAL and 'impl_mint' not in cp and not cp.endswith(('::from', '::into', '::clone', '::default', '::eq')):
                    unclassified.append((own, cp, b.where(bb)))
    return sites, unclassified, nbodies


FACTS = [None]
CONSUMERS = ('for_each', 'map', 'fold', 'try_for_each', 'all', 'any', 'filter', 'filter_map', 'for_each_mut', 'inspect', 'position')


def resolve_capture(b, op):
    """An operand of a closure body that is (a copy / dereference of) a captured variable -> (owner body, block that
    builds the closure, operand naming the captured variable in the owner, local of the closure value), else None."""
    from .facts import op_local
    F = FACTS[0]
    if F is None or '::{closure' not in b.path or 'pl' not in op:
        return None
    pl = op['pl']
    for _ in range(6):
        if pl['l'] == 1 and len(pl['p']) >= 2 and pl['p'][0][0] == 'deref' and pl['p'][1][0] == 'field' and str(pl['p'][1][2]).startswith('^'):
            idx = pl['p'][1][1]
            break
        if pl['l'] == 1 and pl['p'] and pl['p'][0][0] == 'field' and str(pl['p'][0][2]).startswith('^'):
            idx = pl['p'][0][1]
            break
        d = b.single_def(pl['l'])
        if d is None or d[0] != 'stmt' or d[3]['rv']['k'] not in ('use', 'cast') or 'pl' not in d[3]['rv']['op']:
            return None
        pl = d[3]['rv']['op']['pl']
    else:
        return None
    owner = F.body(b.path[:b.path.rfind('::{closure')])
    if owner is None:
        return None
    for x, si, st in owner.stmts():
        if st['k'] == 'assign' and st['rv']['k'] == 'agg' and st['rv'].get('ak') == 'closure' and st['rv'].get('closure') == b.path:
            if idx >= len(st['rv']['ops']):
                return None
            cap = st['rv']['ops'][idx]
            # captured by reference: `_k = &var` -> the variable itself
            l = op_local(cap)
            d = owner.single_def(l) if l is not None else None
            if d and d[0] == 'stmt' and d[3]['rv']['k'] == 'ref':
                cap = {'k': 'copy', 'pl': d[3]['rv']['pl']}
            return owner, x, cap, st['lhs']['l']
    return None


def capture_in_own_loop(owner, at, cap, clocal):
    """The closure is the body of an iterator consumer (`for_each`, ...) over the slice whose length the captured value is."""
    d = describe(owner, cap, depth=16, at=at)
    name, args = parse_term(d)
    if args is None or name.split('::')[-1] != 'len' or len(args) != 1:
        return False
    inner = args[0].lstrip('&')
    if not inner or '?' in inner:
        return False
    from .facts import op_local
    for x, t in owner.calls():
        nm = (t.get('callee') or {}).get('name')
        if nm in CONSUMERS and any(op_local(a) == clocal or ('closure' in describe(owner, a, depth=3, at=x)) for a in t['args'][1:]):
            if inner in describe(owner, t['args'][0], depth=16, at=x):
                return True
    return False


def payload_of_variant(e):
    """`(self as InPowf).0` / `(*self as OutPowi).0` -> `(self as variant).0`: the exponent is the payload of whichever variant
    the enclosing match selected; which arm computes the power is not part of the obligation."""
    return re.sub(r'\(\s*\(?\*?\(?\*?(\w+)\)?\)?\s+as\s+\w+\s*\)\.(\d+)', r'(\1 as variant).\2', e)


def integral_const(e):
    try:
        return float(e) == int(float(e))
    except (ValueError, OverflowError):
        return False


def decide(site):
    """-> (auto-discharged?, operand description, interval text / reason)"""
    b, bb = site.body, site.bb
    if site.kind == 'dep':
        return False, site.desc, site.extra
    if site.operand is not None:
        rc = resolve_capture(b, site.operand) if site.kind not in ('pow-exp', 'pow-base') else None
        if rc is not None:
            owner, at, cap, clocal = rc
            if site.kind == 'div' and capture_in_own_loop(owner, at, cap, clocal):
                return True, describe(owner, cap, depth=9, at=at), 'length of the slice whose iterator consumer runs this closure (>= 1 when it runs)'
            # evaluate the captured value where the closure is built
            import copy
            s2 = copy.copy(site)
            s2.body, s2.bb, s2.operand = owner, at, cap
            return decide(s2)
    d = describe(b, site.operand, depth=9, at=bb)
    dec = dominating_decisions(b, bb)
    env, nonzero, less = _env(dec)
    iv = iv_operand(b, site.operand, bb, env, less)
    k = site.kind
    if k == 'div':
        if excludes_zero(iv) or d in nonzero:
            return True, d, 'divisor in %r' % iv
        if len_divisor_in_own_loop(b, bb, describe(b, site.operand, depth=16, at=bb)):
            return True, d, 'length of the slice the enclosing loop iterates (>= 1 inside the loop)'
        return False, d, 'divisor in %r: zero not excluded' % iv
    if k == 'sqrt':
        return iv.lo >= 0, d, 'argument in %r' % iv
    if k == 'log':
        return iv.lo > 0 or (iv.lo == 0 and iv.lo_open), d, 'argument in %r' % iv
    if k in ('pow-exp', 'pow-base'):
        eb, ebb, eop = b, bb, site.extra
        rc = resolve_capture(b, eop)
        if rc is not None:
            eb, ebb, eop = rc[0], rc[1], rc[2]
            edec = dominating_decisions(eb, ebb)
            eenv, _, eless = _env(edec)
        else:
            eenv, eless = env, less
        e = payload_of_variant(describe(eb, eop, depth=6, at=ebb))
        ev = iv_operand(eb, eop, ebb, eenv, eless)
        if k == 'pow-base':
            if iv.lo >= 0 or integral_const(e):
                return True, d, 'base in %r' % iv
            return False, d, 'base in %r: a negative base to a fractional power (NaN) not excluded' % iv
        if iv.lo > 0 or (iv.lo >= 0 and ev.lo >= 0):
            return True, d, 'base in %r, exponent in %r' % (iv, ev)
        return False, d + ' ^ ' + e, 'base in %r, exponent in %r: 0 to a negative power (+inf) not excluded' % (iv, ev)
    if k == 'exp':
        return iv.hi <= 700, d, 'argument in %r' % iv
    if k == 'inv-trig':
        return iv.lo >= -1 and iv.hi <= 1, d, 'argument in %r' % iv
    return False, d, '?'


def run_singular(R, F, A, sites_table, rule='A.singular', fn_filter=None, floor=None, check_runner=None):
    """Raise / discharge the singular-site obligations.  `sites_table`: the `site` entries of tables/discharge.jsonl."""
    FACTS[0] = F
    sites, unclassified, nbodies = collect_sites(F, A)
    groups = {}
    stats = {'sites': 0, 'auto': 0, 'table': 0, 'undischarged': 0, 'bodies': nbodies}
    for s in sites:
        if fn_filter is not None and not fn_filter(s.owner):
            continue
        stats['sites'] += 1
        good, d, why = decide(s)
        if good:
            stats['auto'] += 1
            R.ok(rule, '%s|%s:%s|auto' % (owner_type(s.owner), s.kind, short(d, 50, canon=s.kind != 'dep')), detail={'op': s.opname, 'operand': d[:200], 'why': why},
                 where=s.body.where(s.bb), nontrivial=True)
            continue
        key = 'singular|%s|%s:%s' % (owner_type(s.owner), s.kind, short(d, canon=s.kind != 'dep'))
        groups.setdefault(key, []).append((s, d, why))
    for key, lst in sorted(groups.items()):
        s, d, why = lst[0]
        ent = sites_table.get(key)
        where = ', '.join(x[0].body.where(x[0].bb) for x in lst[:4])
        rkey = key.split('|', 1)[1]
        if ent is not None and len(lst) <= ent['count']:
            ok = True
            if ent.get('check') and check_runner is not None:
                good, msg = check_runner(ent['check'])
                if not good:
                    ok = False
                    R.bad(rule, rkey, 'the discharge of %s rests on the structural precondition `%s`, which does not hold: %s'
                          % (key, ent['check'], msg), where=where)
            if ok:
                stats['table'] += 1
                for a in ent.get('assumes', []):
                    R.assume(a)
                R.ok(rule, rkey, detail={'op': s.opname, 'operand': d[:200], 'why': why, 'discharged_by': 'site table',
                                         'reason': ent['reason']}, where=where)
            continue
        stats['undischarged'] += 1
        if ent is not None:
            what = '%d sites of %s in %s, the discharge table covers %d: a new singular site' % (len(lst), rkey, s.owner, ent['count'])
        else:
            what = ('%s in %s can produce a non-finite value from finite operands on the audio thread: operand %s (%s); '
                    'no interval proof, no table entry' % (s.opname, s.owner, d[:160], why))
        R.bad(rule, rkey, what, where=where)
    for own, cp, where in unclassified:
        if fn_filter is not None and not fn_filter(own):
            continue
        R.bad(rule, '%s|dep:%s|unclassified' % (owner_type(own), cp), 'call of %s on the audio path: not classified as total or singular '
              '(fail closed; read its source and add it to GLAM_TOTAL / GLAM_SINGULAR)' % cp, where=where)
    R.extra.setdefault('engine_a_singular', {}).update(stats)
    if floor is not None:
        R.floor(rule, stats['sites'], floor)
    return stats
