def run_out(ctx, R, F):
    pass
