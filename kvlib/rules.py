"""Small rule library over Body facts (Engine B)."""
from .facts import callee_path, callee_decl, is_place, is_const, op_local, trace, const_value
from .paths import describe, pretty_place, switch_info, describe_rv


def calls_where(body, pred):
    """[(bb, term)] for non-cleanup calls whose resolved callee path satisfies pred."""
    out = []
    for bb, t in body.calls():
        p = callee_path(t) or ''
        if pred(p, t):
            out.append((bb, t))
    return out


def calls_to(body, *names, suffix=True):
    def pred(p, t):
        for n in names:
            if (suffix and p.endswith(n)) or p == n:
                return True
        return False
    return calls_where(body, pred)


def blocks_of(calls):
    return [bb for bb, _ in calls]


def path_exists(body, A, B, removed=()):
    """Is some block of B reachable from (after) some block of A?"""
    B = set(B)
    for a in A:
        if body.reach_after(a, removed=removed) & B:
            return True
    return False


def order_ok(body, A, B):
    """ORDER: a path A -> B exists and no path B -> A exists."""
    return path_exists(body, A, B) and not path_exists(body, B, A)


def must_pass(body, X, Y, T):
    """MUST: with the T blocks removed, no Y block is reachable from X (X, Y, T block lists;
    X blocks themselves are entered, i.e. the search starts *at* X)."""
    T = set(T)
    Y = set(Y)
    X = [x for x in X if x not in T]
    r = body.reachable(X, removed=T)
    return not (r & Y)


_FEAS = {}


def feasible_paths(body):
    """The block sequences of the feasible paths of `body` (kvlib.paths.explore), cached; None when there are too many."""
    key = id(body)
    if key not in _FEAS:
        from .paths import explore
        try:
            _FEAS[key] = [p.blocks for p in explore(body, max_states=60000)]
        except RuntimeError:
            _FEAS[key] = None
    return _FEAS[key]


def must_pass_f(body, Y, T):
    """MUST, on feasible paths from the entry: every path that reaches a Y block has passed a T block before (or is at one).
    Same as must_pass(body, [0], Y, T) for code without correlated branches; with a predicate helper spliced in
    (`if self.handle_error(out) { return }`: the helper's `false` and the caller's `return` arm meet in the CFG) only this
    one is right.  Falls back to the CFG version when the function has too many paths."""
    ps = feasible_paths(body)
    if ps is None:
        return must_pass(body, [0], Y, T)
    Y = set(Y)
    T = set(T)
    for blocks in ps:
        for i, x in enumerate(blocks):
            if x in Y:
                if not (T & set(blocks[:i + 1])):
                    return False
                break
    return True


def feasible_after(body, bb):
    """Blocks that follow `bb` on some feasible path (bb included); CFG reachability when there are too many paths."""
    ps = feasible_paths(body)
    if ps is None:
        return body.reachable([bb])
    out = set()
    for blocks in ps:
        if bb in blocks:
            out |= set(blocks[blocks.index(bb):])
    return out


def always_before(body, A, b):
    """On every *feasible* path (kvlib.paths.explore: path-sensitive about `?` on the results of spliced-in helpers, constant
    temporaries, tracked flags) that reaches block b, one of the blocks A was passed earlier.  Dominance says the same for
    straight code; with a fallible helper spliced in, the helper's error exit and the caller's success arm meet in the CFG
    although no execution combines them."""
    from .paths import explore
    A = set(A)
    seen = False
    for p in explore(body):
        if b not in p.blocks:
            continue
        seen = True
        i = p.blocks.index(b)
        if not (A & set(p.blocks[:i])):
            return False
    return seen


def never_reach(body, X, Z, stop=()):
    """NEVER: no Z block reachable from X (starting at X), not passing beyond `stop` blocks."""
    r = body.reachable(X, removed=(), stop=stop)
    return not (r & set(Z))


def switch_on_call(body, call_bb):
    """The call at `call_bb` produces a value; find the switch that tests it (directly or
    after copies).  Returns (switch_bb, {label: target}) or None."""
    t = body.blocks[call_bb]['term']
    dest = t['dest']
    if dest['p']:
        return None
    want = {dest['l']}
    # follow straight-line successors looking for a switch on the value (through copies and negations: the value may travel
    # through the return slot of a spliced-in helper, `_r = !x` in one arm of a short-circuit, before it is tested)
    seen = set()
    cur = t.get('t')
    for _ in range(16):
        if cur is None or cur in seen:
            return None
        seen.add(cur)
        blk = body.blocks[cur]
        for s in blk['stmts']:
            if s['k'] == 'assign' and not s['lhs']['p']:
                rv = s['rv']
                if rv['k'] == 'use':
                    l = op_local(rv['op'])
                    if l in want:
                        want.add(s['lhs']['l'])
                    elif ('not', l) in want:
                        want.add(('not', s['lhs']['l']))
                if rv['k'] == 'discr' and not rv['pl']['p'] and rv['pl']['l'] in want:
                    want.add(s['lhs']['l'])
                if rv['k'] == 'un' and rv['op'] == 'Not':
                    l = op_local(rv['a'])
                    if l in want:
                        want.add(('not', s['lhs']['l']))
                    elif ('not', l) in want:
                        want.add(s['lhs']['l'])
        tt = blk['term']
        if tt['k'] == 'switch':
            l = op_local(tt['op'])
            neg = ('not', l) in want
            if l in want or neg:
                edges = {}
                for v, b in tt['targets']:
                    edges[v] = b
                edges['otherwise'] = tt['otherwise']
                return cur, edges, neg
            return None
        if tt['k'] == 'goto':
            cur = tt['t']
            continue
        return None
    return None


def bool_edges(body, call_bb):
    """For a call returning bool that is branched on: (true_block, false_block) or None."""
    r = switch_on_call(body, call_bb)
    if r is None:
        return None
    _, edges, neg = r
    f = edges.get('0')
    t = edges.get('otherwise')
    if f is None or t is None:
        return None
    if neg:
        t, f = f, t
    return t, f


def stores_in(body, blocks, place_pred):
    """Assignments within `blocks` whose (pretty) lhs place satisfies place_pred."""
    out = []
    for bb in blocks:
        for si, s in enumerate(body.blocks[bb]['stmts']):
            if s['k'] in ('assign', 'setdiscr'):
                p = pretty_place(body, s['lhs'])
                if place_pred(p):
                    out.append((bb, si, s, p))
    return out


def calls_in(body, blocks):
    out = []
    for bb in sorted(blocks):
        t = body.blocks[bb]['term']
        if t['k'] in ('call', 'tailcall') and not body.blocks[bb]['cleanup']:
            out.append((bb, callee_path(t) or '?'))
    return out


def self_field_of_call(body, t, argi=0):
    """The `self.<field>` (pretty place) an argument of a call refers to."""
    if argi >= len(t['args']):
        return None
    a = t['args'][argi]
    for st in trace(body, a):
        if st['kind'] == 'place':
            return pretty_place(body, st['pl'])
        if st['kind'] == 'rv' and st['rv']['k'] in ('ref', 'rawptr'):
            return pretty_place(body, st['rv']['pl'])
        if st['kind'] == 'arg':
            return body.names.get(st['l'], '_%d' % st['l'])
    return None


def returns(body):
    return body.return_blocks()


def option_edges(body, call_bb):
    """For a call returning Option<_> whose discriminant is switched on: (some_block, none_block) or None."""
    r = switch_on_call(body, call_bb)
    if r is None:
        return None
    sbb, edges, neg = r
    some_t = edges.get('1')
    none_t = edges.get('0')
    if some_t is None and none_t is not None:
        some_t = edges.get('otherwise')
    if none_t is None and some_t is not None:
        none_t = edges.get('otherwise')
    if some_t is None or none_t is None or some_t == none_t:
        return None
    return some_t, none_t


def some_edge(body, call_bb):
    """Block entered when the Option returned by the call at call_bb is Some: through a match / if-let on the value, or
    through `.is_some()` / `.is_none()` on it."""
    oe = option_edges(body, call_bb)
    if oe:
        return oe[0]
    t = body.blocks[call_bb]['term']
    cur = t.get('t')
    for _ in range(4):
        if cur is None:
            return None
        tt = body.blocks[cur]['term']
        if tt['k'] == 'call' and (callee_path(tt) or '').split('::')[-1] in ('is_some', 'is_none'):
            src = describe(body, tt['args'][0], depth=3, at=cur)
            if (callee_path(t) or 'x') in src:
                be = bool_edges(body, cur)
                if be:
                    return be[0] if (callee_path(tt) or '').endswith('is_some') else be[1]
            return None
        if tt['k'] == 'goto':
            cur = tt['t']
            continue
        return None
    return None


def closure_args(F, body, t):
    """Closure bodies passed (by value or by reference) as arguments of the call `t`."""
    out = []
    for a in t['args']:
        for st in trace(body, a):
            if st['kind'] == 'rv' and st['rv']['k'] == 'agg' and st['rv'].get('ak') == 'closure':
                cb = F.body(st['rv']['closure'])
                if cb is not None:
                    out.append(cb)
    return out


def op_sites(F, body, pred, depth=3):
    """Blocks of `body` at which an operation satisfying pred(callee_path, term) happens: a direct call, or a call
    (for_each, fold, map ...) that is handed a closure whose body performs the operation (transitively)."""
    def performs(cb, d):
        for bb, t in cb.calls():
            if pred(callee_path(t) or '', t):
                return True
            if d > 0 and any(performs(c, d - 1) for c in closure_args(F, cb, t)):
                return True
        return False
    out = []
    for bb, t in body.calls():
        if pred(callee_path(t) or '', t):
            out.append(bb)
        elif any(performs(c, depth) for c in closure_args(F, body, t)):
            out.append(bb)
    return out


def op_sites_callees(F, body, pred, depth=3):
    """Like op_sites, with the callee paths of the operations found at each site: [(block of body, [callee path, ..])]."""
    def performed(cb, d):
        out = []
        for bb, t in cb.calls():
            cp = callee_path(t) or ''
            if pred(cp, t):
                out.append(cp)
            elif d > 0:
                for c in closure_args(F, cb, t):
                    out += performed(c, d - 1)
        return out
    res = []
    for bb, t in body.calls():
        cp = callee_path(t) or ''
        if pred(cp, t):
            res.append((bb, [cp]))
        else:
            inner = []
            for c in closure_args(F, body, t):
                inner += performed(c, depth)
            if inner:
                res.append((bb, inner))
    return res


def frame_op(name):
    """Predicate: the Frame arithmetic-assignment operator `name` (add_assign, mul_assign ...)."""
    # `a += b` and `a = a + b` are the same operation on a Frame (the *Assign impls do what the binary operators do)
    names = (name, name[:-7]) if name.endswith('_assign') else (name,)
    return lambda p, t: p.split('::')[-1] in names and 'frame::Frame' in p


def constant_term(d):
    """Is the described value a compile-time constant?  Literals, named constants and promoted constants are; a call or
    operator is when all of its operands are; any place (a field, a local, a parameter) is not."""
    from .paths import parse_term
    from .intervals import _lit
    d = d.strip().lstrip('&')
    if d.startswith('const ') or d.startswith('promoted['):
        return True
    if _lit(d) is not None:
        return True
    name, args = parse_term(d)
    if args is None:
        return False
    return all(constant_term(a) for a in args)
