"""Engine C — compile_fail witnesses (rustdoc doc-tests of /verif/witness, built against /repo's current tree)."""
import json
import os
import re
import shutil
import subprocess
from .core import VERIF, REPO, CACHE

WDIR = os.path.join(VERIF, 'witness')


def run_witnesses(R, prop):
    ws = [w for w in json.load(open(os.path.join(WDIR, 'witnesses.json'))) if w['property'] == prop]
    # the witness crate path-depends on the repository: use its lockfile so that the same dependency versions resolve offline
    work = WDIR
    repo = os.environ.get('KV_REPO', REPO)
    if repo != '/repo':
        # scratch copy under test: build a private copy of the witness crate pointing at it
        work = os.path.join(repo, '_witness')
        shutil.rmtree(work, ignore_errors=True)
        shutil.copytree(WDIR, work, ignore=shutil.ignore_patterns('target'))
        ct = open(os.path.join(work, 'Cargo.toml')).read().replace('/repo/crates/kira', os.path.join(repo, 'crates', 'kira'))
        open(os.path.join(work, 'Cargo.toml'), 'w').write(ct)
    shutil.copy(os.path.join(repo, 'Cargo.lock'), os.path.join(work, 'Cargo.lock'))
    env = dict(os.environ, CARGO_NET_OFFLINE='true',
               CARGO_TARGET_DIR=os.environ.get('KV_TARGET', os.path.join(CACHE, 'target')) + '-witness')
    env.pop('RUSTC_WORKSPACE_WRAPPER', None)
    if repo != '/repo' and os.path.isdir(env['CARGO_TARGET_DIR']):
        # every scratch copy has its own path, so cargo keeps one build of kira per copy: bound what a long selftest leaves behind
        try:
            kb = int(subprocess.run(['du', '-sk', env['CARGO_TARGET_DIR']], stdout=subprocess.PIPE, text=True).stdout.split()[0])
        except (ValueError, IndexError):
            kb = 0
        if kb > 3 * 1024 * 1024:
            shutil.rmtree(env['CARGO_TARGET_DIR'], ignore_errors=True)
    r = subprocess.run(['cargo', '+nightly', 'test', '--doc', '--offline'], cwd=work, env=env,
                       stdout=subprocess.PIPE, stderr=subprocess.STDOUT, text=True)
    res = {}
    for m in re.finditer(r'^test src/lib\.rs - (\w+) \(line \d+\)(?: - compile fail)? \.\.\. (\w+)', r.stdout, re.M):
        res[m.group(1)] = m.group(2)
    if not res:
        R.bad('W.' + prop, 'harness', 'the witness crate did not build or produced no results: %s' % r.stdout[-600:])
        return
    n = 0
    for w in ws:
        wn = 'w_%s_%s' % (prop.lower(), w['name'])
        tn = 't_%s_%s' % (prop.lower(), w['name'])
        n += 1
        if res.get(tn) != 'ok':
            R.bad('W.' + prop, w['name'], 'unrecognised-shape: the compiling twin of witness %s no longer builds (API moved?); the witness cannot be trusted' % w['name'])
            continue
        R.check(res.get(wn) == 'ok', 'W.' + prop, w['name'],
                'a program that must not type-check now compiles (expected error %s): %s' % (w['code'], w['why']),
                detail={'witness': w['name'], 'expected_error': w['code'], 'twin': 'builds', 'why': w['why']})
    R.floor('W.' + prop, n, len(ws))
    R.extra['witness_cmd'] = 'cargo +nightly test --doc --offline (in /verif/witness, against /repo/crates/kira)'
