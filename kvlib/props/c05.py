"""C05 — clocks keep exact audio time; clock-scheduled events fire in the right buffer; handle time never torn."""
from collections import defaultdict
from ..paths import explore, describe, bool_label, pretty_place
from ..rules import calls_to, calls_where, order_ok, blocks_of, bool_edges, self_field_of_call
from ..facts import callee_path, operand_place, trace, op_local, is_place

TEXT = ("Per-chunk ordering modulators ≺ clocks ≺ listeners ≺ mixer with the same dt·frames advance; the path predicate of Info::when_to_start (Never iff the clock is gone; Now only when ticking and clock time >= target); generation-checked clock lookup; Never cancels (StartTime::update true only on Never); clock-timed tweens start only on Now; and the torn-read shape: a struct whose logical value is published through two independent atomics, read back with two independent loads into one value while another function stores both, without a sequence protocol. Exact tick arithmetic and the set of interleavings are not decided. StartTime::update turns a delay / clock time into Immediate exactly when it is due and reports a removed clock. The clock's running flag is written only where the set_ticking command is applied (a reset does not stop the clock); the divisions of the clock-speed unit conversions are obligations (A.singular). A tween between two clock-speed units interpolates in the target's unit; ClockTime does not override the comparison operators derived from partial_cmp; a ClockTime converted into a StartTime stays a ClockTime; clocks are advanced in creation order; ClockHandle commands are written on every path. The clock does not run on a cached copy of its speed: a field derived from a parameter is recomputed after every update of that parameter. Every running sum of the time step is an f64; what the clock publishes for its handle crosses threads at full width (f64 bits); a delayed start is counted down by exactly Duration::from_secs_f64(dt). A resume waiting for a clock that no longer exists ends in Stopped for a sound. Retired clocks are taken out of the hand-back ring by the game thread on every insertion (drain / sweep rules of C08); the callback drains the mixer's queues before the clocks' (a sound is never picked up before the clock it is scheduled on). The clock's speed parameter is handed its command reader (a command naming the current speed still replaces a pending tween); a tweener's set starts its transition on every path. What a tween carries from one update to the next lives in its state or is reset by set (a second set while a tween runs starts from scratch). The fade-in tween of a sound's settings reaches its state machine as it is (its own clock start time is the one that counts).")
TECHNIQUE = 'MIR ordering / path-predicate rules + atomic-group (composite read vs composite write) shape analysis + interval evaluation of singular float operations'


def run(ctx, R, tier):
    F = ctx.facts('default')
    order(F, R)
    when(F, R)
    cancel(F, R)
    tween(F, R)
    clock_rules(F, R)
    start_time_rule(F, R)
    from .c03 import waiting_cancel
    waiting_cancel(F, R)
    # 'if the clock no longer exists': a dropped clock is really removed (the retired-resource ring is drained before every
    # insert, so it never fills up), and what may refer to a clock is picked up before the clocks are (C08 / C07 rules)
    from .c08 import drain, sweep
    drain(F, R)
    sweep(F, R)
    from .c07 import pickup_order
    pickup_order(F, R, rule='B.C05.pickup-order', which=('renderer',))
    from .c06 import ungated
    ungated(F, R, rule='B.C05.speed-ungated')
    torn(F, R)
    # a tween scheduled on another clock sees that clock's time of THIS buffer: clocks are advanced in creation order
    from .c07 import write_unconditional
    write_unconditional(F, R, rule='B.C05.cmd', floor=3, fn_filter=lambda q: q.startswith('clock::handle::ClockHandle::'))
    from .c19 import cmp_ as clock_time_order
    clock_time_order(F, R)
    from .c19 import speed_units
    speed_units(F, R, rule='B.C05.speed-units')
    from .c17 import once as update_order
    update_order(F, R)
    # 'a speed change or speed tween takes effect when it is due': the clock does not run on a cached copy of its speed
    published_width(F, R, fn_filter=lambda q: q.startswith('clock::'), floor=4)
    from .c06 import param_cache, accumulators
    accumulators(F, R, rule='B.C05.accumulate')
    param_cache(F, R, rule='B.C05.param-cache', fn_filter=lambda q: q.startswith('clock::') or '<clock::' in q, floor=1)
    # 'a speed change takes effect when it is due': the speed parameter is handed its command reader (every command, also one that
    # names the current speed, replaces a pending tween); a tweener's set starts its transition on every path (a tween scheduled for a
    # clock time waits for it whatever its duration)
    from .c06 import cover as parameter_cover, set_unconditional
    parameter_cover(F, R)
    set_unconditional(F, R, rule='B.C05.set')
    from .c09 import settings_verbatim
    settings_verbatim(F, R, rule='B.C05.tween')
    from .c06 import progress_reset
    progress_reset(F, R, rule='B.C05.set')
    from ..enginea import run_singular_only
    run_singular_only(R, F, lambda fn: fn.startswith('clock::') or '<clock::' in fn, floor=3)


def order(F, R):
    b = F.body('backend::renderer::Renderer::process_chunk')
    if not R.check(b is not None, 'B.C05.order', 'anchor', 'process_chunk not found'):
        return
    names = ['backend::resources::modulators::Modulators::process', 'backend::resources::clocks::Clocks::update',
             'backend::resources::listeners::Listeners::update', 'backend::resources::mixer::Mixer::process']
    ev = []
    ok = True
    why = ''
    for n in names:
        cs = calls_to(b, n, suffix=False)
        if len(cs) != 1 or b.in_loop(cs[0][0]) or not all(b.dominates(cs[0][0], r) for r in b.return_blocks()):
            ok = False
            why = '%s is called %d times / in a loop / conditionally' % (n, len(cs))
        ev.append(cs)
    if ok:
        for (n1, c1), (n2, c2) in zip(zip(names, ev), list(zip(names, ev))[1:]):
            if not order_ok(b, blocks_of(c1), blocks_of(c2)):
                ok = False
                why = '%s does not precede %s' % (n1, n2)
    R.check(ok, 'B.C05.order', 'process_chunk', why, detail='modulators.process ≺ clocks.update ≺ listeners.update ≺ mixer.process, once each',
            where=b.file)
    if ok:
        ds = [describe(b, c[0][1]['args'][1], depth=8) for c in ev[:3]]
        same = len(set(ds)) == 1 and ds[0].startswith('Mul((*self).dt, ') and 'num_channels' in ds[0] and 'len(' in ds[0]
        R.check(same, 'B.C05.order', 'advance', 'modulators, clocks and listeners are not advanced by the same dt * num_frames: %s' % ds,
                detail={'advance': ds[0][:160]})
        dm = describe(b, ev[3][0][1]['args'][2])
        R.check(dm == '(*self).dt', 'B.C05.order', 'mixer-dt', 'the mixer is given %s, not the per-frame dt' % dm, detail={'dt': dm})


def when(F, R):
    b = F.body("info::Info::<'a>::when_to_start")
    if not R.check(b is not None, 'B.C05.when', 'anchor', 'Info::when_to_start not found'):
        return
    prs = [p for p in explore(b) if p.end == 'return']
    ok = True
    why = ''
    kinds = set()
    for p in prs:
        found = None
        ticking = None
        ge = None
        for bb, desc, lab in p.decisions:
            if desc.startswith('discr(') and lab in ('None', 'Some'):
                found = lab
            elif desc.endswith('.ticking'):
                ticking = bool_label(lab)
            elif ('::ge(' in desc or '::le(' in desc) and 'PartialOrd' in desc:
                m_ = 'ge' if '::ge(' in desc else 'le'
                inner = desc[desc.index('::%s(' % m_) + 5:]
                first, second = inner.split(',')[0], inner.split(',')[1].strip()
                # clock_info.time >= time, or its mirror image time <= clock_info.time
                good_order = ('.time' in first and second.startswith('&time')) if m_ == 'ge' else (first.startswith('&time') and '.time' in second)
                if not good_order:
                    ok = False
                    why = 'the comparison is %s, not clock_info.time >= time' % desc
                ge = bool_label(lab)
        ret = str(p.ret)
        kinds.add(ret.split('::')[-1])
        if found == 'None':
            if not ret.endswith('WhenToStart::Never'):
                ok = False
                why = 'a missing clock yields %s, not Never' % ret
        elif found == 'Some':
            if ret.endswith('WhenToStart::Never'):
                ok = False
                why = 'an existing clock yields Never'
            if ret.endswith('WhenToStart::Now') and not (ticking is True and ge is True):
                ok = False
                why = 'Now is returned on a path with ticking=%s, time>=target=%s' % (ticking, ge)
            if ret.endswith('WhenToStart::Later') and (ticking is True and ge is True):
                ok = False
                why = 'Later is returned although the clock is ticking and has reached the time (late start)'
        else:
            ok = False
            why = 'a path does not test whether the clock exists'
    if kinds != {'Now', 'Later', 'Never'}:
        ok = False
        why = why or 'outcomes are %s' % sorted(kinds)
    R.check(ok, 'B.C05.when', 'path-predicate', why, detail={'paths': len(prs), 'outcomes': sorted(kinds)}, where=b.file)
    # uses the PartialOrd of ClockTime with >= (not >)
    cs = calls_where(b, lambda p, t: 'PartialOrd' in p or t['callee'].get('trait', '').endswith('PartialOrd'))
    # `clock_info.time >= time` or, mirrored, `time <= clock_info.time` (operand roles are checked above)
    R.check(len(cs) == 1 and cs[0][1]['callee']['name'] in ('ge', 'le'), 'B.C05.when', 'operator',
            'when_to_start compares with %s (documented: at most one buffer early, never late => >=)' % [c[1]['callee']['name'] for c in cs],
            detail='clock_info.time >= time')
    cb = F.body("info::Info::<'a>::clock_info")
    if R.check(cb is not None, 'B.C05.lookup', 'anchor', 'Info::clock_info not found'):
        g = calls_to(cb, 'atomic_arena::Arena::<T>::get', suffix=False)
        idx = calls_where(cb, lambda p, t: 'Index' in p and 'atomic_arena' in p)
        R.check(len(g) >= 1 and not idx, 'B.C05.lookup', 'clock_info',
                'clock ids are not resolved through the generation-checked Arena::get', detail='clocks.get(id.0)')


def cancel(F, R):
    b = F.body('start_time::StartTime::update')
    if not R.check(b is not None, 'B.C05.cancel', 'anchor', 'StartTime::update not found'):
        return
    prs = [p for p in explore(b) if p.end == 'return']
    ok = True
    why = ''
    saw_true = False
    for p in prs:
        never = any(desc.startswith('discr(') and lab == 'Never' for bb, desc, lab in p.decisions)
        ret = str(p.ret)
        if ret == 'True':
            saw_true = True
            if not never:
                ok = False
                why = 'returns true (will never start) on a path that did not see WhenToStart::Never'
        elif never:
            ok = False
            why = 'WhenToStart::Never does not make update() return true: the waiting sound is never cancelled'
    R.check(ok and saw_true, 'B.C05.cancel', 'StartTime::update', why or 'no path returns true', detail={'paths': len(prs)}, where=b.file)
    # `Now` switches the start time to Immediate
    okn = False
    for p in prs:
        now = any(desc.startswith('discr(') and lab == 'Now' for bb, desc, lab in p.decisions)
        if now:
            st = [s for bb in p.blocks for s in b.blocks[bb]['stmts']
                  if s['k'] in ('assign', 'setdiscr') and pretty_place(b, s['lhs']) in ('(*self)',)]
            okn = bool(st)
    R.check(okn, 'B.C05.cancel', 'now->immediate', 'WhenToStart::Now does not turn the start time into Immediate', detail='Now => *self = Immediate')
    from . import c03
    for tag, owner in c03.SOUNDS:
        body = F.body('<%s as sound::Sound>::process' % owner)
        if body is None:
            R.bad('B.C05.cancel', 'anchor:' + tag, 'process not found')
            continue
        su = calls_to(body, 'start_time::StartTime::update')
        be = bool_edges(body, su[0][0]) if len(su) == 1 else None
        from ..rules import must_pass, returns
        ms = blocks_of(calls_to(body, c03.PSM + '::mark_as_stopped'))
        R.check(be is not None and must_pass(body, [be[0]], returns(body), ms), 'B.C05.cancel', tag + ':never->stopped',
                '%s: a start time that can never come does not stop the sound' % body.path, detail='will_never_start => mark_as_stopped')


def tween(F, R):
    n = 0
    for path in ('parameter::Parameter::<T>::update_tween', '<modulator::tweener::Tweener as modulator::Modulator>::update'):
        b = F.body(path)
        if not R.check(b is not None, 'B.C05.tween', 'anchor:' + path, 'not found'):
            continue
        eqs = [(bb, t) for bb, t in b.calls() if t['callee'].get('name') == 'eq' and 'WhenToStart' in ' '.join(t['callee'].get('args', []))]
        n += 1
        ok = len(eqs) == 1
        d = ''
        if ok:
            d = describe(b, eqs[0][1]['args'][0], depth=6) + ' == ' + describe(b, eqs[0][1]['args'][1], depth=6)
            ok = 'when_to_start(' in d and 'WhenToStart::Now' in d
        R.check(ok, 'B.C05.tween', path, 'a clock-timed tween is started on %s, not on when_to_start(..) == Now' % (d or 'no comparison'),
                detail={'started': d[:200]}, where=b.file)
    R.floor('B.C05.tween', n, 2)


def start_time_rule(F, R):
    """StartTime::update, the countdown every sound / track start uses: a delay is reduced by the elapsed time and becomes
    Immediate exactly when nothing remains; a clock time becomes Immediate exactly when the clock says Now, stays pending on
    Later, and reports "will never start" (true) exactly on Never; every other path returns false."""
    fb = F.body('<start_time::StartTime as std::convert::From<clock::time::ClockTime>>::from')
    if R.check(fb is not None, 'B.C05.start', 'anchor:from', 'From<ClockTime> for StartTime not found'):
        rets = [str(p.ret) for p in explore(fb) if p.end == 'return']
        R.check(bool(rets) and all(r.startswith('start_time::StartTime::ClockTime(') for r in rets), 'B.C05.start', 'from-clock-time',
                'a ClockTime converted into a StartTime becomes %s: the clock (its existence, whether it is ticking) is no longer consulted' % [r[:60] for r in rets],
                detail={'returns': [r[:80] for r in rets]})
    b = F.body('start_time::StartTime::update')
    if not R.check(b is not None, 'B.C05.start', 'anchor', 'StartTime::update not found'):
        return
    seen = set()
    bad = []
    # the variant of `*self` is followed along each path (a helper spliced in may test it again: only the arm that was
    # taken is feasible), and the clock's answer may have been given a name before it is matched on
    variants = [v['name'] for v in (F.adt('start_time::StartTime') or {'variants': []})['variants']]
    tracked = {'(*self)': ('start_time::StartTime', frozenset(variants), variants)} if variants else None
    from ..facts import op_local
    wl = set(t['dest']['l'] for _, t in b.calls() if (callee_path(t) or '').endswith('::when_to_start') and t.get('dest') and not t['dest']['p'])
    for _ in range(4):          # copies of the answer (a helper's parameter)
        for x, si, s in b.stmts():
            if s['k'] == 'assign' and not s['lhs']['p'] and s['rv']['k'] == 'use' and op_local(s['rv']['op']) in wl \
                    and 'pl' in s['rv']['op'] and not s['rv']['op']['pl']['p']:
                wl.add(s['lhs']['l'])
    asked = set('_%d' % l for l in wl) | set(b.local_name(l) for l in wl if b.local_name(l))
    for p in explore(b, tracked):
        if p.end != 'return':
            continue
        arm = None
        zero = None
        when = None
        for bb, desc, lab in p.decisions:
            if desc.startswith('discr(') and lab in ('Immediate', 'Delayed', 'ClockTime') and arm is None:
                arm = lab
            if 'Duration::is_zero(' in desc:
                zero = bool_label(lab)
            if ('when_to_start(' in desc or any(desc == 'discr(%s)' % nm for nm in asked)) and lab in ('Now', 'Later', 'Never'):
                when = lab
        sets = [describe_rv_(b, s) for x in p.blocks for s in b.blocks[x]['stmts']
                if s['k'] == 'assign' and s['lhs']['p'] and pretty_place(b, s['lhs']) in ('(*self)',)]
        sets += ['setdiscr:%s' % s.get('variant') for x in p.blocks for s in b.blocks[x]['stmts']
                 if s['k'] == 'setdiscr' and pretty_place(b, s['lhs']) == '(*self)']
        to_imm = any('Immediate' in x or x == 'setdiscr:0' for x in sets)
        ret = str(p.ret)
        key = (arm, zero, when)
        seen.add(key)
        if arm == 'Delayed':
            sub = any((c or '').endswith('Duration::saturating_sub') for _, c in p.calls)
            if not sub:
                bad.append('the delay is not reduced by the elapsed time')
            if zero is True and not to_imm:
                bad.append('a delay that has run out does not become Immediate')
            if zero is False and to_imm:
                bad.append('a delay that has NOT run out becomes Immediate')
            if zero is None:
                bad.append('the remaining delay is not tested')
            if ret != 'False':
                bad.append('the Delayed arm returns %s' % ret)
        elif arm == 'ClockTime':
            if when == 'Now' and not to_imm:
                bad.append('Now does not make the start time Immediate')
            if when in ('Later', 'Never') and to_imm:
                bad.append('%s makes the start time Immediate' % when)
            if (when == 'Never') != (ret == 'True'):
                bad.append('when_to_start == %s returns %s' % (when, ret))
            if when is None:
                bad.append('the clock is not asked')
        elif arm == 'Immediate':
            if to_imm is False and ret != 'False':
                bad.append('Immediate returns %s' % ret)
    # the countdown runs in the unit it is kept in: what is taken off a Delayed start per update is exactly this update's dt
    # (the same `Duration::from_secs_f64(dt)` in all three copies of the countdown - Parameter, Tweener, StartTime - so that a
    # sound, a tween and a modulator given the same delay start in the same update; a per-update truncation to whole micro-
    # or milliseconds adds up to a late start)
    steps = [describe(b, t['args'][1], depth=6, at=x) for x, t in b.calls() if (callee_path(t) or '') == 'std::time::Duration::saturating_sub']
    R.check(steps == ['std::time::Duration::from_secs_f64(dt)'], 'B.C05.start', 'delay-step',
            'StartTime::update takes %s off a delayed start per update, not Duration::from_secs_f64(dt)' % steps, detail={'step': steps}, where=b.file)
    arms = set(k[0] for k in seen)
    R.check(not bad and arms >= {'Immediate', 'Delayed', 'ClockTime'}, 'B.C05.start', 'StartTime::update',
            '; '.join(sorted(set(bad))) or 'arms found: %s' % sorted(x for x in arms if x), detail={'paths': len(seen)}, where=b.file)


def published_width(F, R, rule='B.C05.published', fn_filter=None, floor=4):
    """A time or position that one thread publishes for another (the clock's fraction of a tick, a sound's playback position:
    floats travelling as the bit pattern of an atomic integer) is published at the width it is computed in - `f64::to_bits`
    on the way in, `f64::from_bits` on the way out.  Narrowed to an f32 on the way, a fraction just below 1 reads back as
    1.0, and a position a few minutes into a sound is off by whole frames (a relative seek computed from it lands wrong)."""
    n = 0
    for b in F.bodies:
        if b.krate != 'kira' or (fn_filter is not None and not fn_filter(b.path)):
            continue
        for bb, t in b.calls():
            cp = callee_path(t) or ''
            if not cp.endswith(('::to_bits', '::from_bits')) or '<impl f' not in cp:
                continue
            n += 1
            R.check('<impl f64>' in cp, rule, '%s|%s' % (b.path.split('::{closure')[0].lstrip('<').split(' as ')[0], cp.split('::')[-1]),
                    '%s publishes / reads a time through %s: single precision' % (b.path, cp), detail={'fn': b.path}, where=b.where(bb), nontrivial=False)
    R.floor(rule, n, floor)


def clock_rules(F, R):
    """Pausing freezes the clock, stopping resets it, the handle copy is refreshed once per callback."""
    b = F.body('clock::Clock::update')
    if R.check(b is not None, 'B.C05.pause', 'anchor', 'Clock::update not found'):
        sw = [x for x in range(b.n) if b.blocks[x]['term']['k'] == 'switch' and describe(b, b.blocks[x]['term']['op']) == '(*self).ticking']
        ok = len(sw) == 1
        why = 'Clock::update does not branch on `ticking` exactly once'
        if ok:
            t = b.blocks[sw[0]]['term']
            false_t = dict(t['targets']).get('0')
            reach = b.reachable([false_t])
            stores = [pretty_place(b, s['lhs']) for x in reach for s in b.blocks[x]['stmts'] if s['k'] in ('assign', 'setdiscr') and s['lhs']['p']
                      and pretty_place(b, s['lhs']).startswith('(*self)')]
            loops = [x for x in reach if b.in_loop(x)]
            # every store to the clock state is behind the ticking test
            st_all = [(x, pretty_place(b, s['lhs'])) for x, si, s in b.stmts() if s['k'] in ('assign', 'setdiscr') and s['lhs']['p']
                      and pretty_place(b, s['lhs']).startswith('(*self).state')]
            ok = not stores and not loops and all(b.dominates(t['otherwise'], x) for x, _ in st_all) and bool(st_all)
            why = 'a paused clock still changes its state (%s)' % stores[:2]
        R.check(ok, 'B.C05.pause', 'Clock::update', why, detail='!ticking => return None before any state change', where=b.file)
    # reset / publish, decided on a view of Clock::on_start_processing with its private methods spliced in (so that it
    # does not matter whether `reset` / `update_shared` are methods of their own or written in place)
    ob = F.inlined_view('clock::Clock::on_start_processing', depth=2, pred=lambda hp: hp.startswith('clock::Clock::'))
    if R.check(ob is not None, 'B.C05.reset', 'anchor:osp', 'Clock::on_start_processing not found'):
        from .c07 import origin_pl, last_field
        rd = []
        for x, t in ob.calls():
            if (callee_path(t) or '') == 'command::CommandReader::<T>::read':
                lf = last_field(origin_pl(ob, t['args'][0]) or {})
                if lf and lf[0] == 'reset':
                    rd.append(x)
        st = [(x, describe_rv_(ob, s)) for x, si, s in ob.stmts() if s['k'] == 'assign' and s['lhs']['p'] and pretty_place(ob, s['lhs']) == '(*self).state']
        R.check(len(rd) == 1 and [d for _, d in st] == ['clock::State::NotStarted'] and ob.dominates(rd[0], st[0][0]) and not ob.in_loop(st[0][0]),
                'B.C05.reset', 'Clock::reset', 'the reset command leaves state %s (read sites: %d)' % ([d for _, d in st], len(rd)),
                detail='reset.read() is Some => state = NotStarted (time reads as zero)')
        # "commands of different kinds do not interfere": the running flag is written only where the set_ticking command is
        # applied - a reset that also stops the clock would undo a start() issued after stop() in the same callback interval
        from ..rules import some_edge
        some = {}
        for x, t in ob.calls():
            if (callee_path(t) or '') == 'command::CommandReader::<T>::read':
                lf = last_field(origin_pl(ob, t['args'][0]) or {})
                oe = some_edge(ob, x)
                if lf and oe is not None:
                    some[lf[0]] = oe
        tick_stores = [x for x, si, s in ob.stmts() if s['k'] == 'assign' and s['lhs']['p'] and pretty_place(ob, s['lhs']) == '(*self).ticking']
        for x, t in ob.calls():
            if (callee_path(t) or '').endswith('::store'):
                lf = last_field(origin_pl(ob, t['args'][0]) or {})
                if lf and lf[1] == 'clock::ClockShared' and lf[0] == 'ticking':
                    tick_stores.append(x)
        okc = 'set_ticking' in some and 'reset' in some and bool(tick_stores) and \
            all(ob.dominates(some['set_ticking'], x) and not ob.dominates(some['reset'], x) for x in tick_stores)
        R.check(okc, 'B.C05.reset', 'confined', 'the clock\'s running flag is written outside the branch that applies the set_ticking command '
                '(e.g. by the reset): stop() followed by start() before the next callback leaves the clock stopped',
                detail='stores to ticking: only under set_ticking.read() == Some')
        # the handle copy: the stores of ticks and of the fraction into the shared atomics
        pub = {}
        for x, t in ob.calls():
            if (callee_path(t) or '').endswith('::store'):
                lf = last_field(origin_pl(ob, t['args'][0]) or {})
                if lf and lf[1] == 'clock::ClockShared' and lf[0] in ('ticks', 'fractional_position'):
                    pub.setdefault(lf[0], []).append(x)
        rets = ob.return_blocks()
        ok = bool(st) and all(nm in pub and any(all(ob.dominates(x, r) for r in rets) and order_ok(ob, [st[0][0]], [x]) for x in pub[nm])
                              for nm in ('ticks', 'fractional_position'))
        R.check(ok, 'B.C05.reset', 'publish', 'the handle copy of the time is not refreshed after commands on every callback',
                detail='reset ≺ shared.ticks / shared.fractional_position stores on every path')
    hb = F.body('clock::handle::ClockHandle::stop')
    if R.check(hb is not None, 'B.C05.reset', 'anchor:stop', 'ClockHandle::stop not found'):
        from .c07 import origin_pl, last_field
        w = []
        for x, t in hb.calls():
            if (callee_path(t) or '') == 'command::CommandWriter::<T>::write':
                lf = last_field(origin_pl(hb, t['args'][0]) or {})
                w.append((lf[0] if lf else '?', describe(hb, t['args'][1])))
        R.check(('set_ticking', 'False') in w and any(n == 'reset' for n, _ in w), 'B.C05.reset', 'ClockHandle::stop',
                'stop() writes %s (must pause and reset)' % w, detail={'writes': w})


def self_field_of_call_(b, t):
    from ..rules import self_field_of_call
    return self_field_of_call(b, t, 0) or ''


def describe_rv_(b, s):
    from ..paths import describe_rv
    return describe_rv(b, s['rv'])


# ---------------------------------------------------------------- torn reads

def atomic_structs(F):
    out = {}
    for path, a in F.adts.items():
        if a['kind'] != 'Struct':
            continue
        fs = [f['name'] for f in a['variants'][0]['fields'] if f['ty'].startswith('std::sync::atomic::Atomic<')]
        if len(fs) >= 2:
            out[path] = fs
    return out


def atomic_access(b, S, fields):
    """[(bb, 'load'|'store', field)] direct atomic accesses to fields of S in body b."""
    out = []
    for bb, t in b.calls():
        cp = callee_path(t) or ''
        if not cp.startswith('std::sync::atomic::Atomic::<'):
            continue
        m = cp.split('::')[-1]
        kind = 'load' if m == 'load' else ('store' if m in ('store', 'swap') or m.startswith('fetch_') or m.startswith('compare_') else None)
        if kind is None or not t['args']:
            continue
        pl = operand_place(b, t['args'][0])
        if pl is None:
            continue
        for pr in reversed(pl['p']):
            if pr[0] == 'field':
                if len(pr) > 3 and pr[3] == S and pr[2] in fields:
                    out.append((bb, kind, pr[2]))
                break
    return out


def torn(F, R):
    structs = atomic_structs(F)
    R.floor('B.C05.torn.structs', len(structs), 4)
    R.extra['atomic_groups'] = {k: v for k, v in sorted(structs.items())}
    for S, fields in sorted(structs.items()):
        # accessor methods of S touching exactly one field
        getter = {}
        setter = {}
        for b in F.bodies:
            if b.krate != 'kira' or not b.path.startswith(S + '::'):
                continue
            acc = atomic_access(b, S, fields)
            ld = set(f for _, k, f in acc if k == 'load')
            st = set(f for _, k, f in acc if k == 'store')
            if len(ld) == 1 and not st:
                getter[b.path] = list(ld)[0]
            if len(st) == 1 and not ld:
                setter[b.path] = list(st)[0]
        reads = {}   # body path -> {field: [bb]}
        writes = {}
        for b in F.bodies:
            if b.krate != 'kira':
                continue
            ld = defaultdict(list)
            st = defaultdict(list)
            for bb, k, f in atomic_access(b, S, fields):
                (ld if k == 'load' else st)[f].append(bb)
            for bb, t in b.calls():
                cp = callee_path(t) or ''
                if cp in getter and cp != b.path:
                    ld[getter[cp]].append(bb)
                if cp in setter and cp != b.path:
                    st[setter[cp]].append(bb)
            if b.path in getter or b.path in setter:
                continue
            # composite read: two loaded fields flow into one aggregate / one call
            if len(ld) >= 2:
                comp = composite_fields(b, ld)
                if len(comp) >= 2:
                    reads[b.path] = (b, comp)
            if len(st) >= 2:
                writes[b.path] = (b, sorted(st))
        R.ok('B.C05.torn', 'group:' + S, detail={'struct': S, 'atomics': fields, 'composite_reads': sorted(reads),
                                                 'composite_writes': sorted(writes)}, nontrivial=True)
        for rp, (rb, comp) in sorted(reads.items()):
            ws = [wp for wp, (wb, wf) in writes.items() if len(set(wf) & set(comp)) >= 2]
            if not ws:
                continue
            # a sequence protocol would re-load a third atomic (or the same one twice) around the reads
            seq = has_seq_protocol(rb, S, fields, comp)
            R.check(seq, 'B.C05.torn', '%s{%s}|read=%s' % (S, ','.join(sorted(comp)), rp),
                    '%s reads %s of %s with independent atomic loads into one value while %s store(s) them independently and no '
                    'sequence/version check brackets the loads: a reader can combine the halves of two different updates (torn read; '
                    'e.g. handle time going backwards)' % (rp, sorted(comp), S, sorted(ws)),
                    detail={'reader': rp, 'writers': sorted(ws)}, where=rb.file)


def composite_fields(b, ld):
    """Fields whose loaded values end up as operands of one aggregate statement."""
    block_field = {}
    for f, bbs in ld.items():
        for bb in bbs:
            block_field[bb] = f
    dest_field = {}
    for bb, f in block_field.items():
        t = b.blocks[bb]['term']
        if not t['dest']['p']:
            dest_field[t['dest']['l']] = f
    # propagate through single-def temps and calls taking the value (e.g. f64::from_bits)
    changed = True
    while changed:
        changed = False
        for bb, si, s in b.stmts():
            if s['k'] == 'assign' and not s['lhs']['p'] and s['lhs']['l'] not in dest_field:
                for l, f in list(dest_field.items()):
                    if ("'l': %d," % l) in repr(s['rv']):
                        dest_field[s['lhs']['l']] = f
                        changed = True
                        break
        for bb, t in b.calls():
            if not t['dest']['p'] and t['dest']['l'] not in dest_field:
                for a in t['args']:
                    if is_place(a) and a['pl']['l'] in dest_field and not a['pl']['p']:
                        dest_field[t['dest']['l']] = dest_field[a['pl']['l']]
                        changed = True
                        break
    best = set()
    for bb, si, s in b.stmts():
        if s['k'] == 'assign' and s['rv']['k'] == 'agg':
            fs = set()
            for o in s['rv']['ops']:
                l = op_local(o)
                if l in dest_field:
                    fs.add(dest_field[l])
            if len(fs) > len(best):
                best = fs
    return best


def has_seq_protocol(b, S, fields, comp):
    acc = atomic_access(b, S, fields)
    loads = [f for _, k, f in acc if k == 'load']
    # some atomic of S loaded at least twice (before and after) and compared
    for f in set(loads):
        if loads.count(f) >= 2:
            return True
    return False
