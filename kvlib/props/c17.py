"""C17 — modulators produce their curves; linked parameters follow in-chunk (structural clauses)."""
from ..paths import explore, describe, describe_rv, pretty_place, bool_label
from ..rules import calls_to, calls_where, order_ok, blocks_of, self_field_of_call
from ..facts import callee_path
from . import c05, c06

TEXT = ("Modulators are advanced first in each chunk (before clocks, listeners and the mixer), through exactly one Modulator::update call site driven by the key list of the modulator storage, whose keys are added with the insert and removed with the removal; Mapping::map clamps to [0,1], then eases, then interpolates; an unresolved modulator or listener yields None and the parameter keeps its last value; ids resolve through the generation-checked arena; the storage swaps the element out around its own update. Waveform formulas and tween values are not decided. The LFO advances and wraps its phase and sets value = offset + amplitude x waveform(phase); an unresolved tween target stays absent. The divisions / remainders of Mapping::map and the LFO have their domain proved (A.singular). Modulator handles write their commands on every path; a sound is never picked up before the modulator it is linked to; Duration parameters move towards shorter targets too. Parameter::update has no 'nothing changed' shortcut for a linked parameter; no stale cached copies of parameter values. Elapsed time of a tweener is accumulated in double precision. A linked parameter is updated before any freeze gate of its owner, on every path. New modulators are taken over before the callback's command poll. The tweener's progress lives in its Tweening state or is reset by set. Value::from_modulator stores the mapping as written and the six *_output helpers of Mapping apply their operation to each bound in place; modulator builders store their arguments unconditionally.")
TECHNIQUE = 'MIR ordering / single-site / operand-flow rules + interval evaluation of singular float operations'

SR = 'backend::resources::SelfReferentialResourceStorage::<T>'


def value_constructors(F, R, rule='B.C17.map'):
    """'Equals the mapping of the modulator's current value': the mapping a parameter is linked with is the mapping that was
    written - `Value::from_modulator(id, mapping)` stores `mapping` as it is, and the arithmetic helpers of a mapping
    (`add_output` .. `neg_output`, behind `value + x`, `-value` ..) apply the operation to each bound in place: the new
    lower bound comes from the old lower bound, the new upper bound from the old upper bound, input range and easing
    untouched."""
    from ..paths import explore
    b = F.body('value::Value::<T>::from_modulator')
    if R.check(b is not None, rule, 'anchor:from_modulator', 'Value::from_modulator not found'):
        rets = [str(p.ret) for p in explore(b) if p.end == 'return']
        R.check(rets == ['value::Value::FromModulator(std::convert::Into::into(id), mapping)'], rule, 'from_modulator',
                'Value::from_modulator builds %s, not FromModulator { id: id.into(), mapping }' % [r[:120] for r in rets], detail={'returns': rets[:1]})
    n = 0
    for op, tr in (('add', 'Add'), ('sub', 'Sub'), ('mul', 'Mul'), ('div', 'Div'), ('rem', 'Rem'), ('neg', 'Neg')):
        b = F.body('value::Mapping::<T>::%s_output' % op)
        if not R.check(b is not None, rule, 'anchor:%s_output' % op, 'Mapping::%s_output not found' % op):
            continue
        n += 1
        rets = [str(p.ret) for p in explore(b) if p.end == 'return']
        rhs = '' if op == 'neg' else ', rhs'
        want = 'value::Mapping::Mapping(self.input_range, tuple(std::ops::%s::%s(self.output_range.0%s), std::ops::%s::%s(self.output_range.1%s)), self.easing)' % (tr, op, rhs, tr, op, rhs)
        good = rets == [want]
        if not good and len(rets) == 1:
            # the same through a private helper that takes the operation as a closure: whatever is applied, it is applied to the
            # lower bound to give the new lower bound and - the very same expression - to the upper bound to give the upper one
            from ..paths import parse_term
            nm_, ar_ = parse_term(rets[0])
            if nm_ == 'value::Mapping::Mapping' and ar_ and len(ar_) == 3 and ar_[0] == 'self.input_range' and ar_[2] == 'self.easing':
                tn, ta = parse_term(ar_[1])
                good = tn == 'tuple' and ta is not None and len(ta) == 2 and 'self.output_range.0' in ta[0] and 'self.output_range.1' not in ta[0] \
                    and ta[0].replace('self.output_range.0', 'self.output_range.1') == ta[1]
        R.check(good, rule, '%s_output' % op, 'Mapping::%s_output builds %s: not the operation applied to each bound in place' % (op, [r[:160] for r in rets]),
                detail={'returns': rets[:1]}, nontrivial=False)
    R.floor(rule + '.ops', n, 6)


def run(ctx, R, tier):
    F = ctx.facts('default')
    c05.order(F, R)
    once(F, R)
    mapping(F, R)
    value_constructors(F, R)
    from .c02 import setters
    setters(F, R, rule='B.C17.setter', fn_filter=lambda q: q.startswith('modulator::'), floor=5)
    from .c06 import config_verbatim
    config_verbatim(F, R, rule='B.C17.config', fn_filter=lambda q: q.startswith('modulator::'), floor=3)
    hold(F, R)
    hold_parameter(F, R)
    lfo(F, R)
    swap(F, R)
    c06.sib(F, R)
    c06.prev(F, R)
    c06.set_unconditional(F, R, rule='B.C17.set')
    c06.progress_reset(F, R, rule='B.C17.set')
    # 'in the same chunk in which the modulator produced it': a sound is never picked up before the modulator it is linked to
    c06.duration_interp(F, R, rule='B.C17.interp')
    from .c07 import write_unconditional
    write_unconditional(F, R, rule='B.C17.cmd', floor=6, fn_filter=lambda q: q.startswith('modulator::') and 'handle' in q)
    from .c07 import pickup_order
    pickup_order(F, R, rule='B.C17.pickup-order', which=('renderer',))
    # 'equals the mapping of the modulator's current value': nothing runs on a cached copy of a parameter's value
    c06.param_cache(F, R, rule='B.C17.param-cache')
    # 'in the same chunk in which the modulator produced it', whatever state the owner is in: a linked parameter is updated
    # before any freeze gate of its owner, on every path
    c06.ungated(F, R, rule='B.C17.ungated')
    # a request made before a modulator's first callback is read in that callback: new modulators are picked up before they are polled
    from .c07 import first as polled_after_pickup
    polled_after_pickup(F, R)
    c06.accumulators(F, R, rule='B.C17.accumulate')
    from ..enginea import run_singular_only
    run_singular_only(R, F, lambda fn: 'value::Mapping' in fn or 'modulator::' in fn, floor=2)


def once(F, R):
    sites = []
    for b in F.bodies:
        if b.krate != 'kira':
            continue
        for bb, t in b.calls():
            if callee_path(t) == 'modulator::Modulator::update':
                sites.append((b, bb))
    ok = len(sites) == 1 and sites[0][0].path.startswith('backend::resources::modulators::Modulators::process::{closure')
    R.check(ok, 'B.C17.once', 'update-site', 'Modulator::update is called from %s; exactly one site (the for_each closure of Modulators::process) is expected'
            % [(b.path, b.where(bb)) for b, bb in sites], detail={'sites': [b.path for b, _ in sites]})
    mp = F.body('backend::resources::modulators::Modulators::process')
    if R.check(mp is not None, 'B.C17.once', 'anchor:Modulators::process', 'not found'):
        fe = calls_to(mp, SR + '::for_each', suffix=False)
        R.check(len(fe) == 1 and not mp.in_loop(fe[0][0]), 'B.C17.once', 'for_each', 'Modulators::process does not drive its storage through one for_each',
                detail='self.0.for_each(|modulator, others| modulator.update(..))')
    fb = F.body(SR + '::for_each')
    if R.check(fb is not None, 'B.C17.once', 'anchor:for_each', 'for_each not found'):
        from .c02 import iter_source, loop_of
        f = [bb for bb, t in fb.calls() if (callee_path(t) or '').endswith('::call_mut')]
        ok = len(f) == 1 and loop_of(fb, f[0]) is not None and '.keys' in iter_source(fb, loop_of(fb, f[0]))
        R.check(ok, 'B.C17.once', 'for_each-over-keys', 'for_each does not call the closure once per entry of `keys`', detail='for key in &self.keys { f(..) }')
    # keys: one push per insert, one removal per removal
    ra = F.body(SR + '::remove_and_add')
    ru = F.body(SR + '::remove_unused')
    if R.check(ra is not None and ru is not None, 'B.C17.once', 'anchor:keys', 'remove_and_add/remove_unused not found'):
        ins = blocks_of(calls_to(ra, 'atomic_arena::Arena::<T>::insert_with_key', suffix=False))
        psh = [bb for bb, t in calls_to(ra, 'std::vec::Vec::<T, A>::push', suffix=False) if (self_field_of_call(ra, t, 0) or '').endswith('.keys')]
        from .c02 import order_ok_in_loop, loop_of as lo
        ok = len(ins) == 1 and len(psh) == 1 and lo(ra, ins[0]) is not None and lo(ra, ins[0]) is lo(ra, psh[0]) \
            and order_ok_in_loop(ra, lo(ra, ins[0]), ins, psh)
        R.check(ok, 'B.C17.once', 'keys-insert', 'a key is not recorded exactly once for each inserted resource', detail='insert_with_key ≺ keys.push(key), same iteration')
        rem = blocks_of(calls_to(ru, 'atomic_arena::Arena::<T>::remove', suffix=False))
        krem = [bb for bb, t in calls_to(ru, 'std::vec::Vec::<T, A>::remove', suffix=False) if (self_field_of_call(ru, t, 0) or '').endswith('.keys')]
        ok = len(rem) == 1 and len(krem) == 1 and ru.dominates(rem[0], krem[0])
        R.check(ok, 'B.C17.once', 'keys-remove', 'a removed resource does not lose its key through the order-preserving Vec::remove (a stale key would be updated; a reordering removal such as swap_remove would update a modulator before the one it reads)', detail='resources.remove(key) ≺ keys.remove(i) (order-preserving)')


def mapping(F, R):
    b = F.body('value::Mapping::<T>::map')
    if not R.check(b is not None, 'B.C17.map', 'anchor', 'Mapping::map not found'):
        return
    cl = calls_to(b, 'core::f64::<impl f64>::clamp', suffix=False)
    ea = calls_to(b, 'tween::Easing::apply', suffix=False)
    it = calls_where(b, lambda p, t: t['callee'].get('name') == 'interpolate')
    ok = len(cl) == 1 and len(ea) == 1 and len(it) == 1 and order_ok(b, blocks_of(cl), blocks_of(ea)) and order_ok(b, blocks_of(ea), blocks_of(it))
    why = 'Mapping::map does not clamp, then ease, then interpolate'
    if ok:
        dc = [describe(b, a, at=cl[0][0]) for a in cl[0][1]['args']]
        de = describe(b, ea[0][1]['args'][1], depth=3, at=ea[0][0])
        di = describe(b, it[0][1]['args'][2], depth=3, at=it[0][0])
        if dc[1:] != ['0.0', '1.0']:
            ok = False
            why = 'the input amount is clamped to %s, not [0, 1]' % dc[1:]
        elif not de.startswith('core::f64::<impl f64>::clamp('):
            ok = False
            why = 'the easing is applied to %s, not to the clamped amount' % de
        elif not di.startswith('tween::Easing::apply('):
            ok = False
            why = 'the interpolation amount is %s, not the eased amount' % di
        bad = amount_defs(b, cl[0])
        if bad:
            ok = False
            why = 'the amount is %s, not (input - in.0) / (in.1 - in.0)' % bad
    R.check(ok, 'B.C17.map', 'Mapping::map', why, detail='clamp(0,1) ≺ Easing::apply ≺ interpolate, each fed by the previous', where=b.file)


def amount_defs(b, clamp_call):
    """Every definition of the value that is clamped is the normalised input `(input - in.0) / (in.1 - in.0)`; where the
    input range is empty (a branch on `in.1 - in.0 == 0.0`) a literal 0.0 / 1.0 step may stand in for the quotient, which
    would be 0/0 there.  -> None, or the description of the offending definition."""
    from ..facts import op_local
    from ..paths import describe_rv, parse_term
    from ..nonfinite import dominating_decisions
    bb, t = clamp_call
    SPAN = 'Sub((*self).input_range.1, (*self).input_range.0)'.replace('(*self)', 'self')

    def norm(x):
        return x.replace('(*self)', 'self')
    l = op_local(t['args'][0])
    ds = b.defs().get(l, []) if l is not None else []
    for _ in range(3):
        # through plain copies to the (re-assigned) variable itself
        if len(ds) == 1 and ds[0][0] == 'stmt' and ds[0][3]['rv']['k'] == 'use' and op_local(ds[0][3]['rv']['op']) is not None \
                and len(b.defs().get(op_local(ds[0][3]['rv']['op']), [])) > 1:
            l = op_local(ds[0][3]['rv']['op'])
            ds = b.defs()[l]
    after = b.reach_after(bb)
    ds = [d for d in ds if d[1] not in after and d[1] != bb and bb in b.reach_after(d[1])] if len(ds) > 1 else ds
    if len(ds) <= 1:
        d0 = norm(describe(b, t['args'][0], depth=6, at=bb))
        return None if d0 == 'Div(Sub(input, self.input_range.0), %s)' % SPAN else d0
    seen_div = False
    for d in ds:
        if d[0] != 'stmt':
            return 'the result of a call'
        dd = norm(describe_rv(b, d[3]['rv'], depth=6, at=d[1]))
        if dd == 'Div(Sub(input, self.input_range.0), %s)' % SPAN:
            seen_div = True
            continue
        if dd in ('0.0', '1.0'):
            dec = dominating_decisions(b, d[1])
            empty = False
            for _, desc, lab in dec:
                nm, ar = parse_term(norm(desc))
                if nm == 'Eq' and ar and SPAN in ar and ('0.0' in ar or '-0.0' in ar) and lab == 'otherwise':
                    empty = True
                if nm == 'Ne' and ar and SPAN in ar and ('0.0' in ar or '-0.0' in ar) and lab == '0':
                    empty = True
            if empty:
                continue
            return '%s outside the empty-range case' % dd
        return dd
    return None if seen_div else 'never the quotient'


def hold(F, R):
    b = F.body('value::Value::<T>::raw_value')
    if R.check(b is not None, 'B.C17.hold', 'anchor', 'Value::raw_value not found'):
        arms = {}
        bad = []
        src = {'FromModulator': "info::Info::<'a>::modulator_value(", 'FromListenerDistance': "info::Info::<'a>::listener_distance("}
        for p in explore(b):
            if p.end != 'return':
                continue
            arm = None
            for bb, desc, lab in p.decisions:
                if desc.startswith('discr(') and lab in ('Fixed', 'FromModulator', 'FromListenerDistance'):
                    arm = lab
            if arm is None:
                continue
            ret = str(p.ret)
            arms.setdefault(arm, set()).add(ret[:160])
            if arm == 'Fixed':
                if 'Some' not in ret:
                    bad.append('Fixed yields %s' % ret[:80])
                continue
            # the linked source was asked, and "no value" propagates: Option::map, or a test of the result (`?`, match,
            # if let) whose None side returns None and whose Some side returns Some(..)
            tested = [(desc, lab) for bb, desc, lab in p.decisions if src[arm] in desc]
            if not tested:
                if not ('Option::<T>::map(' in ret and src[arm] in ret):
                    bad.append('%s yields %s without consulting the source through Option::map' % (arm, ret[:80]))
            else:
                lab = tested[-1][1]
                if lab in ('None', 'Break', '0') and not ('from_residual' in ret or ret.endswith('None') or 'Option::None' in ret):
                    bad.append('%s: source absent but the result is %s' % (arm, ret[:80]))
                if lab in ('Some', 'Continue', '1') and 'Some' not in ret:
                    bad.append('%s: source present but the result is %s' % (arm, ret[:80]))
        ok = not bad and set(arms) == {'Fixed', 'FromModulator', 'FromListenerDistance'}
        R.check(ok, 'B.C17.hold', 'raw_value', 'Value::raw_value: %s (an unresolved modulator/listener must yield None)' % (bad or sorted(arms)),
                detail={k: sorted(v) for k, v in arms.items()}, where=b.file)
        cm = [bb for bb, t in b.calls() if (callee_path(t) or '').endswith("info::Info::<'a>::modulator_value")]
        cd = [bb for bb, t in b.calls() if (callee_path(t) or '').endswith("info::Info::<'a>::listener_distance")]
        R.check(len(cm) == 1 and len(cd) == 1, 'B.C17.hold', 'sources', 'linked values are not read through Info::modulator_value / listener_distance',
                detail='modulator_value(id) / listener_distance()')
    mv = F.body("info::Info::<'a>::modulator_value")
    if R.check(mv is not None, 'B.C17.lookup', 'anchor', 'Info::modulator_value not found'):
        g = calls_to(mv, 'atomic_arena::Arena::<T>::get', suffix=False)
        idx = calls_where(mv, lambda p, t: 'Index' in p and 'atomic_arena' in p)
        R.check(len(g) >= 1 and not idx, 'B.C17.lookup', 'modulator_value', 'modulator ids are not resolved through the generation-checked Arena::get',
                detail='modulators.get(id.0)')


def none_propagates(b, src):
    """Problems with how body `b` treats the Option returned by the call whose description starts with `src`: on every
    return path it is either passed on through Option::map / returned as it is, or tested (`?`, match, if let) with the
    None side returning None and the Some side returning Some(..).  `unwrap_or(..)`-style defaults are violations."""
    bad = []
    seen = 0
    for p in explore(b):
        if p.end != 'return':
            continue
        ret = str(p.ret)
        called = any((c or '').split('(')[0] and src.rstrip('(') == (c or '') for _, c in p.calls)
        tested = [(desc, lab) for bb, desc, lab in p.decisions if src in desc]
        if not called and src not in ret and not tested:
            continue
        seen += 1
        if not tested:
            ok = ret.startswith(src) or ('Option::<T>::map(' + src) in ret or ('Option::<T>::and_then(' + src) in ret
            if not ok:
                bad.append('%s yields %s: an absent value does not stay absent' % (b.path.split('::')[-1], ret[:90]))
        else:
            lab = tested[-1][1]
            if lab in ('None', 'Break', '0') and not ('from_residual' in ret or ret.endswith('None') or 'Option::None' in ret):
                bad.append('source absent but the result is %s' % ret[:90])
            if lab in ('Some', 'Continue', '1') and 'Some' not in ret:
                bad.append('source present but the result is %s' % ret[:90])
    return bad, seen


def hold_parameter(F, R):
    """"...and holds its last value once the modulator is removed": Parameter::calculate_new_raw_value turns an absent
    Value::raw_value (removed modulator, no listener) into None -- never into a default -- so that Parameter::update leaves
    raw_value alone (B.C06.prev|hold)."""
    b = F.body('parameter::Parameter::<T>::calculate_new_raw_value')
    if not R.check(b is not None, 'B.C17.hold', 'anchor:calculate', 'Parameter::calculate_new_raw_value not found'):
        return
    bad, seen = none_propagates(b, 'value::Value::<T>::raw_value(')
    R.check(not bad and seen >= 2, 'B.C17.hold', 'calculate_new_raw_value',
            'Parameter::calculate_new_raw_value: %s (a parameter linked to a removed modulator must hold its last value)' % (bad or 'raw_value not consulted'),
            detail={'paths': seen}, where=b.file)


def lfo(F, R):
    """The LFO is what its definition says: per update the phase advances by dt x frequency and is wrapped into [0, 1), and
    the value is offset + amplitude x waveform(phase) -- which is what keeps it within offset +/- |amplitude| (the waveforms
    are bounded by 1).  Decided on the shape of the two stores; the waveform shapes themselves are not decided."""
    from ..paths import describe_rv, parse_term
    b = F.body('<modulator::lfo::Lfo as modulator::Modulator>::update')
    if not R.check(b is not None, 'B.C17.lfo', 'anchor', 'Lfo::update not found'):
        return
    st = [(bb, si, pretty_place(b, s['lhs']), describe_rv(b, s['rv'], depth=6, at=bb)) for bb, si, s in b.stmts()
          if s['k'] == 'assign' and s['lhs']['p'] and pretty_place(b, s['lhs']) in ('(*self).phase', '(*self).value')]
    ph = [x for x in st if x[2] == '(*self).phase']
    va = [x for x in st if x[2] == '(*self).value']
    adv = [x for x in ph if parse_term(x[3])[0] == 'Add' and '(*self).phase' in x[3] and 'dt' in x[3] and '.frequency' in x[3] and 'Mul(' in x[3]]
    wrap = [x for x in ph if x[3] == 'Rem((*self).phase, 1.0)']
    def before(x, y):
        # program order of two statements: in one block by index, otherwise by dominance (block numbers say nothing once a
        # helper has been spliced in)
        return (x[0] == y[0] and x[1] < y[1]) or (x[0] != y[0] and b.dominates(x[0], y[0]))
    ok = len(ph) == 2 and len(adv) == 1 and len(wrap) == 1 and before(adv[0], wrap[0]) \
        and not b.in_loop(adv[0][0])
    R.check(ok, 'B.C17.lfo', 'phase', 'Lfo::update does not advance the phase by dt * frequency and wrap it with %% 1.0 (stores: %s)' % [x[3][:60] for x in ph],
            detail='phase += dt * frequency; phase %= 1.0', where=b.file)
    okv = False
    if len(va) == 1:
        n1, a1 = parse_term(va[0][3])
        if n1 == 'Add' and a1 and len(a1) == 2:
            off = [x for x in a1 if '.offset' in x and 'Mul(' not in x]
            mul = [x for x in a1 if x.startswith('Mul(')]
            if len(off) == 1 and len(mul) == 1:
                n2, a2 = parse_term(mul[0])
                okv = a2 is not None and len(a2) == 2 and any('.amplitude' in x for x in a2) \
                    and any('Waveform::value(' in x and '(*self).phase' in x for x in a2)
        okv = okv and all(b.dominates(va[0][0], r) for r in b.return_blocks()) and bool(wrap) and before(wrap[0], va[0])
    vb = F.body('<modulator::lfo::Lfo as modulator::Modulator>::value')
    if R.check(vb is not None, 'B.C17.lfo', 'anchor:value', 'Lfo::value not found'):
        rets = [str(p.ret) for p in explore(vb) if p.end == 'return']
        R.check(rets == ['(*self).value'], 'B.C17.lfo', 'getter', 'Lfo::value returns %s, not the value it computed' % rets, detail={'returns': rets})
    ob = F.body('<modulator::lfo::Lfo as modulator::Modulator>::on_start_processing')
    if R.check(ob is not None, 'B.C17.lfo', 'anchor:osp', 'Lfo::on_start_processing not found'):
        stp = [describe_rv(ob, s2['rv'], depth=5, at=bb) for bb, si, s2 in ob.stmts()
               if s2['k'] == 'assign' and s2['lhs']['p'] and pretty_place(ob, s2['lhs']) == '(*self).phase']
        other = [pretty_place(ob, s2['lhs']) for bb, si, s2 in ob.stmts()
                 if s2['k'] == 'assign' and s2['lhs']['p'] and pretty_place(ob, s2['lhs']) in ('(*self).value',)]
        R.check(any(x.startswith('Div(') and 'set_phase' in x for x in stp) and not other, 'B.C17.lfo', 'set_phase',
                'the set_phase command is not stored into the phase (as radians / TAU): phase stores %s, other stores %s' % (stp, other),
                detail='phase = command / TAU')
    R.check(okv, 'B.C17.lfo', 'value', 'Lfo::update does not set value = offset + amplitude * waveform(phase) after advancing the phase (stores: %s)' % [x[3][:80] for x in va],
            detail='value = offset + amplitude * waveform.value(phase)', where=b.file)


def swap(F, R):
    fb = F.body(SR + '::for_each')
    if fb is None:
        return
    sw = [(bb, t) for bb, t in fb.calls() if (callee_path(t) or '') == 'std::mem::swap']
    f = [bb for bb, t in fb.calls() if (callee_path(t) or '').endswith('::call_mut')]
    from .c02 import order_ok_in_loop, loop_of
    ok = len(sw) == 2 and len(f) == 1
    if ok:
        L = loop_of(fb, f[0])
        ok = L is not None and order_ok_in_loop(fb, L, [sw[0][0]], f) and order_ok_in_loop(fb, L, f, [sw[1][0]])
        d = [(describe(fb, t['args'][0], depth=4), describe(fb, t['args'][1], depth=4)) for _, t in sw]
        ok = ok and d[0] == d[1] and 'dummy' in d[0][1] and 'index_mut' in d[0][0]
    R.check(ok, 'B.C17.swap', 'for_each', 'the element is not swapped out for the dummy and back around its own update',
            detail='swap(resources[key], dummy) ≺ f(dummy, resources) ≺ swap(resources[key], dummy)', where=fb.file)
