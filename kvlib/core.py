"""Runner plumbing: build facts from /repo's current tree, result collection,
known findings, evidence files."""
import fcntl
import hashlib
import json
import os
import subprocess
import sys
import time

VERIF = os.path.dirname(os.path.dirname(os.path.abspath(__file__)))
EVIDENCE_DIR = os.environ.get('KV_EVIDENCE') or os.path.join(VERIF, 'evidence')
REPO = os.environ.get('KV_REPO', '/repo')
CACHE = os.path.join(VERIF, '.cache')
DRIVER_DIR = os.path.join(VERIF, 'engine', 'kira-mir')
DRIVER = os.path.join(DRIVER_DIR, 'target', 'release', 'kira-mir')
ROOTS = os.path.join(VERIF, 'tables', 'roots.txt')

# name -> (cargo feature args, overflow checks for kira itself)
CONFIGS = {
    'default': ([], False),
    'default-ovf': ([], True),
    'nodefault': (['--no-default-features'], False),
    'serde': (['--features', 'serde'], False),
    'assert_no_alloc': (['--features', 'assert_no_alloc'], False),
    'cpal-only': (['--no-default-features', '--features', 'cpal'], False),
    'wav-only': (['--no-default-features', '--features', 'wav'], False),
}


def sysroot():
    return subprocess.check_output(['rustc', '+nightly', '--print', 'sysroot'], text=True).strip()


def ensure_driver():
    if os.path.exists(DRIVER):
        src_m = max(os.path.getmtime(os.path.join(DRIVER_DIR, 'src', f))
                    for f in os.listdir(os.path.join(DRIVER_DIR, 'src')))
        if os.path.getmtime(DRIVER) >= src_m:
            return
    env = dict(os.environ, CARGO_NET_OFFLINE='true')
    r = subprocess.run(['cargo', 'build', '--release', '--offline'], cwd=DRIVER_DIR, env=env,
                       stdout=subprocess.PIPE, stderr=subprocess.STDOUT, text=True)
    if r.returncode != 0:
        sys.stderr.write(r.stdout)
        raise SystemExit('driver build failed')


def tree_hash(config, repo=None):
    repo = repo or REPO
    h = hashlib.sha256()
    h.update(config.encode())
    files = []
    for base in ('crates/kira',):
        for root, dirs, fs in os.walk(os.path.join(repo, base)):
            dirs[:] = [d for d in dirs if d not in ('target',)]
            for f in fs:
                files.append(os.path.join(root, f))
    for f in ('Cargo.toml', 'Cargo.lock'):
        files.append(os.path.join(repo, f))
    files.append(DRIVER)
    files.append(ROOTS)
    for f in sorted(files):
        try:
            with open(f, 'rb') as fh:
                h.update(f.encode())
                h.update(hashlib.sha256(fh.read()).digest())
        except OSError:
            pass
    return h.hexdigest()[:24]


def build_facts(config='default', repo=None, target_dir=None, quiet=True):
    """Run the driver over `repo`'s current working tree; returns the facts path.
    Facts are reused only when the hash over the tree, lockfile, driver and
    config is unchanged (hash recomputed from the tree on every call)."""
    repo = repo or REPO
    ensure_driver()
    os.makedirs(CACHE, exist_ok=True)
    feats, ovf = CONFIGS[config]
    th = tree_hash(config, repo)
    facts = os.path.join(CACHE, 'facts-%s-%s.json' % (config, th))
    if os.path.realpath(repo) != '/repo':
        # scratch copy under test: its facts live (and die) with the copy
        facts = os.path.join(repo, '.kvfacts-%s-%s.json' % (config, th))
    lock = open(os.path.join(CACHE, 'lock-%s' % config), 'w')
    fcntl.flock(lock, fcntl.LOCK_EX)
    try:
        if os.path.exists(facts):
            return facts
        # drop stale facts of this config
        for f in os.listdir(CACHE):
            if os.environ.get('KV_KEEP_FACTS'):
                break
            if f.startswith('facts-%s-' % config) and f.endswith('.json'):
                # keep facts of scratch repos out of the way: only one per config
                try:
                    os.remove(os.path.join(CACHE, f))
                except OSError:
                    pass
        tdir = target_dir or os.environ.get('KV_TARGET') or os.path.join(CACHE, 'target-%s' % ('ovf' if ovf else 'rel'))
        # cargo's freshness cache would skip the wrapper: forget kira's fingerprints
        fp = os.path.join(tdir, 'debug', '.fingerprint')
        if os.path.isdir(fp):
            for d in os.listdir(fp):
                if d.startswith('kira-'):
                    subprocess.run(['rm', '-rf', os.path.join(fp, d)])
        nonce = '%s-%d' % (th, os.getpid())
        flags = '-Zmir-opt-level=0 -Awarnings -Zalways-encode-mir -Cdebug-assertions=off -Coverflow-checks=off'
        env = dict(os.environ)
        env.update({
            'LD_LIBRARY_PATH': sysroot() + '/lib',
            'RUSTFLAGS': flags,
            'RUSTC_WORKSPACE_WRAPPER': DRIVER,
            'KIRA_FACTS_OUT': facts + '.new',
            'KIRA_ROOTS': ROOTS,
            'KIRA_NONCE': nonce,
            'KIRA_OVERFLOW': '1' if ovf else '0',
            'CARGO_TARGET_DIR': tdir,
            'CARGO_NET_OFFLINE': 'true',
        })
        env.pop('RUSTC_WRAPPER', None)
        cmd = ['cargo', '+nightly', 'check', '--offline', '-p', 'kira'] + feats
        t0 = time.time()
        r = subprocess.run(cmd, cwd=repo, env=env, stdout=subprocess.PIPE, stderr=subprocess.STDOUT, text=True)
        if r.returncode != 0 or not os.path.exists(facts + '.new'):
            sys.stderr.write(r.stdout[-6000:])
            raise SystemExit('kv: building facts failed (config %s): /repo does not compile or the driver failed' % config)
        with open(facts + '.new') as f:
            head = f.read(200)
        if nonce not in head:
            raise SystemExit('kv: stale facts (nonce mismatch)')
        os.rename(facts + '.new', facts)
        if not quiet:
            print('facts %s built in %.1fs' % (config, time.time() - t0))
        return facts
    finally:
        fcntl.flock(lock, fcntl.LOCK_UN)
        lock.close()


# --------------------------------------------------------------------------- results

class Results:
    """Collects rule instances for one property."""

    def __init__(self, prop):
        self.prop = prop
        self.items = []      # dicts: rule, key, status (ok|violation), what, where, detail
        self.floors = {}     # rule -> (found, required)
        self.notes = []
        self.assumes = set()
        self.extra = {}

    def ok(self, rule, key, detail=None, where=None, nontrivial=True, **kw):
        # "the anchor exists" instances are bookkeeping, not evidence of the property: never counted as non-trivial
        k0 = str(key)
        if k0.startswith('anchor') or k0.endswith(('-site', ':site')) or k0 in ('site', 'sites', 'anchor'):
            nontrivial = False
        it = {'rule': rule, 'key': '%s|%s' % (rule, key), 'status': 'ok', 'detail': detail,
              'where': where, 'nontrivial': nontrivial}
        it.update(kw)
        self.items.append(it)

    def bad(self, rule, key, what, where=None, **kw):
        it = {'rule': rule, 'key': '%s|%s' % (rule, key), 'status': 'violation', 'what': what,
              'where': where, 'nontrivial': True}
        it.update(kw)
        self.items.append(it)

    def check(self, cond, rule, key, what_bad, detail=None, where=None, **kw):
        if cond:
            self.ok(rule, key, detail, where, **kw)
        else:
            self.bad(rule, key, what_bad, where, **kw)
        return cond

    def keys(self, rule):
        return [it['key'] for it in self.items if it['rule'] == rule]

    def floor(self, rule, found, required):
        self.floors[rule] = (found, required)
        if found < required:
            self.bad(rule, 'anchor-missing',
                     'rule %s found %d instance(s), fewer than the %d counted on the pinned tree: '
                     'an anchor was not recognised (fail closed)' % (rule, found, required))

    def assume(self, *a):
        for x in a:
            self.assumes.add(x)


def load_known():
    p = os.path.join(VERIF, 'known_findings.jsonl')
    out = []
    if os.path.exists(p):
        with open(p) as f:
            for line in f:
                line = line.strip()
                if line and not line.startswith('#'):
                    out.append(json.loads(line))
    return out


def finish(res, tier, t0, level_text, technique, seed=0, configs=None):
    """Print KNOWN-FINDING / VIOLATION lines, write evidence, return exit code."""
    prop = res.prop
    known = {k['key']: k for k in load_known() if k.get('status') == 'known' and k.get('property') == prop}
    viols = [i for i in res.items if i['status'] == 'violation']
    new = []
    nknown = 0
    seen_keys = set()
    os.makedirs(os.path.join(EVIDENCE_DIR, 'violations'), exist_ok=True)
    for f in os.listdir(os.path.join(EVIDENCE_DIR, 'violations')):
        if f.startswith(prop + '-'):
            os.remove(os.path.join(EVIDENCE_DIR, 'violations', f))
    for v in viols:
        if v['key'] in seen_keys:
            continue
        seen_keys.add(v['key'])
        if v['key'] in known:
            nknown += 1
            v['status'] = 'known'
            print('KNOWN-FINDING: property=%s %s [%s]' % (prop, known[v['key']]['what'], v['key']))
        else:
            new.append(v)
    for n, v in enumerate(new):
        path = os.path.join(EVIDENCE_DIR, 'violations', '%s-%d.json' % (prop, n))
        with open(path, 'w') as f:
            json.dump(v, f, indent=1, default=list)
        print('VIOLATION property=%s replay=%s' % (prop, path))
        print('  rule=%s key=%s' % (v['rule'], v['key']))
        print('  %s' % v['what'])
        if v.get('where'):
            print('  at %s' % (v['where'],))
        if v.get('chain'):
            print('  chain: %s' % ' -> '.join(v['chain']))
    oks = [i for i in res.items if i['status'] == 'ok']
    keys = set(i['key'] for i in res.items if i.get('nontrivial'))
    samples = []
    per_rule = {}
    for i in res.items:
        per_rule.setdefault(i['rule'], []).append(i)
    for rule, its in sorted(per_rule.items()):
        for it in its[:3]:
            samples.append({k: v for k, v in it.items() if v is not None and k != 'nontrivial'})
    rules = sorted(per_rule)
    ev = {
        'property_id': prop,
        'tier': tier,
        'seed': seed,
        'level': 'other',
        'coverage': {
            'explanation': level_text,
            'technique': technique,
            'evaluations': len(res.items),
            'distinct_nontrivial': len(keys),
            'rule': 'one evaluation = one rule instance (a site, path, field, edge or obligation found in the '
                    'MIR facts of /repo\'s current tree); distinct = distinct instance keys; vacuous instances are not counted',
            'rules_applied': rules,
            'instances_per_rule': {r: len(v) for r, v in sorted(per_rule.items())},
            'floors': {r: {'found': f, 'required': q} for r, (f, q) in sorted(res.floors.items())},
            'ok': len(oks),
            'known_findings': nknown,
            'new_violations': len(new),
            'samples': samples[:60],
            'configs': configs or ['default'],
            'exhaustive': True,
        },
        'assumptions': sorted(res.assumes),
        'wall_s': round(time.time() - t0, 2),
        'violations': len(new),
    }
    ev['coverage'].update(res.extra)
    os.makedirs(EVIDENCE_DIR, exist_ok=True)
    with open(os.path.join(EVIDENCE_DIR, '%s.json' % prop), 'w') as f:
        json.dump(ev, f, indent=1, default=list)
    print('%s: %d rule instances (%d rules), %d ok, %d known finding(s), %d new violation(s) [%s, %.1fs]'
          % (prop, len(res.items), len(rules), len(oks), nknown, len(new), tier, time.time() - t0))
    return 1 if new else 0
