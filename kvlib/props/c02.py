"""C02 — mixer output equals the documented signal-flow sum (structure of the flow)."""
from ..paths import describe, pretty_place
from ..rules import calls_to, calls_where, order_ok, blocks_of, must_pass, self_field_of_call, op_sites, frame_op, closure_args
from ..facts import callee_path

TEXT = ("Structure of the signal flow, not its arithmetic: every scratch buffer lent to a child is accumulated into the parent and zero-filled before it is reused; each sound/effect/child track has exactly one process call site per owner, inside one loop (or iterator consumer) over the owning collection, and that pass lies on every path to a return (except the silent exit of a frozen track); Mixer processes sub-tracks, then send tracks, then the main track; Track applies gate, children, sounds, effects, spatialisation, fader, sends in this order; sends are fed from the post-fader buffer; all scratch buffers are sized from internal_buffer_size and children receive slices of at most that size. Gain values and effect outputs are not decided. Every effect- or send-taking method of the track builders stores what it was given. A track is not unloaded while a descendant track is alive (removal predicate rule). The queues of dependents are drained before the queues of what they refer to (sub-tracks before send tracks); every mixing loop adds a contribution once and applies a gain once; AudioManager::new uses one internal buffer size, the configured one; the removal flag a dropped handle raises is the one the audio side reads. The gain stage, the send stage and a send track's input stage lie on every path to a return of their mixing function (except the frozen exit); no volume in use is a cached copy of a parameter's value that can go stale. Every per-frame read of a volume is given the position of the frame inside the slice being processed (index / length of that slice). A pause / resume the track reads reaches its state machine in every state. A track built anywhere has its effects initialised with the device rate read at that moment, on every path of its creation site; track handles write their commands whatever the handle believes the track's state to be. Renderer::process renders every chunk of the device buffer: its chunk loop is left by exhaustion only and every turn reaches process_chunk. Each chunk is rendered with its own frame count (dt x the frames of that chunk, computed per chunk). Builder / settings methods named after a field store their argument unconditionally, through conversions only; a track or route volume starts from the configured value and a linked one is polled from the first callback (a new parameter is stagnant exactly when its initial value is fixed).")
TECHNIQUE = 'MIR CFG ordering / pairing / single-site rules'

TRACK = 'track::sub::Track'
MAIN = 'track::main::MainTrack'
SEND = 'track::send::SendTrack'
MIXER = 'backend::resources::mixer::Mixer'
CHILD_PROCESS = (TRACK + '::process', SEND + '::process', 'sound::Sound::process')


def loop_of(body, bb):
    ls = body.in_loop(bb)
    if not ls:
        return None
    return min(ls, key=lambda l: len(l['blocks']))


def run(ctx, R, tier):
    F = ctx.facts('default')
    hygiene(F, R)
    once(F, R)
    per_frame_ops(F, R)
    stages_every_path(F, R)
    every_chunk(F, R)
    order(F, R)
    # 'in slices no longer than the internal buffer size ... nothing is lost': each chunk is rendered with its own frame count (the
    # chunk-order / advance rule of C05: dt x the frames of this chunk, computed per chunk)
    from .c05 import order as chunk_advance
    chunk_advance(F, R)
    send(F, R)
    ibs(F, R)
    ibs_single(F, R)
    builders(F, R)
    setters(F, R, fn_filter=lambda q: q.startswith('track::'), floor=8)
    # 'multiplied by the volume of every track on its path': a track / route volume starts from what the builder was given, and a
    # linked one (a modulator, the listener's distance) is polled from the first callback on
    from .c06 import config_verbatim
    config_verbatim(F, R, rule='B.C02.config', fn_filter=lambda q: q.startswith('track::'), floor=6)
    # nothing is lost: a track is not unloaded while a descendant track (with its sounds) is alive
    from .c12 import remove_rule
    remove_rule(F, R, rule='B.C02.alive')
    # 'multiplied by the volume of every track on its path': the volume tweens of a track advance whether or not it is paused
    from .c06 import ungated
    ungated(F, R, rule='B.C02.ungated')
    from .c07 import pickup_order
    pickup_order(F, R, rule='B.C02.pickup-order', which=('mixer',))
    # a removed branch contributes silence: the removal flag a dropped handle raises is the one the audio side reads (C08)
    from .c08 import drops
    drops(F, R)
    # 'multiplied by the volume ...': the volume in use is the parameter's, not a cached copy of it
    # 'a paused branch contributes exact silence': a pause the track reads reaches its state machine in every state
    from . import c03
    c03.commands_reach_manager(F, R, rule='B.C02.cmd-applied', owners=c03.TRACK_OWNERS, floor=2)
    # a pause / resume issued on a track handle is written whatever state the handle believes the track to be in
    from .c07 import write_unconditional
    write_unconditional(F, R, rule='B.C02.cmd', floor=4, fn_filter=lambda q: q.startswith('track::') and 'handle' in q)
    # 'each track's effects applied at that track': every track that reaches the renderer had its effects initialised with the
    # rate in force (the C16 rule)
    from .c16 import init_sites
    init_sites(F, R)
    from .c06 import in_chunk_time
    in_chunk_time(F, R, rule='B.C02.in-chunk')
    from .c06 import param_cache
    param_cache(F, R, rule='B.C02.param-cache', fn_filter=lambda q: q.startswith('track::') or q.startswith('backend::'), floor=5)


def builders(F, R):
    """What the game asks a track builder for ends up in the track: every effect-taking method of the four track builders
    pushes an effect into `effects` on every path, every `with_send` inserts into `sends` (decided on a view with the
    builder's own helper methods spliced in), and `build` moves both into the track it constructs."""
    n = 0
    for b in F.bodies:
        if b.krate != 'kira' or 'uilder' not in b.path or '{closure' in b.path or not b.path.startswith('track::'):
            continue
        nm = b.path.split('::')[-1]
        if nm not in ('add_effect', 'with_effect', 'add_built_effect', 'with_built_effect', 'with_send'):
            continue
        v = F.inlined_view(b.path, depth=3, pred=lambda hp: 'uilder' in hp and hp.startswith('track::'))
        n += 1
        want = ('insert', '.sends') if nm == 'with_send' else ('push', '.effects')
        sites = [x for x, t in v.calls() if (callee_path(t) or '').split('::')[-1] == want[0]
                 and want[1] in (self_field_of_call(v, t, 0) or describe(v, t['args'][0], depth=6, at=x))]
        ok = bool(sites) and any(all(v.dominates(x, r) for r in v.return_blocks()) for x in sites)
        R.check(ok, 'B.C02.builder', b.path.split('::', 2)[-1],
                '%s does not %s on every path: what was asked of the builder is silently dropped' % (b.path, 'insert the route into sends' if nm == 'with_send' else 'push the effect into effects'),
                detail={'method': b.path}, where=b.file)
    R.floor('B.C02.builder', n, 18)


SETTER_CONVERSIONS = ('std::convert::Into::into', '<T as std::convert::Into<U>>::into', 'value::Value::<T>::to_', 'sound::IntoOptionalRegion::into_optional_region',
                      'std::option::Option::Some', 'std::convert::From::from', 'tuple')


def setters(F, R, rule='B.C02.setter', fn_filter=None, floor=50):
    """A builder / settings method named after a field stores what it was given in that field, whatever it is: the method has
    no branch (it does not look at the value, at what an earlier call set, or at another setting) and the field receives the
    argument through conversions only (`into()`, `to_()`, `Some(..)`, `into_optional_region()`).  A setter that validates,
    clamps, merges or silently ignores its argument makes the configured object differ from the configuration."""
    from ..paths import parse_term
    n = 0
    for b in F.bodies:
        if b.krate != 'kira' or '{closure' in b.path or b.path.startswith('<') or b.arg_count != 2 or (fn_filter is not None and not fn_filter(b.path)):
            continue
        owner, nm = b.path.rsplit('::', 1)
        if 'uilder' not in owner and 'Settings' not in owner:
            continue        # (the `slice` methods of the sound data compute a region: not plain setters)
        a = F.adt(owner.split('::<')[0]) or F.adt(owner)
        if not a or a.get('kind') != 'Struct' or nm not in [f['name'] for f in a['variants'][0]['fields']]:
            continue
        if not any(1 <= l <= 1 and x == 'self' for l, x in b.names.items()):
            continue
        params = [x for l, x in b.names.items() if l == 2]
        if not params:
            continue
        n += 1
        branches = [x for x in range(b.n) if b.blocks[x]['term']['k'] == 'switch' and not b.blocks[x].get('cleanup')]
        # what the field receives
        vals = []
        for bb, si, s in b.stmts():
            if s['k'] != 'assign':
                continue
            pr = s['lhs']['p']
            if s['lhs']['l'] in (0, 1) and pr and [x for x in pr if x[0] == 'field'] and [x for x in pr if x[0] == 'field'][0][2] == nm and len([x for x in pr if x[0] == 'field']) == 1:
                vals.append(describe_rv_(b, s, bb))
            elif s['rv']['k'] == 'agg' and s['rv'].get('ak') == 'adt' and nm in (s['rv'].get('fields') or []) and (s['rv'].get('adt') or '').split('::')[-1] == owner.split('::')[-1].split('<')[0]:
                vals.append(describe(b, s['rv']['ops'][s['rv']['fields'].index(nm)], depth=6, at=bb))

        def ok_term(d):
            t, args = parse_term(d)
            if args is None:
                return d == params[0]
            return t in SETTER_CONVERSIONS and any(ok_term(x) for x in args) and all(ok_term(x) or not any(p_ in x for p_ in params) for x in args)
        good = not branches and len(vals) >= 1 and all(ok_term(v) for v in vals)
        R.check(good, rule, b.path, '%s %s: what the builder was asked for is not what it holds' % (
            b.path, 'looks at a value before storing its argument' if branches else 'stores %s in its field' % [v[:80] for v in vals][:2]),
            detail={'stored': [v[:80] for v in vals][:2]}, where=b.file, nontrivial=False)
    R.floor(rule, n, floor)


def describe_rv_(b, s, bb):
    from ..paths import describe_rv
    return describe_rv(b, s['rv'], depth=6, at=bb)


def hygiene(F, R):
    n = 0
    for owner in (MIXER, TRACK, MAIN):
        b = F.body(owner + '::process')
        if not R.check(b is not None, 'B.C02.hygiene', 'anchor:' + owner, '%s::process not found' % owner):
            continue
        for bb, t in b.calls():
            cp = callee_path(t) or ''
            if cp not in CHILD_PROCESS:
                continue
            d = describe(b, t['args'][1])
            if 'temp_buffer' not in d:
                R.bad('B.C02.hygiene', '%s|%s' % (owner, cp), 'unrecognised-shape: child %s is not processed into the scratch buffer (%s)' % (cp, d),
                      where=b.where(bb))
                continue
            n += 1
            L = loop_of(b, bb)
            key = '%s|%s' % (owner.split('::')[-1], cp.split('::')[-2])
            if L is None:
                R.bad('B.C02.hygiene', key, 'child process call is not inside a loop over the owning collection', where=b.where(bb))
                continue
            blocks = L['blocks']
            fills = [x for x, tt in b.calls() if x in blocks and (callee_path(tt) or '').endswith('core::slice::<impl [T]>::fill')
                     and 'temp_buffer' in describe(b, tt['args'][0]) and 'frame::Frame::ZERO' in describe(b, tt['args'][1])]
            from ..rt import dead_end
            exits = [s for x in blocks for s in b.succ(x) if s not in blocks and not dead_end(b, s)]
            nxt = [t['t']]
            # accumulation events: an inner loop (zip over the two buffers) that adds frames, or an iterator call
            # (for_each / fold) whose closure adds frames; either must be passed on every path of the iteration and
            # must pair the scratch buffer with `out`
            direct = set(x for x, tt in b.calls() if frame_op('add_assign')(callee_path(tt) or '', tt))
            adds = [x for x in op_sites(F, b, frame_op('add_assign')) if x in blocks]
            events = []
            for l in b.loops():
                if l['header'] in blocks and l['header'] != L['header'] and any(a in l['blocks'] for a in adds if a in direct):
                    events.append((l['header'], zip_source(b, l)))
            for a in adds:
                if a not in direct:
                    events.append((a, describe(b, b.blocks[a]['term']['args'][0], depth=10)))
            ok_add = bool(events) and must_pass(b, nxt, [L['header']] + exits, [e for e, _ in events]) \
                and all('temp_buffer' in src and 'out' in src for _, src in events)
            ok_fill = bool(fills) and must_pass(b, nxt, [L['header']] + exits, fills)
            ok_order = bool(adds) and bool(fills) and order_ok_in_loop(b, L, adds, fills)
            why = []
            if not ok_add:
                why.append('the child output is not added into the parent buffer on every path of the iteration')
            if not ok_fill:
                why.append('the scratch buffer is not zero-filled before the next child uses it (signal would leak into the next child / callback)')
            if ok_add and ok_fill and not ok_order:
                why.append('the scratch buffer is cleared before it is accumulated')
            R.check(not why, 'B.C02.hygiene', key, '%s::process: %s' % (owner, '; '.join(why)),
                    detail={'owner': owner, 'child': cp, 'accumulate_blocks': len(adds), 'fill_blocks': len(fills)}, where=b.where(bb))
    # renderer clears its bus after converting; send track clears its input after consuming it
    rb = F.body('backend::renderer::Renderer::process_chunk')
    if R.check(rb is not None, 'B.C02.hygiene', 'anchor:renderer', 'process_chunk not found'):
        n += 1
        fills = [x for x, tt in rb.calls() if (callee_path(tt) or '').endswith('core::slice::<impl [T]>::fill')
                 and 'temp_buffer' in describe(rb, tt['args'][0]) and 'frame::Frame::ZERO' in describe(rb, tt['args'][1])]
        mix = blocks_of(calls_to(rb, MIXER + '::process', suffix=False))
        ok = bool(fills) and all(rb.dominates(fills[0], r) for r in rb.return_blocks()) and order_ok(rb, mix, fills) \
            and not rb.in_loop(fills[0])
        # the conversion loop reads temp_buffer before the fill
        R.check(ok, 'B.C02.hygiene', 'Renderer|bus', 'Renderer::process_chunk does not clear its mix bus after every chunk',
                detail='mixer.process ≺ convert ≺ temp_buffer.fill(ZERO) on every path', where=rb.file)
    sb = F.body(SEND + '::process')
    if R.check(sb is not None, 'B.C02.hygiene', 'anchor:send', 'SendTrack::process not found'):
        n += 1
        fills = [x for x, tt in sb.calls() if (callee_path(tt) or '').endswith('core::slice::<impl [T]>::fill')
                 and '.input' in describe(sb, tt['args'][0]) and 'frame::Frame::ZERO' in describe(sb, tt['args'][1])]
        adds = op_sites(F, sb, frame_op('add_assign'))
        eff = blocks_of(calls_to(sb, 'effect::Effect::process', suffix=False))
        ok = bool(fills) and bool(adds) and all(sb.dominates(fills[0], r) for r in sb.return_blocks()) \
            and order_ok(sb, adds, fills) and order_ok(sb, fills, eff)
        R.check(ok, 'B.C02.hygiene', 'SendTrack|input', 'SendTrack::process does not consume and then clear its input accumulator before the effects',
                detail='out += input ≺ input.fill(ZERO) ≺ effects', where=sb.file)
    R.floor('B.C02.hygiene', n, 7)


def src_block(b, l):
    return l


def zip_source(b, l):
    """Describe the arguments of the zip() whose iterator the accumulation loop advances."""
    out = []
    for x, tt in b.calls():
        if (callee_path(tt) or '').endswith('std::iter::Iterator::zip'):
            out.append(describe(b, tt['args'][0], depth=8) + ' ~ ' + describe(b, tt['args'][1], depth=8))
    return ' | '.join(out)


def order_ok_in_loop(b, L, A, B):
    """Within one iteration: A before B (path A->B not passing the header; no path B->A without the header)."""
    h = L['header']
    fwd = any(set(b.reach_after(a, removed=[h])) & set(B) for a in A)
    back = any(set(b.reach_after(x, removed=[h])) & set(A) for x in B)
    return fwd and not back


def once(F, R):
    n = 0
    spec = [(TRACK, 'sound::Sound::process', 'sounds'), (MAIN, 'sound::Sound::process', 'sounds'),
            (TRACK, 'effect::Effect::process', 'effects'), (MAIN, 'effect::Effect::process', 'effects'),
            (SEND, 'effect::Effect::process', 'effects'),
            ('<effect::delay::Delay as effect::Effect>', 'effect::Effect::process', 'feedback_effects'),
            (TRACK, TRACK + '::process', 'sub_tracks'), (MIXER, TRACK + '::process', 'sub_tracks'),
            (MIXER, SEND + '::process', 'send_tracks')]
    for owner, callee, coll in spec:
        b = F.body(owner + '::process')
        key = '%s|%s' % (owner, callee)
        if not R.check(b is not None, 'B.C02.once', 'anchor:' + key, 'not found'):
            continue
        n += 1
        pred = (lambda c: (lambda p, t: p == c))(callee)
        cs = op_sites(F, b, pred)
        direct = set(x for x, t in calls_to(b, callee, suffix=False))
        ok = len(cs) == 1
        why = '%d call sites of %s in %s::process (each live item must be asked exactly once per chunk)' % (len(cs), callee, owner)
        if ok:
            site = cs[0]
            if site in direct:
                inner = loop_of(b, site)
                anchor = inner['header'] if inner else None
                it = iter_source(b, inner) if inner else '?'
                outer = [l for l in b.in_loop(site) if inner and l['header'] != inner['header']]
            else:
                # the call is made by the closure of an iterator consumer (for_each ...) over the collection
                anchor = site
                it = describe(b, b.blocks[site]['term']['args'][0], depth=10)
                outer = b.in_loop(site)
            if anchor is None:
                ok = False
                why = 'the call is not in a loop over %s' % coll
            else:
                # the loop iterates the owning collection: the iterator it advances was built from self.<coll>
                if coll not in it:
                    ok = False
                    why = 'the loop around the call iterates %s, not self.%s' % (it, coll)
                # no enclosing second loop other than Delay's chunk loop
                if outer and 'delay' not in owner:
                    ok = False
                    why = 'the call is nested in %d loops' % (len(outer) + 1)
                # the pass over the collection is not skipped: it lies on every path to a return, except the frozen
                # (not advancing) exit of a track, which returns silence without touching anything
                if ok and 'delay' not in owner:
                    silent = set()
                    adv = calls_to(b, 'sound::PlaybackState::is_advancing')
                    if adv:
                        from ..rules import bool_edges
                        be = bool_edges(b, adv[0][0])
                        if be:
                            silent = b.reachable([be[1]], stop=[anchor]) - b.reachable([be[0]], stop=[anchor])
                    skipped = [r for r in b.return_blocks() if not b.dominates(anchor, r) and r not in silent]
                    if skipped:
                        ok = False
                        why = 'the pass over self.%s can be skipped (a path reaches the return at %s without it): live items are not asked for this chunk' % (coll, b.where(skipped[0]))
        R.check(ok, 'B.C02.once', key, why, detail={'owner': owner, 'callee': callee, 'collection': coll},
                where=b.where(cs[0]) if cs else b.file)
    R.floor('B.C02.once', n, 9)
    rb = F.body('backend::renderer::Renderer::process')
    if R.check(rb is not None, 'B.C02.once', 'anchor:Renderer::process', 'not found'):
        cs = calls_to(rb, 'backend::renderer::Renderer::process_chunk', suffix=False)
        ok = len(cs) == 1 and loop_of(rb, cs[0][0]) is not None and 'chunks_mut' in iter_source(rb, loop_of(rb, cs[0][0]))
        if not cs:
            # `chunks_mut(..).for_each(|chunk| self.process_chunk(chunk, n))`: one call in the closure, the closure handed to
            # for_each of the chunk iterator, outside any loop
            cl = [c for c in F.closures_of(rb.path) if calls_to(c, 'backend::renderer::Renderer::process_chunk', suffix=False)]
            fe = [(x, t) for x, t in rb.calls() if (callee_path(t) or '').endswith('Iterator::for_each')]
            ok = len(cl) == 1 and len(calls_to(cl[0], 'backend::renderer::Renderer::process_chunk', suffix=False)) == 1 \
                and not cl[0].in_loop(calls_to(cl[0], 'backend::renderer::Renderer::process_chunk', suffix=False)[0][0]) \
                and len(fe) == 1 and not rb.in_loop(fe[0][0]) and 'chunks_mut' in describe(rb, fe[0][1]['args'][0], depth=5, at=fe[0][0])
        R.check(ok, 'B.C02.once', 'Renderer::process', 'Renderer::process does not call process_chunk once per chunk of chunks_mut',
                detail='for chunk in out.chunks_mut(..) { process_chunk(chunk) }')


def iter_source(b, L):
    """Description of what the iterator advanced in the loop header was built from."""
    for x in sorted(L['blocks']):
        t = b.blocks[x]['term']
        if t['k'] == 'call' and (t.get('callee') or {}).get('name') in ('next', 'next_back'):
            recv = t['args'][0]
            from ..facts import operand_place
            pl = operand_place(b, recv)
            if pl is None:
                return '?'
            # the iterator local: find its definition (into_iter / iter_mut call) and describe its argument
            d = b.defs().get(pl['l'], [])
            descs = []
            for dd in d:
                if dd[0] == 'call':
                    descs.append('%s(%s)' % (callee_path(dd[2]), ', '.join(describe(b, a) for a in dd[2]['args'])))
                elif dd[0] == 'stmt':
                    from ..paths import describe_rv
                    descs.append(describe_rv(b, dd[3]['rv']))
            return ' | '.join(descs)
    return '?'


def _sites(F, b, path):
    """Blocks of b at which `path` is called: directly, or in a closure handed to an iterator consumer called there."""
    return op_sites(F, b, lambda p, t: p == path)


def order(F, R):
    mb = F.body(MIXER + '::process')
    if R.check(mb is not None, 'B.C02.order-mixer', 'anchor', 'Mixer::process not found'):
        a = _sites(F, mb, TRACK + '::process')
        s = _sites(F, mb, SEND + '::process')
        m = _sites(F, mb, MAIN + '::process')
        ok = bool(a) and bool(s) and len(m) == 1 and order_ok(mb, a, s) and order_ok(mb, s, m) and order_ok(mb, a, m) \
            and not mb.in_loop(m[0]) and all(mb.dominates(m[0], r) for r in mb.return_blocks())
        R.check(ok, 'B.C02.order-mixer', 'Mixer::process',
                'Mixer::process does not run sub-tracks, then send tracks, then the main track (sends would miss or lag the '
                'audio routed to them)', detail='sub-tracks ≺ send tracks ≺ main track', where=mb.file)
    tb = F.body(TRACK + '::process')
    if R.check(tb is not None, 'B.C02.order-track', 'anchor:Track', 'Track::process not found'):
        ev = [
            ('gate', blocks_of(calls_to(tb, 'sound::PlaybackState::is_advancing'))),
            ('children', _sites(F, tb, TRACK + '::process')),
            ('sounds', _sites(F, tb, 'sound::Sound::process')),
            ('effects', _sites(F, tb, 'effect::Effect::process')),
            ('spatialize', _sites(F, tb, 'track::sub::SpatialData::spatialize')),
            ('fader', op_sites(F, tb, frame_op('mul_assign'))),
            ('sends', _sites(F, tb, SEND + '::add_input')),
        ]
        ok = True
        why = ''
        for name, bl in ev:
            if not bl:
                ok = False
                why = 'event %s not found in Track::process' % name
        if ok:
            for (n1, b1), (n2, b2) in zip(ev, ev[1:]):
                if not order_ok(tb, b1, b2):
                    ok = False
                    why = '%s does not strictly precede %s' % (n1, n2)
        R.check(ok, 'B.C02.order-track', 'Track::process', why,
                detail='gate ≺ child tracks ≺ sounds ≺ effects ≺ spatialisation ≺ volume×fade ≺ sends', where=tb.file)
        # the fader multiplies by both the track volume and the pause fade
        fb = [x for x, tt in tb.calls() if (callee_path(tt) or '').split('::')[-1] in ('mul_assign', 'mul') and 'frame::Frame' in (callee_path(tt) or '')]
        if fb:
            d = describe(tb, tb.blocks[fb[-1]]['term']['args'][1], depth=8)
            R.check('volume' in d and 'interpolated_fade_volume' in d and d.startswith('Mul('), 'B.C02.order-track', 'Track::fader',
                    'the post-effects gain is %s, not track volume × pause fade' % d, detail={'gain': d[:200]})
    for owner in (MAIN, SEND):
        b = F.body(owner + '::process')
        if not R.check(b is not None, 'B.C02.order-track', 'anchor:' + owner, 'not found'):
            continue
        inp = op_sites(F, b, frame_op('add_assign'))
        eff = _sites(F, b, 'effect::Effect::process')
        vol = op_sites(F, b, frame_op('mul_assign'))
        ok = bool(inp) and bool(eff) and bool(vol) and order_ok(b, inp, eff) and order_ok(b, eff, vol)
        R.check(ok, 'B.C02.order-track', owner.split('::')[-1] + '::process',
                '%s::process does not apply inputs, then effects, then volume' % owner, detail='inputs ≺ effects ≺ volume', where=b.file)


def send(F, R):
    tb = F.body(TRACK + '::process')
    if tb is None:
        return
    cs = calls_to(tb, SEND + '::add_input', suffix=False)
    if not R.check(len(cs) == 1, 'B.C02.send', 'site', '%d add_input sites in Track::process' % len(cs)):
        return
    bb, t = cs[0]
    src = describe(tb, t['args'][1])
    vol = describe(tb, t['args'][2])
    ok = src in ('&(*out)', '(*out)', 'out') and 'parameter::Parameter::<T>::value(' in vol
    R.check(ok, 'B.C02.send', 'post-fader', 'the send is fed from %s with volume %s (must be the post-fader `out` and the route volume)' % (src, vol[:120]),
            detail={'source': src, 'volume': vol[:120]}, where=tb.where(bb))
    # a missing send track skips this route only: the None edge goes back to the loop header, never out of the loop
    from ..rules import switch_on_call
    gm0 = calls_to(tb, 'backend::resources::ResourceStorage::<T>::get_mut', suffix=False)
    if gm0:
        from ..rules import option_edges
        oe = option_edges(tb, gm0[0][0])
        L = loop_of(tb, gm0[0][0])
        okc = False
        if oe is not None and L is not None:
            none_t = oe[1]
            if none_t is not None:
                reach = tb.reachable([none_t], stop=[L['header']])
                okc = L['header'] in reach and all(x in L['blocks'] for x in reach)
        R.check(okc, 'B.C02.send', 'missing-continues',
                'a send route whose send track no longer exists does not simply continue with the next route (the remaining live routes would lose their signal)',
                detail='None => continue', where=tb.where(gm0[0][0]))
    # a missing send track is skipped, not written
    gm = calls_to(tb, 'backend::resources::ResourceStorage::<T>::get_mut', suffix=False)
    R.check(len(gm) == 1 and tb.dominates(gm[0][0], bb), 'B.C02.send', 'lookup',
            'add_input is not guarded by the generation-checked lookup of the send track', detail='get_mut(id) ≺ add_input')


import re as _re
# vec![Frame::ZERO; <exactly the internal buffer size>]
SIZE_RE = _re.compile(r"^std::vec::from_elem\(const frame::Frame::ZERO, (internal_buffer_size|\(\*self\)\.internal_buffer_size|self\.internal_buffer_size)\)$")


# buf[..x.len()] and buf[0..x.len()] are the same prefix slice
PREFIX_RE = _re.compile(r"(?:RangeTo\(|Range\((?:const )?0(?:_usize)?, )core::slice::<impl \[T\]>::len\((.*)$")


def prefix_of_len(d, buf, lenof):
    """Is the described slice `<buf>[..<lenof>.len()]`?"""
    m = PREFIX_RE.search(d)
    return bool(m) and buf in d[:m.start()] and any(x in m.group(1) for x in lenof)


def scratch_allocations(F):
    """[(buffer name, function, description of the allocated value, where)] for every scratch buffer"""
    out = []
    for b in F.bodies:
        if b.krate != 'kira':
            continue
        for bb, si, s in b.stmts():
            if s['k'] != 'assign':
                continue
            rv = s['rv']
            if rv['k'] == 'agg' and rv.get('ak') == 'adt':
                for fn, op in zip(rv['fields'], rv['ops']):
                    if fn in ('temp_buffer', 'input') and rv['adt'] in ('backend::renderer::Renderer', MIXER, TRACK, MAIN, SEND):
                        out.append((rv['adt'] + '.' + fn, b, describe(b, op, depth=8), bb))
            elif s['lhs']['p'] and pretty_place(b, s['lhs']) == '(*self).temp_buffer' and 'effect::delay' in b.path:
                out.append(('effect::delay::Delay.temp_buffer', b, describe(b, rv.get('op', {}), depth=8) if rv['k'] == 'use' else '?', bb))
    return out


def nested_slices(F, R, rule='B.C02.ibs'):
    """An effect that forwards audio to nested effects (Delay's feedback loop) hands them exactly the frames of the current
    chunk: scratch[..input.len()], never the whole scratch buffer."""
    n = 0
    for im in F.impls:
        if im['trait'] != 'effect::Effect' or im['self_ty'].startswith('std::boxed::Box'):
            continue
        items = {it['name']: it['path'] for it in im['items']}
        b = F.body(items.get('process', ''))
        if b is None:
            continue
        for bb, t in b.calls():
            if (callee_path(t) or '') != 'effect::Effect::process':
                continue
            n += 1
            d = describe(b, t['args'][1], depth=14, at=bb)
            ok = d in ('input', '&(*input)', '(*input)') or prefix_of_len(d, '', ('input', 'ChunksMut'))
            R.check(ok, rule, 'nested:%s#%d' % (im['self_ty'], n),
                    '%s::process hands %s to its nested effects: not the current chunk nor scratch[..input.len()] (nested stateful effects would '
                    'advance by a different number of frames than were processed, so the output depends on how the input is split)'
                    % (im['self_ty'], d[:140]), detail={'effect': im['self_ty'], 'slice': d[:120]}, where=b.where(bb))
    return n


def ibs(F, R):
    """All scratch buffers are allocated with internal_buffer_size; children get temp_buffer[..out.len()] or out itself."""
    n = 0
    for name, b, d, bb in scratch_allocations(F):
        n += 1
        ok = bool(SIZE_RE.match(d))
        R.check(ok, 'B.C02.ibs', 'alloc:' + name + '@' + b.path,
                'scratch buffer %s is allocated as %s, not vec![Frame::ZERO; internal_buffer_size]: slices of up to internal_buffer_size '
                'frames are indexed into it' % (name, d[:160]), detail={'buffer': name, 'in': b.path, 'size': d[:120]}, where=b.where(bb))
    R.floor('B.C02.ibs.alloc', n, 7)
    # pass-through: slices handed down are temp_buffer[..out.len()] or the incoming out
    m = 0
    for owner in (MIXER, TRACK, MAIN, SEND):
        b = F.body(owner + '::process')
        if b is None:
            continue
        for bb, t in b.calls():
            cp = callee_path(t) or ''
            if cp in CHILD_PROCESS or cp in ('effect::Effect::process', MAIN + '::process'):
                m += 1
                d = describe(b, t['args'][1], depth=8)
                ok = d in ('out', '&(*out)', '(*out)') or prefix_of_len(d, 'temp_buffer', ('out',))
                R.check(ok, 'B.C02.ibs', 'slice:%s->%s' % (owner.split('::')[-1], cp.split('::')[-2] + '::' + cp.split('::')[-1]) + '#%d' % m,
                        '%s hands %s to %s: not the incoming buffer nor temp_buffer[..out.len()]' % (owner, d[:160], cp),
                        detail={'owner': owner, 'callee': cp, 'slice': d[:140]}, where=b.where(bb))
    m += nested_slices(F, R)
    rb = F.body('backend::renderer::Renderer::process')
    if rb is not None:
        cs = calls_to(rb, 'core::slice::<impl [T]>::chunks_mut')
        d = describe(rb, cs[0][1]['args'][1], depth=8) if cs else '?'
        R.check('internal_buffer_size' in d and 'num_channels' in d and d.startswith('Mul('), 'B.C02.ibs', 'Renderer::process|chunk',
                'the device buffer is chunked by %s, not internal_buffer_size * num_channels' % d, detail={'chunk': d})
        m += 1
    R.floor('B.C02.ibs.slice', m, 9)


def stages_every_path(F, R, rule='B.C02.flow'):
    """'Scaled by the volume of every track on its path ... plus that signal through every send route': the stage of a mixing
    function that applies the track's gain (the per-frame `*=`), the stage that feeds the sends (`add_input`) and the stage
    that takes in what was routed to a send track (`+=` of the input accumulator) lie on every path to a return - no
    early-out skips them - except the silent exit of a frozen track (B.C12.freeze says what that exit may do)."""
    from ..rules import bool_edges
    spec = [(TRACK, 'gain', frame_op('mul_assign')), (MAIN, 'gain', frame_op('mul_assign')), (SEND, 'gain', frame_op('mul_assign')),
            (SEND, 'input', frame_op('add_assign')),
            (TRACK, 'sends', lambda p, t: p == SEND + '::add_input')]
    n = 0
    for owner, stage, pred in spec:
        b = F.body(owner + '::process')
        key = '%s:%s' % (owner.split('::')[-1], stage)
        if not R.check(b is not None, rule, 'anchor:' + key, '%s::process not found' % owner):
            continue
        sites = op_sites(F, b, pred)
        if not R.check(bool(sites), rule, 'anchor:' + key + ':site', 'no %s stage in %s::process' % (stage, owner)):
            continue
        n += 1
        anchors = []
        for x in sites:
            ls = b.in_loop(x)
            anchors.append(max(ls, key=lambda l: len(l['blocks']))['header'] if ls else x)
        silent = set()
        adv = calls_to(b, 'sound::PlaybackState::is_advancing')
        if adv:
            be = bool_edges(b, adv[0][0])
            if be:
                silent = b.reachable([be[1]], stop=anchors) - b.reachable([be[0]], stop=anchors)
        skipped = [r for r in b.return_blocks() if r not in silent and not must_pass(b, [0], [r], anchors)]
        R.check(not skipped, rule, key, 'the %s stage of %s::process can be skipped: a path reaches the return at %s without it'
                % (stage, owner, b.where(skipped[0]) if skipped else ''), detail={'stage': stage, 'sites': len(sites)}, where=b.where(sites[0]))
    R.floor(rule, n, 5)


def every_chunk(F, R, rule='B.C02.flow'):
    """'Every live sound and effect is asked for every output frame exactly once': Renderer::process cuts the device buffer into
    chunks and renders every one of them - the chunk loop is left only when the iterator is exhausted (no `break`, no early
    return) and every turn reaches process_chunk (no `continue` in front of it)."""
    b = F.body('backend::renderer::Renderer::process')
    if not R.check(b is not None, rule, 'anchor:renderer:every-chunk', 'Renderer::process not found'):
        return
    pc = [x for x, t in b.calls() if (callee_path(t) or '').endswith('Renderer::process_chunk')]
    ok, why = True, ''
    if pc and b.in_loop(pc[0]):
        L = max(b.in_loop(pc[0]), key=lambda l: len(l['blocks']))
        exits = [x for x in L['blocks'] if any(s not in L['blocks'] for s in b.succ(x))]
        good_exit = []
        for x in exits:
            t = b.blocks[x]['term']
            d = describe(b, t['op'], depth=4, at=x) if t['k'] == 'switch' else ''
            good_exit.append(t['k'] == 'switch' and d.startswith('discr(') and 'Iterator>::next' in d)
        if not exits or not all(good_exit):
            ok, why = False, 'the chunk loop can be left before the device buffer is exhausted'
        elif not must_pass(b, [s for x in exits for s in b.succ(x) if s in L['blocks']], [L['header']], pc):
            ok, why = False, 'a turn of the chunk loop can go round without rendering its chunk'
        elif any(b.blocks[r]['term']['k'] == 'return' and r in L['blocks'] for r in range(b.n)):
            ok, why = False, 'the chunk loop contains a return'
    else:
        # an iterator consumer: `chunks_mut(..).for_each(|chunk| self.process_chunk(chunk, n))`
        cl = [c for c in F.closures_of(b.path) if any((callee_path(t) or '').endswith('Renderer::process_chunk') for _, t in c.calls())]
        fe = [x for x, t in b.calls() if (callee_path(t) or '').endswith('Iterator::for_each')]
        if len(cl) == 1 and fe:
            c = cl[0]
            pcc = [x for x, t in c.calls() if (callee_path(t) or '').endswith('Renderer::process_chunk')]
            if not must_pass(c, [0], c.return_blocks(), pcc):
                ok, why = False, 'the per-chunk closure can return without rendering its chunk'
        else:
            ok, why = False, 'unrecognised-shape: no chunk loop around process_chunk'
    R.check(ok, rule, 'renderer:every-chunk', 'Renderer::process: %s - the frames of that chunk are never written and nothing advances for them' % why,
            detail='for chunk in chunks_mut(..) { process_chunk(chunk) }, left by exhaustion only', where=b.file)


def per_frame_ops(F, R):
    """The sum counts every contribution once and applies every gain once: in the mixing functions each innermost per-frame
    loop (and each closure handed to an iterator consumer) performs at most one `+=` and at most one `*=` on a frame.  A
    second one adds a child twice or squares a volume."""
    fns = [MIXER + '::process', TRACK + '::process', MAIN + '::process', SEND + '::process', SEND + '::add_input',
           '<effect::volume_control::VolumeControl as effect::Effect>::process']
    n = 0
    for fn in fns:
        b = F.body(fn)
        if not R.check(b is not None, 'B.C02.once', 'anchor:per-frame:' + fn.split('::')[-2], '%s not found' % fn):
            continue
        bodies = [b] + list(F.closures_of(fn))
        for body in bodies:
            loops = body.loops()
            regions = []
            for l in loops:
                if not any(o['header'] != l['header'] and o['header'] in l['blocks'] for o in loops):
                    regions.append(('loop@%s' % body.blocks[l['header']].get('line', ''), l['blocks']))
            if body is not b:
                regions.append(('closure', set(range(body.n))))
            for tag, blocks in regions:
                for op in ('add_assign', 'mul_assign'):
                    sites = [x for x, t in body.calls() if x in blocks and frame_op(op)(callee_path(t) or '', t)]
                    if not sites:
                        continue
                    n += 1
                    R.check(len(sites) == 1, 'B.C02.once', 'per-frame:%s:%s' % (fn.split('::')[-2] + '::' + fn.split('::')[-1], op),
                            '%s applies `%s` to a frame %d times in one per-frame loop: a contribution is added twice / a gain applied twice'
                            % (fn, '+=' if op == 'add_assign' else '*=', len(sites)), detail={'fn': fn, 'op': op}, where=body.where(sites[0]), nontrivial=False)
    R.floor('B.C02.once-per-frame', n, 8)


def ibs_single(F, R):
    """One internal buffer size: AudioManager::new hands the very same value - the configured `internal_buffer_size`, untouched -
    to the backend, to the resources (scratch buffers of the mixer and the main track), to the Renderer (which cuts the device
    buffer into chunks of it) and keeps it for the tracks created later.  Two values (e.g. one rounded up to a power of two)
    mean chunks longer than some scratch buffers."""
    b = None
    for x in F.bodies:
        if x.krate == 'kira' and x.path.endswith('manager::AudioManager::<B>::new'):
            b = x
    if not R.check(b is not None, 'B.C02.ibs', 'anchor:manager-new', 'AudioManager::new not found'):
        return
    vals = []
    for bb, t in b.calls():
        cp = callee_path(t) or ''
        cb = F.body(cp)
        names = []
        if cb is not None:
            names = [cb.names.get(i, '') for i in range(1, cb.arg_count + 1)]
        elif cp.endswith('Backend::setup'):
            names = ['settings', 'internal_buffer_size']
        for i, nm in enumerate(names):
            if nm == 'internal_buffer_size' and i < len(t['args']):
                vals.append((cp.split('::')[-2] + '::' + cp.split('::')[-1], describe(b, t['args'][i], depth=6, at=bb)))
    for bb, si, s in b.stmts():
        if s['k'] == 'assign' and s['rv']['k'] == 'agg' and 'internal_buffer_size' in (s['rv'].get('fields') or []):
            vals.append(('AudioManager.internal_buffer_size', describe(b, s['rv']['ops'][s['rv']['fields'].index('internal_buffer_size')], depth=6, at=bb)))
    ds = sorted(set(d for _, d in vals))
    R.check(len(vals) >= 3 and len(ds) == 1 and ds[0].endswith('.internal_buffer_size') and '(' not in ds[0].replace('(*', '').replace(')', ''), 'B.C02.ibs', 'manager-new:single',
            'AudioManager::new uses %s as internal buffer size(s): %s' % (ds, vals), detail={'uses': vals})
