#!/usr/bin/env python3
"""Run all checks against a scratch copy of /repo with a (behaviour-preserving) patch applied.
usage: tools/refac_quick.py <patch.diff> [--keep] [--slot N] [props...]"""
import json, os, shutil, subprocess, sys, tempfile
VERIF = os.path.dirname(os.path.dirname(os.path.abspath(__file__)))
args = sys.argv[1:]
keep = '--keep' in args
if keep: args.remove('--keep')
slot = 9
if '--slot' in args:
    i = args.index('--slot'); slot = int(args[i + 1]); del args[i:i + 2]
patch = os.path.abspath(args[0])
props = args[1:] or ['C01', 'C02', 'C03', 'C05', 'C06', 'C07', 'C08', 'C09', 'C10', 'C12', 'C13', 'C15', 'C16', 'C17', 'C18', 'C19']
scratch = tempfile.mkdtemp(prefix='kvrefac-')
try:
    for item in ('crates', 'Cargo.toml', 'Cargo.lock'):
        src = os.path.join('/repo', item); dst = os.path.join(scratch, item)
        if os.path.isdir(src): shutil.copytree(src, dst, ignore=shutil.ignore_patterns('target'))
        else: shutil.copy(src, dst)
    subprocess.run(['git', 'init', '-q'], cwd=scratch)
    r = subprocess.run(['git', 'apply', '--whitespace=nowarn', patch], cwd=scratch, stdout=subprocess.PIPE, stderr=subprocess.STDOUT, text=True)
    assert r.returncode == 0, r.stdout
    ev = os.path.join(scratch, 'evidence')
    env = dict(os.environ, KV_REPO=scratch, KV_EVIDENCE=ev, KV_KEEP_FACTS='1', KV_NO_SELFTEST='1',
               KV_TARGET=os.path.join(VERIF, '.cache', 'target-scratch-%d' % slot))
    n = 0
    for p in props:
        r = subprocess.run([os.path.join(VERIF, 'kv'), 'check', p], env=env, stdout=subprocess.PIPE, stderr=subprocess.STDOUT, text=True)
        if r.returncode != 0:
            n += 1
            print('==', p, 'exit', r.returncode)
            for l in r.stdout.splitlines():
                if l.startswith('  ') and not l.strip().startswith(('chain', 'at ')):
                    print('   ', l.strip()[:400])
    print('ALARMS' if n else 'SILENT', os.path.basename(os.path.dirname(patch)), n)
    if keep: print('scratch kept:', scratch)
finally:
    if not keep: shutil.rmtree(scratch, ignore_errors=True)
