#!/usr/bin/env python3
"""Run the checks against a behaviour-preserving refactoring patch: every alarm is a false alarm.
usage: tools/refac_check.py <dir with patch.diff> ; prints JSON {unit_tests, alarms: {prop: [keys]}}"""
import json, os, subprocess, sys, shutil, tempfile

def sh(cmd, cwd=None, timeout=3600, env=None):
    r = subprocess.run(cmd, cwd=cwd, shell=isinstance(cmd, str), stdout=subprocess.PIPE, stderr=subprocess.STDOUT, text=True, timeout=timeout, env=env)
    return r.returncode, r.stdout

def main():
    d = os.path.abspath(sys.argv[1])
    patch = os.path.join(d, 'patch.diff')
    out = {'dir': d}
    wt = tempfile.mkdtemp(prefix='refchk-'); os.rmdir(wt)
    env = dict(os.environ, CARGO_NET_OFFLINE='true', CARGO_TARGET_DIR=os.path.join(wt, 'target'))
    try:
        rc, o = sh(['git', '-C', '/repo', 'worktree', 'add', '-q', '--detach', wt, 'HEAD']); assert rc == 0, o
        rc, o = sh(['git', 'apply', '--whitespace=nowarn', patch], cwd=wt)
        out['patch_applies'] = rc == 0
        if rc != 0:
            out['error'] = o; return out
        rc, o = sh('timeout 1800 cargo test --offline --workspace 2>&1 | grep "test result" | head -20', cwd=wt, env=env)
        out['tests'] = [l.strip()[:60] for l in o.splitlines() if 'passed' in l and not ' 0 passed' in l]
        out['tests_ok'] = 'FAILED' not in o and 'failed; ' in o and all('0 failed' in l for l in o.splitlines() if 'test result' in l)
    finally:
        sh(['git', '-C', '/repo', 'worktree', 'remove', '--force', wt]); shutil.rmtree(wt, ignore_errors=True); sh(['git', '-C', '/repo', 'worktree', 'prune'])
    rc, o = sh(['git', '-C', '/repo', 'status', '--porcelain']); assert o.strip() == '', 'repo dirty'
    try:
        rc, o = sh(['git', '-C', '/repo', 'apply', '--whitespace=nowarn', patch]); assert rc == 0, o
        ev = tempfile.mkdtemp(prefix='refev-')
        alarms = {}
        renames = None
        for p in ['C01', 'C02', 'C03', 'C05', 'C06', 'C07', 'C08', 'C09', 'C10', 'C12', 'C13', 'C15', 'C16', 'C17', 'C18', 'C19']:
            rc, o = sh(['/verif/kv', 'check', p], env=dict(os.environ, KV_EVIDENCE=ev))
            if rc != 0:
                alarms[p] = {'exit': rc, 'keys': [l.split('key=')[1].strip() for l in o.splitlines() if l.strip().startswith('rule=')],
                             'msgs': [l.strip()[:300] for l in o.splitlines() if l.startswith('  ') and not l.strip().startswith(('rule=', 'chain', 'at '))][:6]}
            try:
                e = json.load(open(os.path.join(ev, p + '.json')))
                if e['coverage'].get('renames_mapped_to_baseline'):
                    renames = e['coverage']['renames_mapped_to_baseline']
            except Exception:
                pass
        shutil.rmtree(ev, ignore_errors=True)
        out['alarms'] = alarms
        out['renames_mapped'] = renames
    finally:
        sh(['git', '-C', '/repo', 'checkout', '--', '.'])
        rc, o = sh(['git', '-C', '/repo', 'status', '--porcelain']); out['repo_clean_after'] = (o.strip() == '')
    return out

if __name__ == '__main__':
    print(json.dumps(main(), indent=1))
